import Flurry.Lemmas.BinUChain
/-! # Proto/BinU: the transitions of the repaired model in normal form (C01/C07, tree bins)

`StepK s t l s'` lists the transitions of thread `t` of `step = stepG true true` with explicit
successor states, grouped by what they do to the shared state:
* `move`: heap and `first` untouched; the program counter moves and the synchronisation words
  (`mutex`, `writer`, `waiter`, `readers`) may change (`Move`);
* `fin`: a call completes without a store (`Fin`);
* the five stores: `val`, `prepend` (under the write lock), `treeLink` (under the write lock),
  `unlink` (under the write lock), `untree`;
* `dead`: the program counters `wListUnlink`, `wPrepend`, `wTreeLink` of the original orders, which
  `step` never reaches.
`step_stepK` dissects `step` once and for all. -/
namespace Flurry.Proto.BinU
open Flurry.Lin

/-- the state with the clock advanced -/
def tick (s : State) : State := { s with now := s.now + 1 }

/-- clock advanced and the synchronisation words replaced -/
def sync (s : State) (m : Option Nat) (w a : Bool) (r : Nat) : State :=
  { s with now := s.now + 1, mutex := m, writer := w, waiter := a, readers := r }

/-- the list unlink of node `i` -/
def unlinkOf (s : State) (i : Nat) : State :=
  match predOf (chain s) i with
  | some pr => setNode s pr (fun m => { m with next := (nodeAt s.heap i).next })
  | none => { s with first := (nodeAt s.heap i).next }

/-- prepending the fresh node `n` -/
def prependOf (s : State) (n : NodeS) : State :=
  { s with heap := s.heap ++ [n], first := some s.heap.length }

/-- program counters of the original store orders: never reached by `step` -/
def deadPc : Pc → Bool
  | .wListUnlink _ _ | .wPrepend | .wTreeLink _ => true
  | _ => false

/-- transitions that leave heap and `first` alone and do not complete the call:
`Move s t p pc pc' mutex' writer' waiter' readers'` -/
inductive Move (s : State) (t : Nat) (p : Pending) : Pc → Pc → Option Nat → Bool → Bool → Nat → Prop
  | rFirst : Move s t p .rFirst (.rState s.first) s.mutex s.writer s.waiter s.readers
  | rLinMode {c : Nat} : (s.writer || s.waiter) = true →
      Move s t p (.rState (some c)) (.rLin c) s.mutex s.writer s.waiter s.readers
  | rTreeMode {c : Nat} : (s.writer || s.waiter) = false →
      Move s t p (.rState (some c)) (.rCas c s.readers) s.mutex s.writer s.waiter s.readers
  | rLinNext {c : Nat} {n : NodeS} : s.heap[c]? = some n → n.key ≠ p.key →
      Move s t p (.rLin c) (.rState n.next) s.mutex s.writer s.waiter s.readers
  | rLinHit {c : Nat} {n : NodeS} : s.heap[c]? = some n → n.key = p.key → p.op ≠ .has →
      Move s t p (.rLin c) (.rVal c) s.mutex s.writer s.waiter s.readers
  | rCasOk {c r : Nat} : s.writer = false → s.waiter = false → s.readers = r →
      Move s t p (.rCas c r) .rTree s.mutex s.writer s.waiter (s.readers + 1)
  | rCasFail {c r : Nat} : Move s t p (.rCas c r) (.rState (some c)) s.mutex s.writer s.waiter s.readers
  | rTree : Move s t p .rTree (.rRelease (treeFind s p.key)) s.mutex s.writer s.waiter s.readers
  | rRelVal {i : Nat} : p.op ≠ .has →
      Move s t p (.rRelease (some i)) (.rVal i) s.mutex s.writer s.waiter (s.readers - 1)
  | lFirst : Move s t p .lFirst (.lNode s.first) s.mutex s.writer s.waiter s.readers
  | lNext {c : Nat} {n : NodeS} : s.heap[c]? = some n → n.key ≠ p.key →
      Move s t p (.lNode (some c)) (.lNode n.next) s.mutex s.writer s.waiter s.readers
  | lHit {c : Nat} {n : NodeS} : s.heap[c]? = some n → n.key = p.key → p.op ≠ .has →
      Move s t p (.lNode (some c)) (.rVal c) s.mutex s.writer s.waiter s.readers
  | wMutex : s.mutex = none → Move s t p .wMutex .wFind (some t) s.writer s.waiter s.readers
  | findVal {i : Nat} {v : Nat × Nat} {res : KRes} : treeFind s p.key = some i →
      specStep (some (nodeAt s.heap i).val) p.op = (some v, res) →
      Move s t p .wFind (.wVal i v res) s.mutex s.writer s.waiter s.readers
  | findInsert : treeFind s p.key = none →
      Move s t p .wFind (.lrTry .insert .none) s.mutex s.writer s.waiter s.readers
  | findRemove {i : Nat} {res : KRes} : treeFind s p.key = some i →
      specStep (some (nodeAt s.heap i).val) p.op = (none, res) →
      Move s t p .wFind (.lrTry (.remove i) res) s.mutex s.writer s.waiter s.readers
  | findDone {res : KRes} : specStep (absTree s p.key) p.op = (absTree s p.key, res) →
      Move s t p .wFind (.wUnlockM res) s.mutex s.writer s.waiter s.readers
  | lrTryOk {k : After} {res : KRes} : s.writer = false → s.waiter = false → s.readers = 0 →
      Move s t p (.lrTry k res) (afterLock true k res) s.mutex true s.waiter s.readers
  | lrTryFail {k : After} {res : KRes} :
      Move s t p (.lrTry k res) (.lrLoop k res) s.mutex s.writer s.waiter s.readers
  | lrLoopOk {k : After} {res : KRes} : s.writer = false → s.readers = 0 →
      Move s t p (.lrLoop k res) (afterLock true k res) s.mutex true false s.readers
  | lrLoopWait {k : After} {res : KRes} : s.waiter = false →
      Move s t p (.lrLoop k res) (.lrLoop k res) s.mutex s.writer true s.readers
  | restructNone {res : KRes} :
      Move s t p (.wRestructure none res) (.wUnlockRoot res) s.mutex s.writer s.waiter s.readers
  | unlockRoot {res : KRes} :
      Move s t p (.wUnlockRoot res) (.wUnlockM res) s.mutex false false s.readers

/-- calls that complete without a store: `Fin s p pc res mutex' readers'` -/
inductive Fin (s : State) (p : Pending) : Pc → KRes → Option Nat → Nat → Prop
  | rMiss : Fin s p (.rState none) (match p.op with | .has => .bool false | _ => .none) s.mutex s.readers
  | rLinHas {c : Nat} {n : NodeS} : s.heap[c]? = some n → n.key = p.key → p.op = .has →
      Fin s p (.rLin c) (.bool true) s.mutex s.readers
  | rRelNone : Fin s p (.rRelease none) (match p.op with | .has => .bool false | _ => .none)
      s.mutex (s.readers - 1)
  | rRelHas {i : Nat} : p.op = .has → Fin s p (.rRelease (some i)) (.bool true) s.mutex (s.readers - 1)
  | rVal {i : Nat} {n : NodeS} : s.heap[i]? = some n → Fin s p (.rVal i) (.some n.val.1 n.val.2) s.mutex s.readers
  | lMiss : Fin s p (.lNode none) (match p.op with | .has => .bool false | _ => .none) s.mutex s.readers
  | lHas {c : Nat} {n : NodeS} : s.heap[c]? = some n → n.key = p.key → p.op = .has →
      Fin s p (.lNode (some c)) (.bool true) s.mutex s.readers
  | unlockM {res : KRes} : Fin s p (.wUnlockM res) res none s.readers

inductive StepK (s : State) (t : Nat) (l : Local) : State → Prop
  | idle : l.pc = .idle → StepK s t l (setT (tick s) t l)
  | invoke (k : Nat) (op : KOp) (lo : Bool) : l.pc = .idle →
      StepK s t l (setT (tick s) t
        { pc := if isReader op then (if lo then .lFirst else .rFirst) else .wMutex,
          call := some ⟨k, op, s.now + 1⟩ })
  | move (p : Pending) (pc' : Pc) (m : Option Nat) (w a : Bool) (r : Nat) : l.call = some p →
      Move s t p l.pc pc' m w a r → StepK s t l (setT (sync s m w a r) t { l with pc := pc' })
  | fin (p : Pending) (res : KRes) (m : Option Nat) (r : Nat) : l.call = some p → Fin s p l.pc res m r →
      StepK s t l (finish (sync s m s.writer s.waiter r) t p res)
  | val (p : Pending) (i : Nat) (v : Nat × Nat) (res : KRes) : l.call = some p → l.pc = .wVal i v res →
      StepK s t l (setT (setNode (tick s) i (fun n => { n with val := v })) t { l with pc := .wUnlockM res })
  | prepend (p : Pending) (v vi : Nat) : l.call = some p → l.pc = .wPrependLocked →
      (p.op = .ins v vi ∨ p.op = .tryIns v vi) →
      StepK s t l (setT (prependOf (tick s) ⟨p.key, (v, vi), s.first, false⟩) t
        { l with pc := .wTreeLinkLocked s.heap.length })
  | treeLink (p : Pending) (x : Nat) : l.call = some p → l.pc = .wTreeLinkLocked x →
      StepK s t l (setT (setNode (tick s) x (fun n => { n with inTree := true })) t
        { l with pc := .wUnlockRoot .none })
  | unlink (p : Pending) (i : Nat) (res : KRes) : l.call = some p → l.pc = .wUnlinkLocked i res →
      StepK s t l (setT (unlinkOf (tick s) i) t { l with pc := .wRestructure (some i) res })
  | untree (p : Pending) (i : Nat) (res : KRes) : l.call = some p → l.pc = .wRestructure (some i) res →
      StepK s t l (setT (setNode (tick s) i (fun n => { n with inTree := false })) t
        { l with pc := .wUnlockRoot res })
  | dead (p : Pending) (s' : State) : l.call = some p → deadPc l.pc = true → StepK s t l s'

theorem setT_self {s : State} {t : Nat} {l : Local} (hl : s.threads[t]? = some l) : setT s t l = s := by
  unfold setT
  obtain ⟨ht, rfl⟩ := List.getElem?_eq_some_iff.1 hl
  rw [List.set_getElem_self]

theorem treeFind_congr {s s' : State} (h : s'.heap = s.heap) (k : Nat) : treeFind s' k = treeFind s k := by
  unfold treeFind; rw [h]

theorem absTree_congr {s s' : State} (h : s'.heap = s.heap) (k : Nat) : absTree s' k = absTree s k := by
  unfold absTree; rw [treeFind_congr h, h]

theorem step_stepK {s s' : State} {t : Nat} {l : Local} {inv : Option (Nat × KOp)} {bal lo : Bool}
    (hl : s.threads[t]? = some l) (hs : step s t inv bal lo = some s') : StepK s t l s' := by
  unfold step stepG at hs
  rw [hl] at hs
  simp only at hs
  obtain ⟨pc, call⟩ := l
  cases pc with
  | idle =>
    simp only at hs
    cases inv with
    | none =>
      simp only [Option.some.injEq] at hs
      subst hs
      have : tick s = setT (tick s) t ⟨.idle, call⟩ := (setT_self (s := tick s) hl).symm
      show StepK s t _ (tick s)
      rw [this]
      exact .idle rfl
    | some ko =>
      obtain ⟨k, op⟩ := ko
      simp only [Option.some.injEq] at hs
      subst hs
      exact .invoke k op lo rfl
  | rFirst =>
    cases call with
    | none => simp at hs
    | some p =>
      simp only [Option.some.injEq] at hs
      subst hs
      exact StepK.move p _ _ _ _ _ rfl (by exact .rFirst)
  | rState cur =>
    cases call with
    | none => simp at hs
    | some p =>
      cases cur with
      | none =>
        simp only [Option.some.injEq] at hs
        subst hs
        exact StepK.fin p _ _ _ rfl (by exact .rMiss)
      | some c =>
        simp only at hs
        by_cases hb : (s.writer || s.waiter) = true
        · rw [if_pos hb] at hs
          simp only [Option.some.injEq] at hs
          subst hs
          exact StepK.move p _ _ _ _ _ rfl (by exact .rLinMode hb)
        · rw [if_neg hb] at hs
          simp only [Option.some.injEq] at hs
          subst hs
          exact StepK.move p _ _ _ _ _ rfl (by exact .rTreeMode (by simpa using hb))
  | rLin c =>
    cases call with
    | none => simp at hs
    | some p =>
      simp only at hs
      cases hn : s.heap[c]? with
      | none => rw [hn] at hs; simp at hs
      | some n =>
        rw [hn] at hs
        simp only at hs
        by_cases hk : n.key = p.key
        · rw [if_pos (by simpa using hk)] at hs
          by_cases hop : p.op = .has
          · rw [hop] at hs
            simp only [Option.some.injEq] at hs
            subst hs
            exact StepK.fin p _ _ _ rfl (by exact .rLinHas hn hk hop)
          · have : some s' = some (setT (sync s s.mutex s.writer s.waiter s.readers) t { pc := .rVal c, call := some p }) := by
              rw [← hs]
              cases hop' : p.op <;> first | rfl | exact absurd hop' hop
            cases this
            exact StepK.move p _ _ _ _ _ rfl (by exact .rLinHit hn hk hop)
        · rw [if_neg (by simpa using hk)] at hs
          simp only [Option.some.injEq] at hs
          subst hs
          exact StepK.move p _ _ _ _ _ rfl (by exact .rLinNext hn hk)
  | rCas c r =>
    cases call with
    | none => simp at hs
    | some p =>
      simp only at hs
      by_cases hb : (!s.writer && !s.waiter && s.readers == r) = true
      · rw [if_pos hb] at hs
        simp only [Option.some.injEq] at hs
        subst hs
        simp only [Bool.and_eq_true, Bool.not_eq_eq_eq_not, Bool.not_true, beq_iff_eq] at hb
        exact StepK.move p _ _ _ _ _ rfl (by exact .rCasOk hb.1.1 hb.1.2 hb.2)
      · rw [if_neg hb] at hs
        simp only [Option.some.injEq] at hs
        subst hs
        exact StepK.move p _ _ _ _ _ rfl (by exact .rCasFail)
  | rTree =>
    cases call with
    | none => simp at hs
    | some p =>
      simp only [Option.some.injEq] at hs
      subst hs
      exact StepK.move p _ _ _ _ _ rfl (by exact .rTree)
  | rRelease hit =>
    cases call with
    | none => simp at hs
    | some p =>
      simp only at hs
      cases hit with
      | none =>
        have : some s' = some (finish (sync s s.mutex s.writer s.waiter (s.readers - 1)) t p
            (match p.op with | .has => .bool false | _ => .none)) := by
          rw [← hs]
          cases p.op <;> rfl
        cases this
        exact StepK.fin p _ _ _ rfl (by exact .rRelNone)
      | some i =>
        by_cases hop : p.op = .has
        · rw [hop] at hs
          simp only [Option.some.injEq] at hs
          subst hs
          exact StepK.fin p _ _ _ rfl (by exact .rRelHas hop)
        · have : some s' = some (setT (sync s s.mutex s.writer s.waiter (s.readers - 1)) t { pc := .rVal i, call := some p }) := by
            rw [← hs]
            cases hop' : p.op <;> first | rfl | exact absurd hop' hop
          cases this
          exact StepK.move p _ _ _ _ _ rfl (by exact .rRelVal hop)
  | rVal i =>
    cases call with
    | none => simp at hs
    | some p =>
      simp only at hs
      cases hn : s.heap[i]? with
      | none => rw [hn] at hs; simp at hs
      | some n =>
        rw [hn] at hs
        simp only [Option.some.injEq] at hs
        subst hs
        exact StepK.fin p _ _ _ rfl (by exact .rVal hn)
  | lFirst =>
    cases call with
    | none => simp at hs
    | some p =>
      simp only [Option.some.injEq] at hs
      subst hs
      exact StepK.move p _ _ _ _ _ rfl (by exact .lFirst)
  | lNode cur =>
    cases call with
    | none => simp at hs
    | some p =>
      cases cur with
      | none =>
        simp only [Option.some.injEq] at hs
        subst hs
        exact StepK.fin p _ _ _ rfl (by exact .lMiss)
      | some c =>
        simp only at hs
        cases hn : s.heap[c]? with
        | none => rw [hn] at hs; simp at hs
        | some n =>
          rw [hn] at hs
          simp only at hs
          by_cases hk : n.key = p.key
          · rw [if_pos (by simpa using hk)] at hs
            by_cases hop : p.op = .has
            · rw [hop] at hs
              simp only [Option.some.injEq] at hs
              subst hs
              exact StepK.fin p _ _ _ rfl (by exact .lHas hn hk hop)
            · have : some s' = some (setT (sync s s.mutex s.writer s.waiter s.readers) t { pc := .rVal c, call := some p }) := by
                rw [← hs]
                cases hop' : p.op <;> first | rfl | exact absurd hop' hop
              cases this
              exact StepK.move p _ _ _ _ _ rfl (by exact .lHit hn hk hop)
          · rw [if_neg (by simpa using hk)] at hs
            simp only [Option.some.injEq] at hs
            subst hs
            exact StepK.move p _ _ _ _ _ rfl (by exact .lNext hn hk)
  | wMutex =>
    cases call with
    | none => simp at hs
    | some p =>
      simp only at hs
      cases hm : s.mutex with
      | some x => rw [hm] at hs; simp at hs
      | none =>
        rw [hm] at hs
        simp only [Option.isSome_none, Bool.false_eq_true, if_false, Option.some.injEq] at hs
        subst hs
        exact StepK.move p _ _ _ _ _ rfl (by exact .wMutex hm)
  | wFind =>
    cases call with
    | none => simp at hs
    | some p =>
      simp only at hs
      have htf : treeFind { s with now := s.now + 1 } p.key = treeFind s p.key := rfl
      rw [htf] at hs
      have habs : ∀ i, treeFind s p.key = some i → absTree s p.key = some (nodeAt s.heap i).val := by
        intro i h; unfold absTree; rw [h]; rfl
      have habsN : treeFind s p.key = none → absTree s p.key = none := by
        intro h; unfold absTree; rw [h]
      cases hop : p.op with
      | get => rw [hop] at hs; cases hs
      | has => rw [hop] at hs; cases hs
      | ins v vi =>
        rw [hop] at hs
        cases hf : treeFind s p.key with
        | some i =>
          rw [hf] at hs
          simp only [Option.some.injEq] at hs
          subst hs
          exact StepK.move p _ _ _ _ _ rfl (by exact .findVal hf (by rw [hop]; rfl))
        | none =>
          rw [hf] at hs
          simp only [Option.some.injEq] at hs
          subst hs
          exact StepK.move p _ _ _ _ _ rfl (by exact .findInsert hf)
      | tryIns v vi =>
        rw [hop] at hs
        cases hf : treeFind s p.key with
        | some i =>
          rw [hf] at hs
          simp only [Option.some.injEq] at hs
          subst hs
          refine StepK.move p _ _ _ _ _ rfl (by
            refine .findDone ?_
            rw [habs i hf, hop]
            have : ∀ x : Nat × Nat, specStep (some x) (.tryIns v vi) = (some x, .exists_ x.1 x.2) :=
              fun ⟨_, _⟩ => rfl
            exact this _)
        | none =>
          rw [hf] at hs
          simp only [Option.some.injEq] at hs
          subst hs
          exact StepK.move p _ _ _ _ _ rfl (by exact .findInsert hf)
      | rm =>
        rw [hop] at hs
        cases hf : treeFind s p.key with
        | some i =>
          rw [hf] at hs
          simp only [if_true, Option.some.injEq] at hs
          subst hs
          exact StepK.move p _ _ _ _ _ rfl (by exact .findRemove hf (by rw [hop]; rfl))
        | none =>
          rw [hf] at hs
          simp only [Option.some.injEq] at hs
          subst hs
          exact StepK.move p _ _ _ _ _ rfl (by exact .findDone (by rw [habsN hf, hop]; rfl))
      | cipInc nvi =>
        rw [hop] at hs
        cases hf : treeFind s p.key with
        | some i =>
          rw [hf] at hs
          simp only [Option.some.injEq] at hs
          subst hs
          refine StepK.move p _ _ _ _ _ rfl (by
            refine .findVal hf ?_
            rw [hop]
            have : ∀ x : Nat × Nat, specStep (some x) (.cipInc nvi) =
                (some (x.1 + 1, nvi), .some (x.1 + 1) nvi) := fun ⟨_, _⟩ => rfl
            exact this _)
        | none =>
          rw [hf] at hs
          simp only [Option.some.injEq] at hs
          subst hs
          exact StepK.move p _ _ _ _ _ rfl (by exact .findDone (by rw [habsN hf, hop]; rfl))
      | cipRm =>
        rw [hop] at hs
        cases hf : treeFind s p.key with
        | some i =>
          rw [hf] at hs
          simp only [if_true, Option.some.injEq] at hs
          subst hs
          exact StepK.move p _ _ _ _ _ rfl (by exact .findRemove hf (by rw [hop]; rfl))
        | none =>
          rw [hf] at hs
          simp only [Option.some.injEq] at hs
          subst hs
          exact StepK.move p _ _ _ _ _ rfl (by exact .findDone (by rw [habsN hf, hop]; rfl))
  | wVal i v res =>
    cases call with
    | none => simp at hs
    | some p =>
      simp only [Option.some.injEq] at hs
      subst hs
      exact .val p i v res rfl rfl
  | wPrepend =>
    cases call with
    | none => simp at hs
    | some p => exact .dead p s' rfl rfl
  | wTreeLink x =>
    cases call with
    | none => simp at hs
    | some p => exact .dead p s' rfl rfl
  | wPrependLocked =>
    cases call with
    | none => simp at hs
    | some p =>
      simp only at hs
      split at hs
      · rename_i v vi hop
        simp only [Option.some.injEq] at hs; subst hs
        exact .prepend p v vi rfl rfl (Or.inl hop)
      · rename_i v vi hop
        simp only [Option.some.injEq] at hs; subst hs
        exact .prepend p v vi rfl rfl (Or.inr hop)
      · cases hs
  | wTreeLinkLocked x =>
    cases call with
    | none => simp at hs
    | some p =>
      simp only [Option.some.injEq] at hs
      subst hs
      exact .treeLink p x rfl rfl
  | wListUnlink i res =>
    cases call with
    | none => simp at hs
    | some p => exact .dead p s' rfl rfl
  | wUnlinkLocked i res =>
    cases call with
    | none => simp at hs
    | some p =>
      simp only [Option.some.injEq] at hs
      subst hs
      exact .unlink p i res rfl rfl
  | lrTry rmv res =>
    cases call with
    | none => simp at hs
    | some p =>
      simp only at hs
      by_cases hb : (!s.writer && !s.waiter && s.readers == 0) = true
      · rw [if_pos hb] at hs
        simp only [Option.some.injEq] at hs
        subst hs
        simp only [Bool.and_eq_true, Bool.not_eq_eq_eq_not, Bool.not_true, beq_iff_eq] at hb
        exact StepK.move p _ _ _ _ _ rfl (by exact .lrTryOk hb.1.1 hb.1.2 hb.2)
      · rw [if_neg hb] at hs
        simp only [Option.some.injEq] at hs
        subst hs
        exact StepK.move p _ _ _ _ _ rfl (by exact .lrTryFail)
  | lrLoop rmv res =>
    cases call with
    | none => simp at hs
    | some p =>
      simp only at hs
      by_cases hb : (!s.writer && s.readers == 0) = true
      · rw [if_pos hb] at hs
        simp only [Option.some.injEq] at hs
        subst hs
        simp only [Bool.and_eq_true, Bool.not_eq_eq_eq_not, Bool.not_true, beq_iff_eq] at hb
        exact StepK.move p _ _ _ _ _ rfl (by exact .lrLoopOk hb.1 hb.2)
      · rw [if_neg hb] at hs
        cases hw : s.waiter with
        | true => rw [hw] at hs; simp at hs
        | false =>
          rw [hw] at hs
          simp only [Bool.not_false, if_true, Option.some.injEq] at hs
          subst hs
          exact StepK.move p _ _ _ _ _ rfl (by exact .lrLoopWait hw)
  | wRestructure rmv res =>
    cases call with
    | none => simp at hs
    | some p =>
      cases rmv with
      | some i =>
        simp only [Option.some.injEq] at hs
        subst hs
        exact .untree p i res rfl rfl
      | none =>
        simp only [Option.some.injEq] at hs
        subst hs
        exact StepK.move p _ _ _ _ _ rfl (by exact .restructNone)
  | wUnlockRoot res =>
    cases call with
    | none => simp at hs
    | some p =>
      simp only [Option.some.injEq] at hs
      subst hs
      exact StepK.move p _ _ _ _ _ rfl (by exact .unlockRoot)
  | wUnlockM res =>
    cases call with
    | none => simp at hs
    | some p =>
      simp only [Option.some.injEq] at hs
      subst hs
      exact StepK.fin p _ _ _ rfl (by exact .unlockM)

end Flurry.Proto.BinU
