import Flurry.Lemmas.BinGNPBase
import Flurry.Lemmas.BinKChain
/-! # Proto/BinGN (port of `Lemmas/BinGSide.lean` + `Lemmas/BinGSplit.lean`): the split of a list bin by an
arbitrary bit (`splitBinB bit`) establishes `SideSpec bit` for both sides

`SideSpec bit heap hp O b X`: the new list `X` of side `b` (chain in the new heap `hp`, which extends the old heap
`heap`) relative to the old chain `O`; the side of a node is `bit` of its key (`Proto/BinG`: the fixed `hiBit`; in
`Proto/BinGN` the split of generation `g` uses `bit = bitAt g`).

`splitBinB bit heap O` re-uses the last run of `O` and prepends a copy of every earlier node to its side's list. We
show: the new heap extends the old one by fresh unlocked list nodes, `NextOK` is preserved (every fresh node points
downwards), and the two heads are the heads of chains that satisfy `SideSpec bit`. -/
namespace Flurry.Proto.BinGNP
open Flurry.Lin
open Flurry.Proto.BinK (nodeAt binAt NextOK IsChain IsSeg chainOf)

variable {bit : Nat → Bool}

structure SideSpec (bit : Nat → Bool) (heap hp : List NodeS) (O : List Nat) (b : Bool) (X : List Nat) : Prop where
  /-- all nodes of the new list are on side `b` -/
  side : ∀ j ∈ X, bit (nodeAt hp j).key = b
  keys : ∀ i j, i ∈ X → j ∈ X → (nodeAt hp i).key = (nodeAt hp j).key → i = j
  /-- a node of the new list is a re-used old node or a fresh one -/
  mem : ∀ j ∈ X, j ∈ O ∨ heap.length ≤ j
  /-- a fresh node has the key and value of an old node that lies before every re-used node of `X` -/
  src : ∀ j ∈ X, heap.length ≤ j → ∃ i ∈ O, (nodeAt heap i).key = (nodeAt hp j).key ∧
    (nodeAt heap i).val = (nodeAt hp j).val ∧ ∀ r ∈ O, r ∈ X → List.Sublist [i, r] O
  /-- every old node of side `b` is re-used or has a copy in `X` -/
  cover : ∀ i ∈ O, bit (nodeAt heap i).key = b → ∃ j ∈ X, (nodeAt hp j).key = (nodeAt heap i).key ∧
    (nodeAt hp j).val = (nodeAt heap i).val ∧ (j = i ∨ heap.length ≤ j)
  /-- the re-used nodes are a suffix of the old chain -/
  suffix : ∀ r ∈ O, r ∈ X → ∀ i ∈ O, List.Sublist [r, i] O → i ∈ X
  /-- the re-used nodes keep their order -/
  order : ∀ i c, i ∈ O → c ∈ O → List.Sublist [i, c] X → List.Sublist [i, c] O

/-! ## list facts -/

theorem mem_takeWhile_imp_g {α : Type} {p : α → Bool} : ∀ {l : List α} {x : α}, x ∈ l.takeWhile p → p x = true
  | [], _, h => by cases h
  | a :: l, x, h => by
    rw [List.takeWhile_cons] at h
    split at h
    · rcases List.mem_cons.1 h with rfl | h
      · assumption
      · exact mem_takeWhile_imp_g h
    · cases h

/-- the elements behind the start of the last `p`-run all satisfy `p` -/
theorem mem_drop_lastRun_g {α : Type} (p : α → Bool) (l : List α) :
    ∀ x ∈ l.drop (l.length - (l.reverse.takeWhile p).length), p x = true := by
  obtain ⟨rest, hrest⟩ := List.takeWhile_prefix (l := l.reverse) p
  have hl : l = rest.reverse ++ (l.reverse.takeWhile p).reverse := by
    have := congrArg List.reverse hrest
    rw [List.reverse_append, List.reverse_reverse] at this
    exact this.symm
  intro x hx
  have hlen : l.length - (l.reverse.takeWhile p).length = rest.reverse.length := by
    have := congrArg List.length hl
    rw [List.length_append, List.length_reverse, List.length_reverse] at this
    rw [List.length_reverse]
    omega
  rw [hlen] at hx
  have hd : l.drop rest.reverse.length = (l.reverse.takeWhile p).reverse := by
    conv => lhs; rw [hl]
    exact List.drop_left
  rw [hd, List.mem_reverse] at hx
  exact mem_takeWhile_imp_g hx

/-- the split bit of the node `i` of `heap` -/
def bitOf (bit : Nat → Bool) (heap : List NodeS) (i : Nat) : Bool := bit (nodeAt heap i).key

theorem lastRunStartB_le (bit : Nat → Bool) (heap : List NodeS) (c : List Nat) : lastRunStartB bit heap c ≤ c.length := by
  unfold lastRunStartB
  dsimp only
  split <;> omega

/-- all nodes of the last run have the same split bit -/
theorem lastRunStartB_bits (bit : Nat → Bool) (heap : List NodeS) (c : List Nat) :
    ∃ b, ∀ i ∈ c.drop (lastRunStartB bit heap c), bitOf bit heap i = b := by
  unfold lastRunStartB
  dsimp only
  split
  · rename_i hnone
    have : c = [] := by simpa using hnone
    subst this
    exact ⟨false, by intro i hi; cases hi⟩
  · rename_i b hb
    refine ⟨b, ?_⟩
    have hlen : ((c.map fun i => bit (heap.getD i dflt).key).reverse.takeWhile (· == b)).length =
        (c.reverse.takeWhile (fun i => bitOf bit heap i == b)).length := by
      rw [← List.map_reverse, List.takeWhile_map, List.length_map]
      rfl
    rw [hlen]
    intro i hi
    have := mem_drop_lastRun_g (fun i => bitOf bit heap i == b) c i hi
    simpa using this

/-! ## the fold of `splitBinB bit` -/

/-- one iteration of the copy loop of `splitBinB bit` -/
def splitStep (bit : Nat → Bool) (acc : List NodeS × Option Nat × Option Nat) (i : Nat) : List NodeS × Option Nat × Option Nat :=
  if bit (acc.1.getD i dflt).key then
    (acc.1 ++ [⟨(acc.1.getD i dflt).key, (acc.1.getD i dflt).val, acc.2.2, none, false, none⟩],
      acc.2.1, some acc.1.length)
  else
    (acc.1 ++ [⟨(acc.1.getD i dflt).key, (acc.1.getD i dflt).val, acc.2.1, none, false, none⟩],
      some acc.1.length, acc.2.2)

/-- the split bit of a run (of its head) -/
def runBitOf (bit : Nat → Bool) (heap : List NodeS) (run : List Nat) : Bool :=
  match run.head? with
  | some i => bit (heap.getD i dflt).key
  | none => false

theorem splitBinB_eq (bit : Nat → Bool) (heap : List NodeS) (c : List Nat) :
    splitBinB bit heap c = (c.take (lastRunStartB bit heap c)).foldl (splitStep bit)
      (heap,
       (if runBitOf bit heap (c.drop (lastRunStartB bit heap c)) then none else (c.drop (lastRunStartB bit heap c)).head?),
       (if runBitOf bit heap (c.drop (lastRunStartB bit heap c)) then (c.drop (lastRunStartB bit heap c)).head? else none)) := rfl

theorem runBitOf_spec {heap : List NodeS} {run : List Nat} {b : Bool} (h : ∀ i ∈ run, bitOf bit heap i = b) :
    ∀ i ∈ run, bitOf bit heap i = runBitOf bit heap run := by
  cases run with
  | nil => intro i hi; cases hi
  | cons a run =>
    intro i hi
    have : runBitOf bit heap (a :: run) = bitOf bit heap a := rfl
    rw [this, h i hi, h a List.mem_cons_self]

theorem isChain_head_lt_g {heap : List NodeS} {j : Nat} {l : List Nat} (h : IsChain heap (some j) l) :
    j < heap.length := by
  cases h with
  | cons hn _ => exact (List.getElem?_eq_some_iff.1 hn).1

theorem isChain_head_g {heap : List NodeS} {a : Option Nat} {l : List Nat} (h : IsChain heap a l) :
    a = l.head? := by
  cases h with
  | nil => rfl
  | cons _ _ => rfl

/-- a segment survives an extension of the heap -/
theorem isSeg_append_heap {heap : List NodeS} {a e : Option Nat} {l : List Nat} (h : IsSeg heap a l e)
    (ext : List NodeS) : IsSeg (heap ++ ext) a l e := by
  refine h.congr ?_
  intro j _ n hn
  have hjl : j < heap.length := (List.getElem?_eq_some_iff.1 hn).1
  exact ⟨n, by rw [List.getElem?_append_left hjl, hn], rfl⟩

/-- appending one node that points downwards (or nowhere) -/
theorem nextOK_append_one {heap : List NodeS} (hok : NextOK heap) (n : NodeS)
    (hn : ∀ x, n.next = some x → x < heap.length) : NextOK (heap ++ [n]) := by
  refine BinK.nextOK_append hok ?_
  intro j hj x hx
  left
  have hj0 : j = 0 := by simpa using hj
  subst hj0
  exact ⟨hn x (by simpa using hx), rfl⟩

/-- the copies on the new list of side `b`, after the nodes `P` have been processed -/
structure CopiesOK (bit : Nat → Bool) (heap hp : List NodeS) (P : List Nat) (b : Bool) (C : List Nat) : Prop where
  copy : ∀ x ∈ C, heap.length ≤ x ∧ x < hp.length
  side : ∀ x ∈ C, bitOf bit hp x = b
  cover : ∀ i ∈ P, bitOf bit heap i = b → ∃ x ∈ C, (nodeAt hp x).key = (nodeAt heap i).key ∧
    (nodeAt hp x).val = (nodeAt heap i).val

theorem CopiesOK.grow {heap hp : List NodeS} {P : List Nat} {b : Bool} {C : List Nat}
    (h : CopiesOK bit heap hp P b C) (ext : List NodeS) : CopiesOK bit heap (hp ++ ext) P b C where
  copy x hx := ⟨(h.copy x hx).1, by rw [List.length_append]; have := (h.copy x hx).2; omega⟩
  side x hx := by
    unfold bitOf
    rw [BinK.nodeAt_append_left ext (h.copy x hx).2]
    exact h.side x hx
  cover i hi hb := by
    obtain ⟨x, hx, h1, h2⟩ := h.cover i hi hb
    refine ⟨x, hx, ?_⟩
    rw [BinK.nodeAt_append_left ext (h.copy x hx).2]
    exact ⟨h1, h2⟩

theorem CopiesOK.addOther {heap hp : List NodeS} {P : List Nat} {b : Bool} {C : List Nat}
    (h : CopiesOK bit heap hp P b C) {i : Nat} (hb : bitOf bit heap i ≠ b) : CopiesOK bit heap hp (P ++ [i]) b C where
  copy := h.copy
  side := h.side
  cover i' hi' hb' := by
    rcases List.mem_append.1 hi' with hi' | hi'
    · exact h.cover i' hi' hb'
    · rw [List.mem_singleton] at hi'
      subst hi'
      exact absurd hb' hb

theorem CopiesOK.addSame {heap hp : List NodeS} {P : List Nat} {b : Bool} {C : List Nat}
    (h : CopiesOK bit heap hp P b C) {i x : Nat} (hx1 : heap.length ≤ x) (hx2 : x < hp.length)
    (hs : bitOf bit hp x = b) (hk : (nodeAt hp x).key = (nodeAt heap i).key)
    (hv : (nodeAt hp x).val = (nodeAt heap i).val) : CopiesOK bit heap hp (P ++ [i]) b (x :: C) where
  copy y hy := by
    rcases List.mem_cons.1 hy with rfl | hy
    · exact ⟨hx1, hx2⟩
    · exact h.copy y hy
  side y hy := by
    rcases List.mem_cons.1 hy with rfl | hy
    · exact hs
    · exact h.side y hy
  cover i' hi' hb' := by
    rcases List.mem_append.1 hi' with hi' | hi'
    · obtain ⟨y, hy, h1⟩ := h.cover i' hi' hb'
      exact ⟨y, List.mem_cons_of_mem _ hy, h1⟩
    · rw [List.mem_singleton] at hi'
      subst hi'
      exact ⟨x, List.mem_cons_self, hk, hv⟩

/-- the grown heap after the nodes `P` have been copied -/
structure HeapOK (heap : List NodeS) (P : List Nat) (hp : List NodeS) : Prop where
  ext : ∃ cs, hp = heap ++ cs ∧ ∀ n ∈ cs, n.lock = none ∧ n.inTree = false ∧ n.owner = none
  src : ∀ x, heap.length ≤ x → x < hp.length → ∃ i ∈ P, (nodeAt hp x).key = (nodeAt heap i).key ∧
    (nodeAt hp x).val = (nodeAt heap i).val
  inj : ∀ x y, heap.length ≤ x → x < hp.length → heap.length ≤ y → y < hp.length →
    (nodeAt hp x).key = (nodeAt hp y).key → x = y
  nextOK : NextOK hp

theorem HeapOK.le {heap : List NodeS} {P : List Nat} {hp : List NodeS} (h : HeapOK heap P hp) :
    heap.length ≤ hp.length := by
  obtain ⟨cs, rfl, -⟩ := h.ext
  rw [List.length_append]; omega

theorem HeapOK.old {heap : List NodeS} {P : List Nat} {hp : List NodeS} (h : HeapOK heap P hp) {x : Nat}
    (hx : x < heap.length) : nodeAt hp x = nodeAt heap x := by
  obtain ⟨cs, rfl, -⟩ := h.ext
  exact BinK.nodeAt_append_left cs hx

theorem HeapOK.step {heap : List NodeS} {P : List Nat} {hp : List NodeS} (h : HeapOK heap P hp) {i : Nat}
    (hfresh : ∀ j ∈ P, (nodeAt heap j).key ≠ (nodeAt heap i).key) (n : NodeS)
    (hk : n.key = (nodeAt heap i).key) (hv : n.val = (nodeAt heap i).val)
    (hattr : n.lock = none ∧ n.inTree = false ∧ n.owner = none)
    (hnx : ∀ j, n.next = some j → j < hp.length) : HeapOK heap (P ++ [i]) (hp ++ [n]) := by
  have hle := h.le
  have hL : (hp ++ [n]).length = hp.length + 1 := by simp
  have hnew : nodeAt (hp ++ [n]) hp.length = n := BinK.nodeAt_append_new hp n
  have hsrc' : ∀ x, heap.length ≤ x → x < hp.length + 1 → ∃ i' ∈ P ++ [i],
      (nodeAt (hp ++ [n]) x).key = (nodeAt heap i').key ∧ (nodeAt (hp ++ [n]) x).val = (nodeAt heap i').val := by
    intro x hx1 hx2
    by_cases hx : x < hp.length
    · obtain ⟨i', hi', h1⟩ := h.src x hx1 hx
      refine ⟨i', List.mem_append_left _ hi', ?_⟩
      rw [BinK.nodeAt_append_left [n] hx]; exact h1
    · have : x = hp.length := by omega
      subst this
      refine ⟨i, by simp, ?_⟩
      rw [hnew]; exact ⟨hk, hv⟩
  have hne : ∀ x, heap.length ≤ x → x < hp.length → (nodeAt hp x).key ≠ n.key := by
    intro x hx1 hx2 he
    obtain ⟨i', hi', h1, -⟩ := h.src x hx1 hx2
    exact hfresh i' hi' (by rw [← h1, he, hk])
  refine ⟨?_, ?_, ?_, ?_⟩
  · obtain ⟨cs, hcs, hat⟩ := h.ext
    refine ⟨cs ++ [n], by rw [hcs, List.append_assoc], ?_⟩
    intro m hm
    rcases List.mem_append.1 hm with hm | hm
    · exact hat m hm
    · rw [List.mem_singleton] at hm
      subst hm
      exact hattr
  · rw [hL]; exact hsrc'
  · rw [hL]
    intro x y hx1 hx2 hy1 hy2 hxy
    by_cases hx : x < hp.length
    · by_cases hy : y < hp.length
      · rw [BinK.nodeAt_append_left [n] hx, BinK.nodeAt_append_left [n] hy] at hxy
        exact h.inj x y hx1 hx hy1 hy hxy
      · have : y = hp.length := by omega
        subst this
        rw [BinK.nodeAt_append_left [n] hx, hnew] at hxy
        exact absurd hxy (hne x hx1 hx)
    · have : x = hp.length := by omega
      subst this
      by_cases hy : y < hp.length
      · rw [BinK.nodeAt_append_left [n] hy, hnew] at hxy
        exact absurd hxy.symm (hne y hy1 hy)
      · omega
  · exact nextOK_append_one h.nextOK n hnx

/-- the invariant of the copy loop: `P` are the nodes processed so far, `lr` / `hr` the re-used parts -/
structure SplitInv (bit : Nat → Bool) (heap : List NodeS) (lr hr : List Nat) (P : List Nat)
    (acc : List NodeS × Option Nat × Option Nat) : Prop where
  heapOK : HeapOK heap P acc.1
  chains : ∃ LC HC, IsChain acc.1 acc.2.1 (LC ++ lr) ∧ IsChain acc.1 acc.2.2 (HC ++ hr) ∧
    CopiesOK bit heap acc.1 P false LC ∧ CopiesOK bit heap acc.1 P true HC

theorem splitInv_step {heap : List NodeS} {lr hr P : List Nat} {acc : List NodeS × Option Nat × Option Nat}
    (h : SplitInv bit heap lr hr P acc) {i : Nat} (hi : i < heap.length)
    (hfresh : ∀ j ∈ P, (nodeAt heap j).key ≠ (nodeAt heap i).key) :
    SplitInv bit heap lr hr (P ++ [i]) (splitStep bit acc i) := by
  obtain ⟨hp, lo, hg⟩ := acc
  obtain ⟨hH, LC, HC, hL, hHc, hLC, hHC⟩ := h
  dsimp only at hH hL hHc hLC hHC
  have hget : hp.getD i dflt = nodeAt heap i := hH.old hi
  have hle := hH.le
  have hnew : ∀ n, nodeAt (hp ++ [n]) hp.length = n := BinK.nodeAt_append_new hp
  have hnewE : ∀ n : NodeS, (hp ++ [n])[hp.length]? = some n := by intro n; simp
  have hlen : ∀ n : NodeS, hp.length < (hp ++ [n]).length := by intro n; simp
  unfold splitStep
  dsimp only
  rw [hget]
  by_cases hb : bit (nodeAt heap i).key = true
  · rw [if_pos hb]
    refine ⟨hH.step hfresh _ rfl rfl ⟨rfl, rfl, rfl⟩ ?_, LC, hp.length :: HC, ?_, ?_, ?_, ?_⟩
    · intro j hj
      dsimp only at hj
      subst hj
      exact isChain_head_lt_g hHc
    · exact isSeg_append_heap hL _
    · exact .cons (hnewE _) (isSeg_append_heap hHc _)
    · refine (hLC.grow _).addOther ?_
      unfold bitOf; rw [hb]; decide
    · refine (hHC.grow _).addSame hle (hlen _) ?_ ?_ ?_
      · unfold bitOf; rw [hnew]; exact hb
      · rw [hnew]
      · rw [hnew]
  · rw [if_neg hb]
    refine ⟨hH.step hfresh _ rfl rfl ⟨rfl, rfl, rfl⟩ ?_, hp.length :: LC, HC, ?_, ?_, ?_, ?_⟩
    · intro j hj
      dsimp only at hj
      subst hj
      exact isChain_head_lt_g hL
    · exact .cons (hnewE _) (isSeg_append_heap hL _)
    · exact isSeg_append_heap hHc _
    · refine (hLC.grow _).addSame hle (hlen _) ?_ ?_ ?_
      · unfold bitOf; rw [hnew]; simpa using hb
      · rw [hnew]
      · rw [hnew]
    · refine (hHC.grow _).addOther ?_
      unfold bitOf; simpa using hb

theorem splitInv_fold {heap : List NodeS} {lr hr : List Nat} :
    ∀ (Q P : List Nat) (acc : List NodeS × Option Nat × Option Nat), SplitInv bit heap lr hr P acc →
      (∀ i ∈ Q, i < heap.length) →
      (P ++ Q).Pairwise (fun a b => (nodeAt heap a).key ≠ (nodeAt heap b).key) →
      SplitInv bit heap lr hr (P ++ Q) (Q.foldl (splitStep bit) acc)
  | [], P, acc, h, _, _ => by
    rw [List.append_nil]; exact h
  | i :: Q, P, acc, h, hlt, hpw => by
    have h1 := splitInv_step h (hlt i List.mem_cons_self)
      (fun j hj => (List.pairwise_append.1 hpw).2.2 j hj i List.mem_cons_self)
    rw [List.append_cons] at hpw ⊢
    exact splitInv_fold Q (P ++ [i]) _ h1 (fun j hj => hlt j (List.mem_cons_of_mem _ hj)) hpw

/-! ## "before" on `pre ++ run` -/

theorem pair_sublist_pre_run {pre run : List Nat} {i r : Nat} (hi : i ∈ pre) (hr : r ∈ run) :
    List.Sublist [i, r] (pre ++ run) := by
  have h1 : List.Sublist [i] pre := List.singleton_sublist.2 hi
  have h2 : List.Sublist [r] run := List.singleton_sublist.2 hr
  exact List.Sublist.append h1 h2

/-- nothing of `pre` lies behind a node of `run` -/
theorem not_sublist_run_pre {pre run : List Nat} (hnd : (pre ++ run).Nodup) {i r : Nat} (hi : i ∈ pre)
    (hr : r ∈ run) : ¬ List.Sublist [r, i] (pre ++ run) := by
  intro h
  obtain ⟨p1, p2, rfl⟩ := List.append_of_mem hi
  have hL : (p1 ++ i :: p2) ++ run = p1 ++ i :: (p2 ++ run) := by simp
  have hrp := (BinK.pair_sublist_iff hnd hL r).1 h
  exact (List.nodup_append.1 hnd).2.2 r (List.mem_append_left _ hrp) r hr rfl

/-- a pair of nodes outside `C` that is a sublist of `C ++ R` is a sublist of `R` -/
theorem pair_sublist_append_right {C R : List Nat} {i c : Nat} (hi : i ∉ C)
    (h : List.Sublist [i, c] (C ++ R)) : List.Sublist [i, c] R := by
  obtain ⟨a1, a2, he, h1, h2⟩ := List.sublist_append_iff.1 h
  cases a1 with
  | nil =>
    simp only [List.nil_append] at he
    subst he
    exact h2
  | cons x a1' =>
    simp only [List.cons_append, List.cons.injEq] at he
    obtain ⟨rfl, -⟩ := he
    exact absurd (h1.subset (by simp)) hi

/-- the facts of the loop invariant give `SideSpec` for the list `C ++ R` (copies, then the re-used
run if it is on this side) -/
theorem sideSpec_of {heap hp : List NodeS} {pre run C R : List Nat} {b rb : Bool}
    (hH : HeapOK heap pre hp) (hC : CopiesOK bit heap hp pre b C)
    (hlt : ∀ i ∈ pre ++ run, i < heap.length)
    (hnd : (pre ++ run).Nodup)
    (hkeys : ∀ i j, i ∈ pre ++ run → j ∈ pre ++ run → (nodeAt heap i).key = (nodeAt heap j).key → i = j)
    (hrun : ∀ i ∈ run, bitOf bit heap i = rb)
    (hR1 : ∀ r ∈ R, r ∈ run ∧ rb = b) (hR2 : rb = b → R = run) (hR3 : R = run ∨ R = []) :
    SideSpec bit heap hp (pre ++ run) b (C ++ R) := by
  have hdisj : ∀ i ∈ pre, ∀ r ∈ run, i ≠ r := (List.nodup_append.1 hnd).2.2
  have hltp : ∀ i ∈ pre, i < heap.length := fun i hi => hlt i (List.mem_append_left _ hi)
  have hltr : ∀ i ∈ run, i < heap.length := fun i hi => hlt i (List.mem_append_right _ hi)
  -- the key of an element of `C` / of `R`
  have hCk : ∀ x ∈ C, ∃ i ∈ pre, (nodeAt hp x).key = (nodeAt heap i).key := by
    intro x hx
    obtain ⟨i, hi, h1, -⟩ := hH.src x (hC.copy x hx).1 (hC.copy x hx).2
    exact ⟨i, hi, h1⟩
  have hRk : ∀ x ∈ R, x ∈ run ∧ nodeAt hp x = nodeAt heap x := by
    intro x hx
    exact ⟨(hR1 x hx).1, hH.old (hltr x (hR1 x hx).1)⟩
  -- an old node is no copy
  have hOC : ∀ r ∈ pre ++ run, r ∉ C := by
    intro r hr hrC
    have := (hC.copy r hrC).1
    have := hlt r hr
    omega
  -- an element of the old chain on the new list is a re-used node
  have hOX : ∀ r ∈ pre ++ run, r ∈ C ++ R → r ∈ run ∧ rb = b := by
    intro r hr hrX
    rcases List.mem_append.1 hrX with hrC | hrR
    · exact absurd hrC (hOC r hr)
    · exact hR1 r hrR
  have hCR : ∀ x ∈ C, ∀ y ∈ R, (nodeAt hp x).key ≠ (nodeAt hp y).key := by
    intro x hx y hy he
    obtain ⟨i, hi, hik⟩ := hCk x hx
    obtain ⟨hyr, hyn⟩ := hRk y hy
    rw [hik, hyn] at he
    have := hkeys i y (List.mem_append_left _ hi) (List.mem_append_right _ hyr) he
    exact hdisj i hi y hyr this
  refine ⟨?_, ?_, ?_, ?_, ?_, ?_, ?_⟩
  · -- side
    intro x hx
    rcases List.mem_append.1 hx with hx | hx
    · exact hC.side x hx
    · obtain ⟨hxr, hxn⟩ := hRk x hx
      rw [hxn]
      exact (hrun x hxr).trans (hR1 x hx).2
  · -- keys
    intro x y hx hy hxy
    rcases List.mem_append.1 hx with hx | hx
    · rcases List.mem_append.1 hy with hy | hy
      · exact hH.inj x y (hC.copy x hx).1 (hC.copy x hx).2 (hC.copy y hy).1 (hC.copy y hy).2 hxy
      · exact absurd hxy (hCR x hx y hy)
    · rcases List.mem_append.1 hy with hy | hy
      · exact absurd hxy.symm (hCR y hy x hx)
      · obtain ⟨hxr, hxn⟩ := hRk x hx
        obtain ⟨hyr, hyn⟩ := hRk y hy
        rw [hxn, hyn] at hxy
        exact hkeys x y (List.mem_append_right _ hxr) (List.mem_append_right _ hyr) hxy
  · -- mem
    intro x hx
    rcases List.mem_append.1 hx with hx | hx
    · exact Or.inr (hC.copy x hx).1
    · exact Or.inl (List.mem_append_right _ (hR1 x hx).1)
  · -- src
    intro x hx hcp
    have hxC : x ∈ C := by
      rcases List.mem_append.1 hx with hx | hx
      · exact hx
      · have := hltr x (hR1 x hx).1
        omega
    obtain ⟨i, hi, h1, h2⟩ := hH.src x hcp (hC.copy x hxC).2
    refine ⟨i, List.mem_append_left _ hi, h1.symm, h2.symm, ?_⟩
    intro r hr hrX
    exact pair_sublist_pre_run hi (hOX r hr hrX).1
  · -- cover
    intro i hi hib
    rcases List.mem_append.1 hi with hip | hir
    · obtain ⟨x, hx, h1, h2⟩ := hC.cover i hip hib
      exact ⟨x, List.mem_append_left _ hx, h1, h2, Or.inr (hC.copy x hx).1⟩
    · have hrb : rb = b := (hrun i hir).symm.trans hib
      refine ⟨i, List.mem_append_right _ (by rw [hR2 hrb]; exact hir), ?_, ?_, Or.inl rfl⟩
      · rw [hH.old (hlt i hi)]
      · rw [hH.old (hlt i hi)]
  · -- suffix
    intro r hr hrX i hi hri
    obtain ⟨hrr, hrb⟩ := hOX r hr hrX
    rcases List.mem_append.1 hi with hip | hir
    · exact absurd hri (not_sublist_run_pre hnd hip hrr)
    · exact List.mem_append_right _ (by rw [hR2 hrb]; exact hir)
  · -- order
    intro i c hi _ hic
    have h1 := pair_sublist_append_right (hOC i hi) hic
    rcases hR3 with rfl | rfl
    · exact h1.trans (List.sublist_append_right pre R)
    · cases h1

/-- **the split**: the new heap extends the old one by fresh unlocked list nodes, `NextOK` holds for
it, and the two heads are the heads of chains that satisfy `SideSpec` for their sides -/
theorem splitBinB_spec (bit : Nat → Bool) {heap : List NodeS} {h : Nat} {O : List Nat} (hok : NextOK heap)
    (hO : IsChain heap (some h) O)
    (hkeys : ∀ i j, i ∈ O → j ∈ O → (nodeAt heap i).key = (nodeAt heap j).key → i = j) :
    ∃ ext L H, (splitBinB bit heap O).1 = heap ++ ext ∧
      (∀ n ∈ ext, n.lock = none ∧ n.inTree = false ∧ n.owner = none) ∧
      NextOK (heap ++ ext) ∧
      IsChain (heap ++ ext) (splitBinB bit heap O).2.1 L ∧ IsChain (heap ++ ext) (splitBinB bit heap O).2.2 H ∧
      SideSpec bit heap (heap ++ ext) O false L ∧ SideSpec bit heap (heap ++ ext) O true H := by
  have hnd : O.Nodup := hO.nodup hok
  have hlt : ∀ i ∈ O, i < heap.length := hO.lt_length
  have hpwk : O.Pairwise (fun a b => (nodeAt heap a).key ≠ (nodeAt heap b).key) :=
    List.Pairwise.imp_of_mem (fun {a b} ha hb hab he => hab (hkeys a b ha hb he)) hnd
  rw [splitBinB_eq]
  generalize hk : lastRunStartB bit heap O = k
  have hsplit : O.take k ++ O.drop k = O := List.take_append_drop k O
  generalize hpre : O.take k = pre at hsplit ⊢
  have hrunb : ∃ b, ∀ i ∈ O.drop k, bitOf bit heap i = b := hk ▸ lastRunStartB_bits bit heap O
  generalize hrune : O.drop k = run at hsplit hrunb ⊢
  obtain ⟨b0, hb0⟩ := hrunb
  have hrun := runBitOf_spec hb0
  generalize runBitOf bit heap run = rb at hrun ⊢
  subst hsplit
  -- the initial state of the loop
  obtain ⟨bh, hs1, hs2⟩ := hO.split
  have hbh := isChain_head_g hs2
  subst hbh
  have hinit : SplitInv bit heap (if rb then [] else run) (if rb then run else []) []
      (heap, (if rb then none else run.head?), (if rb then run.head? else none)) := by
    refine ⟨⟨⟨[], by simp, fun n hn => by cases hn⟩, ?_, ?_, hok⟩, [], [], ?_, ?_, ?_, ?_⟩
    · intro x h1 h2; dsimp only at h2; omega
    · intro x y h1 h2; dsimp only at h2; omega
    · cases rb
      · exact hs2
      · exact .nil _
    · cases rb
      · exact .nil _
      · exact hs2
    · exact ⟨fun x hx => (by cases hx), fun x hx => (by cases hx), fun i hi => (by cases hi)⟩
    · exact ⟨fun x hx => (by cases hx), fun x hx => (by cases hx), fun i hi => (by cases hi)⟩
  have hfin := splitInv_fold pre [] _ hinit (fun i hi => hlt i (List.mem_append_left _ hi))
    (by rw [List.nil_append]; exact (List.pairwise_append.1 hpwk).1)
  rw [List.nil_append] at hfin
  generalize List.foldl (splitStep bit) _ pre = res at hfin ⊢
  obtain ⟨hH, LC, HC, hL, hHc, hLC, hHC⟩ := hfin
  obtain ⟨cs, hcs, hattr⟩ := hH.ext
  rw [hcs] at hL hHc hLC hHC hH
  refine ⟨cs, _, _, hcs, hattr, hH.nextOK, hL, hHc, ?_, ?_⟩
  · refine sideSpec_of hH hLC hlt hnd hkeys hrun ?_ ?_ ?_
    · intro r hr
      cases rb
      · exact ⟨hr, rfl⟩
      · cases hr
    · intro hrb; subst hrb; rfl
    · cases rb
      · exact Or.inl rfl
      · exact Or.inr rfl
  · refine sideSpec_of hH hHC hlt hnd hkeys hrun ?_ ?_ ?_
    · intro r hr
      cases rb
      · cases hr
      · exact ⟨hr, rfl⟩
    · intro hrb; subst hrb; rfl
    · cases rb
      · exact Or.inr rfl
      · exact Or.inl rfl

end Flurry.Proto.BinGNP
