import Flurry.Lemmas.IterFrozen
/-! # Lemmas/IterCases: special cases of `traverse_frozen` and concrete chains

* `traverse_single`     one table without moved bins: the bins in index order (`List.flatMap`), the
                        quiescent iteration order of the sequential model
* `traverse_all_moved`  first table entirely moved: for each `i` the bins `i`, `i + n` of the next
                        table (resolved); `traverse_all_moved_perm`: a permutation of what the
                        traversal of the next table itself yields
* `example`s            depth-3 chains (2, 4, 8 bins) by `decide` -/
namespace Flurry.Seq.Iter
open Flurry

theorem flatMap_range_getD {α β} (t : List α) (d : α) (g : α → List β) :
    (List.range t.length).flatMap (fun i => g (t.getD i d)) = t.flatMap g := by
  induction t with
  | nil => simp
  | cons a t ih =>
    rw [List.length_cons, List.range_succ_eq_map, List.flatMap_cons, List.flatMap_map,
      List.flatMap_cons, ← ih]
    simp

theorem flatMap_congr_mem {α β} (l : List α) (f g : α → List β) (h : ∀ a ∈ l, f a = g a) :
    l.flatMap f = l.flatMap g := by
  induction l with
  | nil => rfl
  | cons a l ih =>
    rw [List.flatMap_cons, List.flatMap_cons, h a (by simp),
      ih (fun x hx => h x (List.mem_cons_of_mem _ hx))]

theorem flatMap_append_perm {α β} (l : List α) (f g : α → List β) :
    (l.flatMap fun x => f x ++ g x).Perm (l.flatMap f ++ l.flatMap g) := by
  induction l with
  | nil => simp
  | cons a l ih =>
    simp only [List.flatMap_cons, List.append_assoc]
    refine List.Perm.append_left _ ?_
    refine ((List.Perm.append_left _ ih).trans ?_)
    rw [← List.append_assoc, ← List.append_assoc]
    exact List.Perm.append_right _ List.perm_append_comm

/-- resolution below the first table only looks at the tail of the chain -/
theorem resolve_cons_succ (t : FTable) (c : Chain) :
    ∀ d j i, resolve (t :: c) d (j + 1) i = resolve c d j i := by
  intro d
  induction d with
  | zero => intro j i; rfl
  | succ d ih =>
    intro j i
    rw [resolve, resolve, tableAt_cons_succ, ih, ih]

/-- more resolution fuel than tables left changes nothing -/
theorem resolve_fuel {c : Chain} (hwf : ChainWF c) :
    ∀ d j i, j < c.length → c.length - j ≤ d → resolve c d j i = resolve c (c.length - j) j i := by
  intro d
  induction d with
  | zero => intro j i hj hd; omega
  | succ d ih =>
    intro j i hj hd
    have e : c.length - j = (c.length - (j + 1)) + 1 := by omega
    rw [e, resolve, resolve]
    cases hbin : (tableAt c j).getD i (.nodes []) with
    | nodes ns => rfl
    | moved =>
      have hj1 := hwf.moved_not_last hj (lt_of_getD_moved hbin) hbin
      simp only []
      rw [ih (j + 1) _ hj1 (by omega), ih (j + 1) _ hj1 (by omega)]

theorem contents_single (t : FTable) : contents [t] = t.flatMap FBin.toList := by
  have h : ∀ i, resolve [t] ([t].length + 1) 0 i = FBin.toList (t.getD i (.nodes [])) := by
    intro i
    have e : tableAt [t] 0 = t := rfl
    rw [show [t].length + 1 = 1 + 1 from rfl, resolve, e]
    cases t.getD i (.nodes []) with
    | nodes ns => rfl
    | moved => simp [resolve, tableAt, FBin.toList]
  unfold contents
  simp only [h]
  exact flatMap_range_getD t _ _

theorem chainWF_single (t : FTable) (hne : t ≠ []) (h : ∀ b ∈ t, b ≠ .moved) : ChainWF [t] := by
  refine ⟨?_, ?_, ?_⟩
  · intro j hj; simp at hj
  · intro j hj
    have : j = 0 := by simpa using hj
    subst this
    exact List.length_pos_iff.mpr hne
  · intro t' ht'
    simp at ht'
    subst ht'
    exact h

/-- **`traverse_single`**: a single table without moved bins is iterated in index order. -/
theorem traverse_single (t : FTable) (h : ∀ b ∈ t, b ≠ .moved) :
    traverse [t] (fuelFor [t]) (initSt [t]) = t.flatMap FBin.toList := by
  cases t with
  | nil => rw [initSt]; exact traverse_done _ _ _ _ _ _ _ _ (by simp)
  | cons b t =>
    rw [traverse_frozen (chainWF_single (b :: t) (by simp) h), contents_single]

/-- the tail of a well-formed chain of at least two tables is well formed -/
theorem ChainWF.tail {t : FTable} {c : Chain} (h : ChainWF (t :: c)) (hc : c ≠ []) :
    ChainWF c := by
  refine ⟨?_, ?_, ?_⟩
  · intro j hj
    have := h.1 (j + 1) (by simpa using hj)
    simpa [tableAt_cons_succ] using this
  · intro j hj
    have := h.2.1 (j + 1) (by simpa using hj)
    simpa [tableAt_cons_succ] using this
  · intro t' ht'
    exact h.2.2 t' (by rw [List.getLast?_cons_of_ne_nil hc]; exact ht')

theorem contents_all_moved (t : FTable) (c : Chain) (hall : ∀ b ∈ t, b = .moved) :
    contents (t :: c) =
      (List.range t.length).flatMap fun i =>
        resolve c (c.length + 1) 0 i ++ resolve c (c.length + 1) 0 (i + t.length) := by
  unfold contents
  have e : tableAt (t :: c) 0 = t := rfl
  rw [e]
  apply flatMap_congr_mem
  intro i hi
  have hi' : i < t.length := by simpa using hi
  have hbin : (tableAt (t :: c) 0).getD i (.nodes []) = .moved := by
    rw [e]
    apply hall
    rw [List.getD_eq_getElem?_getD, List.getElem?_eq_getElem hi']
    simp
  rw [show (t :: c).length + 1 = (c.length + 1) + 1 from rfl, resolve, hbin]
  simp only []
  rw [resolve_cons_succ, resolve_cons_succ, e]

/-- **`traverse_all_moved`**: if every bin of the first table is a forwarding marker, the traversal
visits, for `i = 0, 1, …`, the (resolved) bins `i` and `i + n` of the next table. -/
theorem traverse_all_moved {t : FTable} {c : Chain} (hwf : ChainWF (t :: c))
    (hall : ∀ b ∈ t, b = .moved) :
    traverse (t :: c) (fuelFor (t :: c)) (initSt (t :: c)) =
      (List.range t.length).flatMap fun i =>
        resolve c (c.length + 1) 0 i ++ resolve c (c.length + 1) 0 (i + t.length) := by
  rw [traverse_frozen hwf, contents_all_moved t c hall]

theorem all_moved_tail_ne_nil {t : FTable} {c : Chain} (hwf : ChainWF (t :: c))
    (hall : ∀ b ∈ t, b = .moved) : c ≠ [] := by
  have hpos : 0 < (tableAt (t :: c) 0).length := hwf.len_pos (by simp)
  have e : tableAt (t :: c) 0 = t := rfl
  have hbin : (tableAt (t :: c) 0).getD 0 (.nodes []) = .moved := by
    rw [e] at hpos ⊢
    apply hall
    rw [List.getD_eq_getElem?_getD, List.getElem?_eq_getElem hpos]
    simp
  have := hwf.moved_not_last (by simp) hpos hbin
  intro hc
  subst hc
  simp at this

/-- … which is a permutation of the contents of the next table's chain (the order differs: bins
`i` and `i + n` of the next table are visited together) -/
theorem traverse_all_moved_perm {t : FTable} {c : Chain} (hwf : ChainWF (t :: c))
    (hall : ∀ b ∈ t, b = .moved) :
    (traverse (t :: c) (fuelFor (t :: c)) (initSt (t :: c))).Perm
      (traverse c (fuelFor c) (initSt c)) := by
  have hc := all_moved_tail_ne_nil hwf hall
  have hwf' := hwf.tail hc
  have hlen : (tableAt c 0).length = t.length + t.length := by
    have := hwf.len_succ (j := 0) (by
      cases c with
      | nil => exact absurd rfl hc
      | cons _ _ => simp)
    rw [tableAt_cons_succ] at this
    rw [this, show tableAt (t :: c) 0 = t from rfl]
    omega
  rw [traverse_all_moved hwf hall, traverse_frozen hwf']
  refine (flatMap_append_perm _ _ _).trans ?_
  unfold contents
  rw [hlen, List.range_add, List.flatMap_append, List.flatMap_map]
  simp only [Nat.add_comm t.length]
  exact List.Perm.refl _

/-! ## concrete chains -/

/-- a node recognisable by one number -/
def nd (n : Nat) : Node := ⟨n, n, n, n, n⟩

/-- 2, 4, 8 bins. Top-level bin 0 is moved; below it, bin 0 of the second table is not moved and bin
2 is moved again (to bins 2 and 6 of the third table); top-level bin 1 is not moved, so bins 1 and 3
of the second table (and 1, 3, 5, 7 of the third) are not reachable, whatever they hold. -/
def ex1 : Chain :=
  [ [.moved, .nodes [nd 1, nd 2]],
    [.nodes [nd 3], .moved, .moved, .nodes [nd 99]],
    [.nodes [nd 90], .nodes [nd 91], .nodes [nd 4, nd 5], .nodes [nd 92],
     .nodes [nd 93], .nodes [nd 94], .nodes [nd 6], .nodes [nd 95]] ]

example : traverse ex1 (fuelFor ex1) (initSt ex1) = contents ex1 := by decide
example : traverse ex1 (fuelFor ex1) (initSt ex1) = [nd 3, nd 4, nd 5, nd 6, nd 1, nd 2] := by
  decide

/-- 2, 4, 8 bins, everything moved in the first table, mixed in the second -/
def ex2 : Chain :=
  [ [.moved, .moved],
    [.moved, .nodes [nd 1], .nodes [], .moved],
    [.nodes [nd 2], .nodes [nd 90], .nodes [nd 91], .nodes [nd 3, nd 4],
     .nodes [nd 5], .nodes [nd 92], .nodes [nd 93], .nodes [nd 6]] ]

example : traverse ex2 (fuelFor ex2) (initSt ex2) = contents ex2 := by decide
example : traverse ex2 (fuelFor ex2) (initSt ex2) = [nd 2, nd 5, nd 1, nd 3, nd 4, nd 6] := by
  decide
/-- the traversal of the second table on its own visits the same nodes in index order -/
example : traverse ex2.tail (fuelFor ex2.tail) (initSt ex2.tail) =
    [nd 2, nd 5, nd 1, nd 3, nd 4, nd 6] := by decide

/-- 2, 4, 8 bins, fully forwarded down to the last table -/
def ex3 : Chain :=
  [ [.moved, .moved],
    [.moved, .moved, .moved, .moved],
    [.nodes [nd 0], .nodes [nd 1], .nodes [nd 2], .nodes [nd 3],
     .nodes [nd 4], .nodes [nd 5], .nodes [nd 6], .nodes [nd 7]] ]

example : traverse ex3 (fuelFor ex3) (initSt ex3) = contents ex3 := by decide
example : traverse ex3 (fuelFor ex3) (initSt ex3) =
    [nd 0, nd 4, nd 2, nd 6, nd 1, nd 5, nd 3, nd 7] := by decide
/-- 14 turns suffice here (one per bin of the chain), 13 do not -/
example : traverse ex3 14 (initSt ex3) = contents ex3 := by decide
example : traverse ex3 13 (initSt ex3) ≠ contents ex3 := by decide

/-- the doubling clause of `ChainWF` matters: with a next table four times as long the traverser
walks `i, i + n, i + 2n, i + 3n` while a lookup only resolves `i` and `i + n` (resizes always
double, so such a chain does not arise) -/
def exQuad : Chain := [ [.moved], [.nodes [nd 0], .nodes [nd 1], .nodes [nd 2], .nodes [nd 3]] ]
example : traverse exQuad (fuelFor exQuad) (initSt exQuad) = [nd 0, nd 1, nd 2, nd 3] := by decide
example : contents exQuad = [nd 0, nd 1] := by decide

theorem chainWF_ex1 : ChainWF ex1 := by
  refine ⟨?_, ?_, ?_⟩
  · intro j hj
    match j, hj with
    | 0, _ => decide
    | 1, _ => decide
  · intro j hj
    match j, hj with
    | 0, _ => decide
    | 1, _ => decide
    | 2, _ => decide
  · intro t ht
    have : t = ex1.getD 2 [] := by
      simp [ex1] at ht
      simp [ex1, ← ht]
    subst this
    decide

example : traverse ex1 (fuelFor ex1) (initSt ex1) = contents ex1 := traverse_frozen chainWF_ex1

end Flurry.Seq.Iter
