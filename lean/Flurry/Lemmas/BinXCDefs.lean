import Flurry.Lemmas.BinXCProj
/-! # Proto/BinXC: the invariants (definitions) (C01, C03, C04)

The memory part is `BinX.HInv (mem s) g` (ghost state `BinX.Ghost` as for `Proto/BinX`). The
thread-level invariants are those of `Lemmas/BinXDefs.lean`, extended by the program counters of
`clear` — a `clear` at `cStore` is one more kind of validated lock holder — and by `RInv`: every
retired node is dead. -/
namespace Flurry.Proto.BinXC
open Flurry.Lin
open Flurry.Proto.BinX (Ghost Phase CellId CR)

def PcOp : Pc → KOp → Prop
  | .rTable, op => isReader op = true
  | .rCell _, op => isReader op = true
  | .rNode _, op => isReader op = true
  | .wTable, op => isReader op = false
  | .wCell _, op => isReader op = false
  | .wCas _, op => isReader op = false
  | .wLock _ _, op => isReader op = false
  | .wCheck _ _, op => isReader op = false
  | .wFind _ _ _ _, op => isReader op = false
  | .wStore _ _ _ _ _, op => isReader op = false
  | .wUnlock _ _ _ _, op => isReader op = false
  | .cTable, op => op = .cipRm
  | .cCell _ _, op => op = .cipRm
  | .cWait, op => op = .cipRm
  | .cLock tab idx _, op => op = .cipRm ∧ idx < tabLen tab
  | .cCheck tab idx _, op => op = .cipRm ∧ idx < tabLen tab
  | .cStore tab idx _, op => op = .cipRm ∧ idx < tabLen tab
  | .cUnlock tab idx _ _, op => op = .cipRm ∧ idx < tabLen tab
  | _, _ => True

/-- program counters of the resizing thread -/
def isT : Pc → Prop
  | .tCell | .tCasMoved | .tLock _ | .tCheck _ | .tBuild _ | .tStoreLow _ _ _ | .tStoreHigh _ _
  | .tStoreMoved _ | .tUnlock _ | .tCommit => True
  | _ => False

/-- program counters of a `clear` -/
def isC : Pc → Prop
  | .cTable | .cCell _ _ | .cWait | .cLock _ _ _ | .cCheck _ _ _ | .cStore _ _ _ | .cUnlock _ _ _ _ => True
  | _ => False

/-- program counters of a call in flight -/
def isOp : Pc → Prop
  | .rTable | .rCell _ | .rNode _ | .wTable | .wCell _ | .wCas _ | .wLock _ _ | .wCheck _ _
  | .wFind _ _ _ _ | .wStore _ _ _ _ _ | .wUnlock _ _ _ _
  | .cTable | .cCell _ _ | .cWait | .cLock _ _ _ | .cCheck _ _ _ | .cStore _ _ _ | .cUnlock _ _ _ _ => True
  | _ => False

structure TInv (s : State) : Prop where
  opOK : ∀ (t : Nat) (l : Local) (p : Pending), s.threads[t]? = some l → l.call = some p → PcOp l.pc p.op
  callOK : ∀ (t : Nat) (l : Local), s.threads[t]? = some l → (isOp l.pc ↔ l.call.isSome)
  histTime : ∀ x ∈ s.hist, x.2.inv ≤ x.2.resp ∧ x.2.resp ≤ s.now
  pendTime : ∀ (t : Nat) (l : Local) (p : Pending), s.threads[t]? = some l → l.call = some p → p.inv ≤ s.now
  uniqHP : ∀ x ∈ s.hist, ∀ (t : Nat) (l : Local) (p : Pending), s.threads[t]? = some l → l.call = some p →
    x.2.inv ≠ p.inv
  uniqPP : ∀ (t t' : Nat) (l l' : Local) (p p' : Pending), s.threads[t]? = some l → s.threads[t']? = some l' →
    l.call = some p → l'.call = some p' → p.inv = p'.inv → t = t'
  uniqHH : s.hist.Pairwise (fun x y => x.2.inv ≠ y.2.inv)

/-- the table a program counter works in -/
def tabOf : Pc → Option Tab
  | .rCell tab | .wCell tab | .wCas tab | .wLock tab _ | .wCheck tab _ | .wFind tab _ _ _
  | .wStore tab _ _ _ _ | .wUnlock tab _ _ _
  | .cCell tab _ | .cLock tab _ _ | .cCheck tab _ _ | .cStore tab _ _ | .cUnlock tab _ _ _ => some tab
  | _ => none

/-- how a program counter constrains the phase and the new cells (`m` = the projected memory) -/
def PcPh (m : BinX.State) (g : Ghost) : Pc → Prop
  | .tCell | .tCasMoved | .tLock _ | .tCheck _ | .tBuild _ => g.ph = .pre
  | .tStoreLow _ lo hg => g.ph = .mid lo hg ∧ m.lowCell = .empty ∧ m.highCell = .empty
  | .tStoreHigh _ hg => ∃ lo, g.ph = .mid lo hg ∧ m.lowCell = BinX.cellOfHead lo ∧ m.highCell = .empty
  | .tStoreMoved _ => ∃ lo hg, g.ph = .mid lo hg ∧ m.lowCell = BinX.cellOfHead lo ∧ m.highCell = BinX.cellOfHead hg
  | .tUnlock _ | .tCommit => g.ph = .post
  | pc => tabOf pc = some .new → g.ph = .post

def isMidPc : Pc → Prop
  | .tStoreLow _ _ _ | .tStoreHigh _ _ | .tStoreMoved _ => True
  | _ => False

structure PInv (s : State) (g : Ghost) : Prop where
  pcPh : ∀ (t : Nat) (l : Local), s.threads[t]? = some l → PcPh (mem s) g l.pc
  uniqT : ∀ (t t' : Nat) (l l' : Local), s.threads[t]? = some l → s.threads[t']? = some l' →
    isT l.pc → isT l'.pc → t = t'
  resz : ∀ (t : Nat) (l : Local), s.threads[t]? = some l → isT l.pc → s.resizing = true
  noResz : s.resizing = false → g.ph = .pre
  midHas : ∀ lo hg, g.ph = .mid lo hg → ∃ (t : Nat) (l : Local), s.threads[t]? = some l ∧ isMidPc l.pc

/-- the thread holds the mutex of node `h` -/
def Holds : Pc → Nat → Prop
  | .wCheck _ h', h => h' = h
  | .wFind _ h' _ _, h => h' = h
  | .wStore _ h' _ _ _, h => h' = h
  | .wUnlock _ h' _ _, h => h' = h
  | .cCheck _ _ h', h => h' = h
  | .cStore _ _ h', h => h' = h
  | .cUnlock _ _ h' _, h => h' = h
  | .tCheck h', h => h' = h
  | .tBuild h', h => h' = h
  | .tStoreLow h' _ _, h => h' = h
  | .tStoreHigh h' _, h => h' = h
  | .tStoreMoved h', h => h' = h
  | .tUnlock h', h => h' = h
  | _, _ => False

/-- the cell on which the thread holds a validated lock, and the head it saw -/
def vcell (l : Local) : Option (CellId × Nat) :=
  match l.pc, l.call with
  | .wFind tab h _ _, some p => some (BinX.cellId (cT tab) p.key, h)
  | .wStore tab h _ _ _, some p => some (BinX.cellId (cT tab) p.key, h)
  | .cStore tab idx h, _ => some (cellIdAt tab idx, h)
  | .tBuild h, _ => some (.c0, h)
  | .tStoreLow h _ _, _ => some (.c0, h)
  | .tStoreHigh h _, _ => some (.c0, h)
  | .tStoreMoved h, _ => some (.c0, h)
  | _, _ => none

structure LInv (s : State) : Prop where
  lockHeld : ∀ (t : Nat) (l : Local) (h : Nat), s.threads[t]? = some l → Holds l.pc h →
    h < (mem s).heap.length ∧ (BinX.nodeAt (mem s).heap h).lock = some t
  validated : ∀ (t : Nat) (l : Local) (id : CellId) (h : Nat), s.threads[t]? = some l → vcell l = some (id, h) →
    BinX.getCell (mem s) id = .node h ∧ Holds l.pc h

def WalkOK (m : BinX.State) (p : Pending) : Pc → Prop
  | .wFind tab _ pred cur => BinX.Walk m.heap (BinX.chainH m.heap (BinX.cellOf m (cT tab) p.key)) p.key pred cur
  | .wStore tab _ pred hit hnext => BinX.Walk m.heap (BinX.chainH m.heap (BinX.cellOf m (cT tab) p.key)) p.key pred hit ∧
      ∀ i, hit = some i → (BinX.nodeAt m.heap i).key = p.key ∧ hnext = (BinX.nodeAt m.heap i).next
  | _ => True

structure WInv (s : State) : Prop where
  walk : ∀ (t : Nat) (l : Local) (p : Pending), s.threads[t]? = some l → l.call = some p → WalkOK (mem s) p l.pc

/-- every retired node is dead: on no chain, and not a fresh copy -/
structure RInv (s : State) (g : Ghost) : Prop where
  dead : ∀ i ∈ s.retired, i < s.heap.length ∧ ¬ BinX.Live (mem s) g.cr i

/-- the structural invariant -/
structure Inv (s : State) (g : Ghost) : Prop where
  heap : BinX.HInv (mem s) g
  thr : TInv s
  ph : PInv s g
  lock : LInv s
  walk : WInv s
  ret : RInv s g
  /-- the cells of the new table never hold a forwarding marker -/
  nm : (mem s).lowCell ≠ .moved ∧ (mem s).highCell ≠ .moved

end Flurry.Proto.BinXC
