import Flurry.Proto.TableG
import Flurry.Lemmas.BinGLin
import Flurry.Lemmas.LinLocal
/-! # Proto/TableG: a table that is resized once is linearizable as a MAP (C01)

The construction of `Lemmas/TableK.lean` over `Proto/BinG` lineages. A `tick` of a lineage — its clock
advances while a thread acts in another lineage — IS a transition of `Proto/BinG`: the step of a
thread that is idle in that lineage and starts nothing — no call, no treeify, no resize
(`BinG.step b t none false none false false false = some (tick b)`, `tick_is_step`), and
`TableG.step` lets thread `t` act in lineage `i` only while it is idle in every other lineage. Hence
every lineage of a reachable table is literally `BinG.Reachable` (`TblInv.reach`), and all
lineage-level theorems apply to it unchanged: no re-timing argument is needed.

* `BinG.KeysIn P s`: every key in the lineage's history and in its calls in flight satisfies `P`;
  preserved by `BinG.step` if the invoked key satisfies `P` (`step_keysIn`; the resize and the
  treeify threads have no call in flight and record nothing);
* `TblInv m n S`: `m` lineages, each `BinG.Reachable n`, lineage `j` holding keys `k` with
  `lineageOf m k = j` only;
* `proj_mhist`: the projection of the map history on key `k` is the per-key history of lineage
  `lineageOf m k` (as a list, not only up to order: the other lineages contribute nothing);
* `tableG_key_linearizable_aux`, `tableG_map_linearizable_aux` (with `C01.locality`). -/

namespace Flurry.Proto.BinG
open Flurry.Lin
open Flurry.Proto.BinK (get_set get_set_ne)

/-- every key that occurs in the lineage — in a completed call or in a call in flight — satisfies `P` -/
structure KeysIn (P : Nat → Prop) (s : State) : Prop where
  hist : ∀ x ∈ s.hist, P x.1
  pend : ∀ (t : Nat) (l : Local) (p : Pending), s.threads[t]? = some l → l.call = some p → P p.key

/-- what a transition does to the threads and the history -/
inductive CallFrame (s : State) (t : Nat) (l : Local) (s' : State) : Prop
  | keep (l' : Local) : s'.threads = s.threads.set t l' → s'.hist = s.hist → l'.call = l.call → CallFrame s t l s'
  | idle : l.pc = .idle → CallFrame s t l s'
  | fin (p : Pending) (c : Call) : l.call = some p → s'.threads = s.threads.set t { pc := .idle, call := none } →
      s'.hist = (p.key, c) :: s.hist → CallFrame s t l s'

theorem StepN.frame {s s' : State} {t : Nat} {l : Local} (h : StepN s t l s') : CallFrame s t l s' := by
  cases h with
  | idle h => exact .idle h
  | maint k h => exact .idle h
  | resizeStart h _ => exact .idle h
  | invoke k op lo h => exact .idle h
  | move p pc' hp hc _ => exact .keep _ rfl rfl rfl
  | bmove p pc' tb hc _ => exact .keep _ rfl rfl rfl
  | kmove pc' hp hc _ => exact .keep _ rfl rfl rfl
  | kbmove pc' tb hc _ => exact .keep _ rfl rfl rfl
  | fin p res hp hc _ => exact .fin p _ hc rfl rfl
  | bfin p res tb hc _ => exact .fin p _ hc rfl rfl
  | cas p tab v vi hc _ _ _ =>
    exact .fin p _ hc (FactsL.finish_setCell_threads _ _ _ _ _ _ _) (FactsL.finish_setCell_hist _ _ _ _ _ _ _)
  | store p tab h pred hit hnext hc _ =>
    refine .keep { l with pc := .wUnlock tab h (storeAt (tick s) tab p pred hit hnext).2 false } ?_ ?_ rfl
    · show ((storeAt (tick s) tab p pred hit hnext).1.threads).set t _ = _
      rw [(storeAt_frame (tick s) tab p pred hit hnext).1]; rfl
    · show (storeAt (tick s) tab p pred hit hnext).1.hist = _
      rw [(storeAt_frame (tick s) tab p pred hit hnext).2.1]; rfl
  | tval p tab b i v res hc _ => exact .keep _ rfl rfl rfl
  | prepend p tab b v vi hc _ _ => exact .keep _ rfl rfl rfl
  | treeLink p tab b x hc _ => exact .keep _ rfl rfl rfl
  | unlink p tab b i res small hc _ =>
    refine .keep { l with pc := if small then .tUntreeify tab b res else .tRestructure tab b i res } ?_ ?_ rfl
    · show ((unlinkOf (tick s) b i).threads).set t _ = _
      rw [(unlinkOf_frame (tick s) b i).1]; rfl
    · show (unlinkOf (tick s) b i).hist = _
      rw [(unlinkOf_frame (tick s) b i).2.1]; rfl
  | untree p tab b i res hc _ => exact .keep _ rfl rfl rfl
  | untreeify p tab b res hc _ =>
    refine .keep { l with pc := .tUnlockM tab b res false } ?_ ?_ rfl
    · show ((untreeifyOf (tick s) tab p.key b).threads).set t _ = _
      rw [(untreeifyOf_frame (tick s) tab p.key b).1]; rfl
    · show (untreeifyOf (tick s) tab p.key b).hist = _
      rw [(untreeifyOf_frame (tick s) tab p.key b).2.1]; rfl
  | kbuild tab k h hc _ => exact .keep _ rfl rfl rfl
  | kstore tab k h b hc _ =>
    refine .keep { l with pc := .kUnlock h } ?_ ?_ rfl
    · show ((setCell (tick s) tab k (.tree b)).threads).set t _ = _
      rw [setCell_threads']; rfl
    · show (setCell (tick s) tab k (.tree b)).hist = _
      rw [setCell_hist]; rfl
  | xcasMoved hc _ _ => exact .keep _ rfl rfl rfl
  | xbuild h hc _ => exact .keep _ rfl rfl rfl
  | ybuild b small small2 hc _ =>
    refine .keep { l with pc := (.xStoreLow (.inr b) (ysplitOf (tick s) b small small2).2.1
      (ysplitOf (tick s) b small small2).2.2 : Pc) } ?_ ?_ rfl
    · show ((ysplitOf (tick s) b small small2).1.threads).set t _ = _
      rw [(ysplitOf_frame (tick s) b small small2).1]; rfl
    · show (ysplitOf (tick s) b small small2).1.hist = _
      rw [(ysplitOf_frame (tick s) b small small2).2.1]; rfl
  | xstoreLow unl lo hi hc _ => exact .keep _ rfl rfl rfl
  | xstoreHigh unl hi hc _ => exact .keep _ rfl rfl rfl
  | xstoreMoved unl hc _ => exact .keep _ rfl rfl rfl
  | xcommit hc _ => exact .keep _ rfl rfl rfl

theorem KeysIn.of_frame {P : Nat → Prop} {s s' : State} (K : KeysIn P s)
    (hh : ∀ x ∈ s'.hist, x ∈ s.hist ∨ P x.1)
    (hp : ∀ (t : Nat) (l : Local) (p : Pending), s'.threads[t]? = some l → l.call = some p →
      (∃ l0, s.threads[t]? = some l0 ∧ l0.call = some p) ∨ P p.key) : KeysIn P s' := by
  refine ⟨?_, ?_⟩
  · intro x hx
    rcases hh x hx with h | h
    · exact K.hist x h
    · exact h
  · intro t l p hl hc
    rcases hp t l p hl hc with ⟨l0, h0, hc0⟩ | h
    · exact K.pend t l0 p h0 hc0
    · exact h

/-- the step of an idle thread, spelled out: nothing is recorded; the thread keeps its (empty) call
or takes the call it was invoked with -/
theorem step_idle {s s' : State} {t : Nat} {l : Local} {inv : Option (Nat × KOp)} {lo : Bool}
    {mt : Option Nat} {rz sm sm2 : Bool}
    (hl : s.threads[t]? = some l) (hpc : l.pc = .idle) (hs : step s t inv lo mt rz sm sm2 = some s') :
    s'.hist = s.hist ∧ ∃ l', s'.threads = s.threads.set t l' ∧
      (l'.call = l.call ∨ ∃ k op τ, inv = some (k, op) ∧ l'.call = some ⟨k, op, τ⟩) := by
  obtain ⟨pc, call⟩ := l
  simp only at hpc
  subst hpc
  have hself : s.threads = s.threads.set t ⟨.idle, call⟩ := by
    obtain ⟨ht, e⟩ := List.getElem?_eq_some_iff.1 hl
    rw [← e, List.set_getElem_self]
  unfold step stepG at hs
  simp only [hl] at hs
  cases rz with
  | true =>
    simp only [if_true] at hs
    cases hrs : s.resizing with
    | true =>
      simp only [hrs, if_true, Option.some.injEq] at hs
      subst hs
      exact ⟨rfl, ⟨.idle, call⟩, hself, Or.inl rfl⟩
    | false =>
      simp only [hrs, Bool.false_eq_true, if_false, Option.some.injEq] at hs
      subst hs
      exact ⟨rfl, _, rfl, Or.inl rfl⟩
  | false =>
    simp only [Bool.false_eq_true, if_false] at hs
    cases mt with
    | some k =>
      simp only [Option.some.injEq] at hs
      subst hs
      exact ⟨rfl, _, rfl, Or.inl rfl⟩
    | none =>
      simp only at hs
      cases inv with
      | none =>
        simp only [Option.some.injEq] at hs
        subst hs
        exact ⟨rfl, ⟨.idle, call⟩, hself, Or.inl rfl⟩
      | some ko =>
        obtain ⟨k, op⟩ := ko
        simp only [Option.some.injEq] at hs
        subst hs
        exact ⟨rfl, _, rfl, Or.inr ⟨k, op, _, rfl, rfl⟩⟩

/-- **keys stay in their class**: a step preserves `KeysIn P` if the key it may invoke satisfies `P` -/
theorem step_keysIn {P : Nat → Prop} {s s' : State} {t : Nat} {inv : Option (Nat × KOp)} {lo : Bool}
    {mt : Option Nat} {rz sm sm2 : Bool}
    (K : KeysIn P s) (hinv : ∀ k op, inv = some (k, op) → P k)
    (hs : step s t inv lo mt rz sm sm2 = some s') : KeysIn P s' := by
  cases hl : s.threads[t]? with
  | none =>
    unfold step stepG at hs
    simp only [hl] at hs
    cases hs
  | some l =>
    have keepCase : ∀ l' : Local, s'.threads = s.threads.set t l' → s'.hist = s.hist →
        (l'.call = l.call ∨ ∃ k op τ, inv = some (k, op) ∧ l'.call = some ⟨k, op, τ⟩) → KeysIn P s' := by
      intro l' hthr hhist hcall
      refine K.of_frame (fun x hx => Or.inl (hhist ▸ hx)) ?_
      intro t1 l1 p1 h1 hc1
      rw [hthr] at h1
      rcases get_set h1 with ⟨rfl, rfl⟩ | ⟨_, h1⟩
      · rcases hcall with hc | ⟨k, op, τ, hi, hc⟩
        · exact Or.inl ⟨l, hl, hc ▸ hc1⟩
        · rw [hc] at hc1
          cases hc1
          exact Or.inr (hinv k op hi)
      · exact Or.inl ⟨l1, h1, hc1⟩
    by_cases hpc : l.pc = .idle
    · obtain ⟨hh, l', hthr, hcall⟩ := step_idle hl hpc hs
      exact keepCase l' hthr hh hcall
    · cases (step_stepN hl hs).frame with
      | keep l' hthr hhist hcall => exact keepCase l' hthr hhist (Or.inl hcall)
      | idle h => exact absurd h hpc
      | fin p c hc hthr hhist =>
        refine K.of_frame ?_ ?_
        · intro x hx
          rw [hhist] at hx
          rcases List.mem_cons.1 hx with rfl | hx
          · exact Or.inr (K.pend t l p hl hc)
          · exact Or.inl hx
        · intro t1 l1 p1 h1 hc1
          rw [hthr] at h1
          rcases get_set h1 with ⟨rfl, rfl⟩ | ⟨_, h1⟩
          · cases hc1
          · exact Or.inl ⟨l1, h1, hc1⟩

/-- a step of thread `t` touches the local state of thread `t` only -/
theorem step_threads {s s' : State} {t : Nat} {inv : Option (Nat × KOp)} {lo : Bool}
    {mt : Option Nat} {rz sm sm2 : Bool}
    (hs : step s t inv lo mt rz sm sm2 = some s') : ∃ l', s'.threads = s.threads.set t l' := by
  cases hl : s.threads[t]? with
  | none =>
    unfold step stepG at hs
    simp only [hl] at hs
    cases hs
  | some l =>
    by_cases hpc : l.pc = .idle
    · obtain ⟨_, l', hthr, _⟩ := step_idle hl hpc hs
      exact ⟨l', hthr⟩
    · cases (step_stepN hl hs).frame with
      | keep l' hthr _ _ => exact ⟨l', hthr⟩
      | idle h => exact absurd h hpc
      | fin p c _ hthr _ => exact ⟨_, hthr⟩

theorem init_keysIn (P : Nat → Prop) (n : Nat) : KeysIn P (init n) := by
  refine ⟨?_, ?_⟩
  · intro x hx
    simp [init] at hx
  · intro t l p hl hc
    rw [init_threads hl] at hc
    cases hc

end Flurry.Proto.BinG

namespace Flurry.Proto.TableG
open Flurry.Lin Flurry.LinMap
open Flurry.Proto.BinK (get_set get_set_ne)

/-- lineage and side of a key: bit 0 is `BinG.hiBit`, the bits above it select the lineage -/
theorem lineage_and_side_aux (m k : Nat) :
    lineageOf m k = (k / 2) % m ∧ BinG.hiBit k = (k % 2 == 1) ∧
    lineageOf m k + (if BinG.hiBit k then m else 0) = (k / 2) % m + m * (k % 2) := by
  refine ⟨rfl, rfl, ?_⟩
  unfold BinG.hiBit lineageOf
  rcases Nat.mod_two_eq_zero_or_one k with h | h <;> simp [h]

/-- **a tick is a transition of the lineage**: the step of a thread that is idle there and starts
nothing (no call, no treeify, no resize) -/
theorem tick_is_step {b : BinG.State} {t : Nat} (h : idleIn b t = true) :
    BinG.step b t none false none false false false = some (tick b) := by
  unfold idleIn at h
  split at h
  · rename_i l hl
    obtain ⟨pc, call⟩ := l
    simp only [beq_iff_eq] at h
    subst h
    unfold BinG.step BinG.stepG
    simp only [hl]
    rfl
  · cases h

theorem tick_keysIn {P : Nat → Prop} {b : BinG.State} (K : BinG.KeysIn P b) : BinG.KeysIn P (tick b) :=
  ⟨K.hist, K.pend⟩

/-- the invariant of the table -/
structure TblInv (m n : Nat) (S : State) : Prop where
  len : S.bins.length = m
  reach : ∀ (j : Nat) (b : BinG.State), S.bins[j]? = some b → BinG.Reachable n b
  keys : ∀ (j : Nat) (b : BinG.State), S.bins[j]? = some b → BinG.KeysIn (fun k => lineageOf m k = j) b

theorem init_tblInv (m n : Nat) : TblInv m n (init m n) := by
  have hb : ∀ (j : Nat) (b : BinG.State), (init m n).bins[j]? = some b → b = BinG.init n := by
    intro j b h
    have hm : b ∈ List.replicate m (BinG.init n) := List.mem_iff_getElem?.mpr ⟨j, h⟩
    exact (List.mem_replicate.1 hm).2
  refine ⟨by simp [init], ?_, ?_⟩
  · intro j b h
    rw [hb j b h]
    exact BinG.Reachable.init
  · intro j b h
    rw [hb j b h]
    exact BinG.init_keysIn _ n

/-- `step`, spelled out -/
theorem step_eq_some {S S' : State} {i t : Nat} {inv : Option (Nat × KOp)} {lo : Bool} {mt : Option Nat}
    {rz sm sm2 : Bool} (hs : step S i t inv lo mt rz sm sm2 = some S') :
    ∃ b b', S.bins[i]? = some b ∧
      ((List.range S.bins.length).all fun j => j == i || idleIn (S.bins.getD j (BinG.init 0)) t) = true ∧
      (∀ k op, inv = some (k, op) → lineageOf S.bins.length k = i) ∧
      (∀ k, mt = some k → lineageOf S.bins.length k = i) ∧
      BinG.step b t inv lo mt rz sm sm2 = some b' ∧ S' = { bins := (S.bins.map tick).set i b' } := by
  unfold step at hs
  simp only at hs
  cases hb : S.bins[i]? with
  | none => rw [hb] at hs; cases hs
  | some b =>
    rw [hb] at hs
    simp only at hs
    cases h1 : ((List.range S.bins.length).all fun j => j == i || idleIn (S.bins.getD j (BinG.init 0)) t) with
    | false => rw [h1] at hs; simp at hs
    | true =>
      rw [h1] at hs
      simp only [Bool.not_true, Bool.false_eq_true, if_false] at hs
      cases h2 : inLineage S.bins.length i (inv.map (·.1)) with
      | false => rw [h2] at hs; simp at hs
      | true =>
        rw [h2] at hs
        simp only [Bool.not_true, Bool.false_eq_true, if_false] at hs
        cases h3 : inLineage S.bins.length i mt with
        | false => rw [h3] at hs; simp at hs
        | true =>
          rw [h3] at hs
          simp only [Bool.not_true, Bool.false_eq_true, if_false] at hs
          cases h4 : BinG.step b t inv lo mt rz sm sm2 with
          | none => rw [h4] at hs; cases hs
          | some b' =>
            rw [h4] at hs
            simp only [Option.some.injEq] at hs
            refine ⟨b, b', rfl, rfl, ?_, ?_, h4, hs.symm⟩
            · intro k op hi
              subst hi
              simpa [inLineage] using h2
            · intro k hk
              subst hk
              simpa [inLineage] using h3

/-- the lineages after a step: lineage `i` made its transition, every other lineage ticked and
thread `t` is idle there -/
theorem step_bins {S : State} {i t : Nat} {b b' : BinG.State} (hb : S.bins[i]? = some b)
    (hidle : ((List.range S.bins.length).all fun j => j == i || idleIn (S.bins.getD j (BinG.init 0)) t) = true) :
    ∀ (j : Nat) (c : BinG.State), ((S.bins.map tick).set i b')[j]? = some c →
      (j = i ∧ c = b') ∨ (j ≠ i ∧ ∃ b0, S.bins[j]? = some b0 ∧ c = tick b0 ∧ idleIn b0 t = true) := by
  intro j c hc
  rcases get_set hc with ⟨rfl, rfl⟩ | ⟨hne, hc⟩
  · exact Or.inl ⟨rfl, rfl⟩
  · rw [List.getElem?_map] at hc
    cases hj : S.bins[j]? with
    | none => rw [hj] at hc; cases hc
    | some b0 =>
      rw [hj] at hc
      simp only [Option.map_some, Option.some.injEq] at hc
      have hjl : j < S.bins.length := (List.getElem?_eq_some_iff.1 hj).1
      have := List.all_eq_true.1 hidle j (List.mem_range.2 hjl)
      have hd : S.bins.getD j (BinG.init 0) = b0 := by
        rw [List.getD_eq_getElem?_getD, hj]; rfl
      rw [hd] at this
      simp only [Bool.or_eq_true, beq_iff_eq] at this
      rcases this with h | h
      · exact absurd h hne
      · exact Or.inr ⟨hne, b0, rfl, hc.symm, h⟩

theorem step_tblInv {m n : Nat} {S S' : State} {i t : Nat} {inv : Option (Nat × KOp)} {lo : Bool}
    {mt : Option Nat} {rz sm sm2 : Bool}
    (I : TblInv m n S) (hs : step S i t inv lo mt rz sm sm2 = some S') : TblInv m n S' := by
  obtain ⟨b, b', hb, hidle, hkey, _, hb', rfl⟩ := step_eq_some hs
  have hget := step_bins hb hidle (b' := b')
  refine ⟨?_, ?_, ?_⟩
  · show ((S.bins.map tick).set i b').length = m
    rw [List.length_set, List.length_map]; exact I.len
  · intro j c hc
    rcases hget j c hc with ⟨rfl, rfl⟩ | ⟨_, b0, hj, rfl, hid⟩
    · exact BinG.Reachable.step t inv lo mt rz sm sm2 (I.reach j b hb) hb'
    · exact BinG.Reachable.step t none false none false false false (I.reach j b0 hj) (tick_is_step hid)
  · intro j c hc
    rcases hget j c hc with ⟨rfl, rfl⟩ | ⟨_, b0, hj, rfl, hid⟩
    · refine BinG.step_keysIn (I.keys j b hb) ?_ hb'
      intro k op hinv
      rw [← I.len]; exact hkey k op hinv
    · exact tick_keysIn (I.keys j b0 hj)

theorem reachable_tblInv {m n : Nat} {S : State} (hr : Reachable m n S) : TblInv m n S := by
  induction hr with
  | init => exact init_tblInv m n
  | step i t inv lo mt rz sm sm2 _ hs ih => exact step_tblInv ih hs

/-! ## a thread is active in at most one lineage -/

/-- of two different lineages, thread `t` is idle in one -/
def OneBin (S : State) : Prop :=
  ∀ (t i j : Nat) (bi bj : BinG.State) (li lj : BinG.Local), i ≠ j → S.bins[i]? = some bi → S.bins[j]? = some bj →
    bi.threads[t]? = some li → bj.threads[t]? = some lj → li.pc = .idle ∨ lj.pc = .idle

theorem idleIn_pc {b : BinG.State} {t : Nat} {l : BinG.Local} (h : idleIn b t = true) (hl : b.threads[t]? = some l) :
    l.pc = .idle := by
  unfold idleIn at h
  rw [hl] at h
  simpa using h

theorem init_oneBin (m n : Nat) : OneBin (init m n) := by
  intro t i j bi bj li lj _ hi _ hli _
  have hm : bi ∈ List.replicate m (BinG.init n) := List.mem_iff_getElem?.mpr ⟨i, hi⟩
  have hbi : bi = BinG.init n := (List.mem_replicate.1 hm).2
  subst hbi
  rw [BinG.init_threads hli]
  exact Or.inl rfl

theorem step_oneBin {S S' : State} {i t : Nat} {inv : Option (Nat × KOp)} {lo : Bool} {mt : Option Nat}
    {rz sm sm2 : Bool} (O : OneBin S) (hs : step S i t inv lo mt rz sm sm2 = some S') : OneBin S' := by
  obtain ⟨b, b', hb, hidle, _, _, hb', rfl⟩ := step_eq_some hs
  have hget := step_bins hb hidle (b' := b')
  obtain ⟨l', hthr⟩ := BinG.step_threads hb'
  -- the acting lineage against a ticked lineage
  have key : ∀ (t1 j : Nat) (b0 : BinG.State) (l1 l2 : BinG.Local), j ≠ i → S.bins[j]? = some b0 →
      idleIn b0 t = true → b'.threads[t1]? = some l1 → b0.threads[t1]? = some l2 → l1.pc = .idle ∨ l2.pc = .idle := by
    intro t1 j b0 l1 l2 hne hj hid h1 h2
    by_cases ht : t1 = t
    · subst ht
      exact Or.inr (idleIn_pc hid h2)
    · rw [hthr, get_set_ne ht] at h1
      exact O t1 i j b b0 l1 l2 (fun e => hne e.symm) hb hj h1 h2
  intro t1 j1 j2 c1 c2 l1 l2 hne h1 h2 hl1 hl2
  rcases hget j1 c1 h1 with ⟨rfl, rfl⟩ | ⟨hn1, a1, ha1, rfl, hid1⟩ <;>
    rcases hget j2 c2 h2 with ⟨rfl, rfl⟩ | ⟨hn2, a2, ha2, rfl, hid2⟩
  · exact absurd rfl hne
  · exact key t1 j2 a2 l1 l2 hn2 ha2 hid2 hl1 hl2
  · exact (key t1 j1 a1 l2 l1 hn1 ha1 hid1 hl2 hl1).symm
  · exact O t1 j1 j2 a1 a2 l1 l2 hne ha1 ha2 hl1 hl2

theorem reachable_oneBin {m n : Nat} {S : State} (hr : Reachable m n S) : OneBin S := by
  induction hr with
  | init => exact init_oneBin m n
  | step i t inv lo mt rz sm sm2 _ hs ih => exact step_oneBin ih hs

/-! ## the history of the map, key by key -/

theorem proj_binCalls (b : BinG.State) (k : Nat) : proj (binCalls b) k = BinG.callsOn b k := by
  unfold proj binCalls BinG.callsOn
  rw [List.filter_map, List.map_map, List.filter_reverse]
  rfl

theorem proj_flatten (L : List MHistory) (k : Nat) : proj L.flatten k = (L.map (proj · k)).flatten := by
  unfold proj
  rw [List.filter_flatten, List.map_flatten, List.map_map]
  rfl

theorem proj_mhist_flat (S : State) (k : Nat) :
    proj (mhist S) k = (S.bins.map (fun b => BinG.callsOn b k)).flatten := by
  unfold mhist
  rw [proj_flatten, List.map_map]
  congr 1
  apply List.map_congr_left
  intro b _
  exact proj_binCalls b k

/-- a list of lists all of which but the `i`-th are empty -/
theorem flatten_single {α β : Type} (f : α → List β) : ∀ (L : List α) (i : Nat) (a : α), L[i]? = some a →
    (∀ (j : Nat) (c : α), L[j]? = some c → j ≠ i → f c = []) → (L.map f).flatten = f a
  | [], i, a, h, _ => by simp at h
  | x :: L, 0, a, h, hz => by
    simp only [List.getElem?_cons_zero, Option.some.injEq] at h
    subst h
    have : (L.map f).flatten = [] := by
      rw [List.flatten_eq_nil_iff]
      intro l hl
      obtain ⟨c, hc, rfl⟩ := List.mem_map.1 hl
      obtain ⟨j, hj⟩ := List.mem_iff_getElem?.1 hc
      exact hz (j + 1) c (by simpa using hj) (by omega)
    rw [List.map_cons, List.flatten_cons, this, List.append_nil]
  | x :: L, i + 1, a, h, hz => by
    have hx : f x = [] := hz 0 x (by simp) (by omega)
    rw [List.map_cons, List.flatten_cons, hx, List.nil_append]
    refine flatten_single f L i a (by simpa using h) ?_
    intro j c hj hne
    exact hz (j + 1) c (by simpa using hj) (by omega)

/-- calls on a key of another lineage never appear in a lineage's history -/
theorem callsOn_other_bin {m n : Nat} {S : State} (I : TblInv m n S) {j : Nat} {b : BinG.State}
    (hb : S.bins[j]? = some b) {k : Nat} (hk : lineageOf m k ≠ j) : BinG.callsOn b k = [] := by
  rw [List.eq_nil_iff_forall_not_mem]
  intro c hc
  rw [BinG.mem_callsOn] at hc
  exact hk ((I.keys j b hb).hist _ hc)

/-- the projection of the map history on key `k` is the per-key history of the lineage of `k` -/
theorem proj_mhist {m n : Nat} {S : State} (I : TblInv m n S) {k : Nat} {b : BinG.State}
    (hb : S.bins[lineageOf m k]? = some b) : proj (mhist S) k = BinG.callsOn b k := by
  rw [proj_mhist_flat]
  refine flatten_single (fun b => BinG.callsOn b k) S.bins (lineageOf m k) b hb ?_
  intro j c hc hne
  exact callsOn_other_bin I hc (fun h => hne h.symm)

theorem bin_of_key {m n : Nat} (hm : 0 < m) {S : State} (I : TblInv m n S) (k : Nat) :
    ∃ b, S.bins[lineageOf m k]? = some b ∧ S.bins.getD (lineageOf S.bins.length k) (BinG.init 0) = b := by
  have hlt : lineageOf m k < S.bins.length := by rw [I.len]; exact Nat.mod_lt _ hm
  refine ⟨S.bins[lineageOf m k], List.getElem?_eq_getElem hlt, ?_⟩
  rw [I.len, List.getD_eq_getElem?_getD, List.getElem?_eq_getElem hlt]
  rfl

theorem tableG_key_linearizable_aux {m n : Nat} (hm : 0 < m) {S : State} (hr : Reachable m n S)
    (hq : quiescent S) (k : Nat) : Linearizable (proj (mhist S) k) none (absMap S k) := by
  have I := reachable_tblInv hr
  obtain ⟨b, hb, hd⟩ := bin_of_key hm I k
  rw [proj_mhist I hb]
  unfold absMap
  rw [hd]
  exact BinG.binG_linearizable_quiescent_aux (I.reach _ b hb) (hq b (List.mem_of_getElem? hb)) k

/-- no call of the map history responds before it is invoked -/
theorem mhist_wf {m n : Nat} {S : State} (hr : Reachable m n S) : ∀ c ∈ mhist S, c.call.inv ≤ c.call.resp := by
  have I := reachable_tblInv hr
  intro c hc
  unfold mhist at hc
  rw [List.mem_flatten] at hc
  obtain ⟨l, hl, hcl⟩ := hc
  obtain ⟨b, hb, rfl⟩ := List.mem_map.1 hl
  unfold binCalls at hcl
  obtain ⟨e, he, rfl⟩ := List.mem_map.1 hcl
  rw [List.mem_reverse] at he
  obtain ⟨j, hj⟩ := List.mem_iff_getElem?.1 hb
  exact ((BinG.reachable_inv (I.reach j b hj)).thr.histTime e he).1

theorem tableG_map_linearizable_aux {m n : Nat} (hm : 0 < m) {S : State} (hr : Reachable m n S)
    (hq : quiescent S) : MapLinearizable (mhist S) (fun _ => none) (absMap S) :=
  Flurry.LinMap.map_linearizable_of_proj (mhist_wf hr) (fun k => tableG_key_linearizable_aux hm hr hq k)

end Flurry.Proto.TableG
