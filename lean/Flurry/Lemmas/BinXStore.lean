import Flurry.Lemmas.BinXSurgery
/-! # Proto/BinX: the store of a validated writer (C01)

`store_effect`: thanks to the validated lock the positions a writer remembered during its walk
(`Walk`) are the current ones, so storing through them is one of the list surgeries on the chain of
its (active) cell: it is the specification step on its own key and leaves every other key alone. -/
namespace Flurry.Proto.BinX
open Flurry.Lin

theorem getCell_setNode (s : State) (i : Nat) (f : NodeS → NodeS) (id : CellId) :
    getCell (setNode s i f) id = getCell s id := by cases id <;> rfl

theorem Walk.hit_some {heap : List NodeS} {C : List Nat} {key : Nat} {pred : Option Nat} {i : Nat}
    (w : Walk heap C key pred (some i)) :
    ∃ l1 l2, C = l1 ++ i :: l2 ∧ pred = l1.getLast? ∧ ∀ j ∈ l1, (nodeAt heap j).key ≠ key := by
  obtain ⟨l1, l2, hch, hcur, hpred, hkeys⟩ := w
  cases l2 with
  | nil => cases hcur
  | cons c l2' =>
    simp only [List.head?_cons, Option.some.injEq] at hcur
    subst hcur
    exact ⟨l1, l2', hch, hpred, hkeys⟩

theorem Walk.hit_none {heap : List NodeS} {C : List Nat} {key : Nat} {pred : Option Nat}
    (w : Walk heap C key pred none) :
    pred = C.getLast? ∧ ∀ j ∈ C, (nodeAt heap j).key ≠ key := by
  obtain ⟨l1, l2, hch, hcur, hpred, hkeys⟩ := w
  cases l2 with
  | nil =>
    rw [List.append_nil] at hch
    subst hch
    exact ⟨hpred, hkeys⟩
  | cons c l2' => cases hcur

theorem Walk.cur_mem {heap : List NodeS} {C : List Nat} {key : Nat} {pred : Option Nat} {i : Nat}
    (w : Walk heap C key pred (some i)) : i ∈ C := by
  obtain ⟨l1, l2, hch, -, -⟩ := w.hit_some
  rw [hch]; simp

/-- what the store of a writer guarantees -/
def StoreOK (s : State) (g : Ghost) (id : CellId) (p : Pending) (r : State × KRes) : Prop :=
  Effect s r.1 g id ∧ r.1.threads = s.threads ∧ r.1.hist = s.hist ∧ r.1.now = s.now ∧
  r.1.resizing = s.resizing ∧
  specStep (absOf s p.key) p.op = (absOf r.1 p.key, r.2) ∧ ∀ k, k ≠ p.key → absOf r.1 k = absOf s k

theorem absOf_active {s : State} {g : Ghost} {id : CellId} (H : HInv s g) (act : Active g id) {k : Nat}
    (hk : keyOn id k) : absOf s k = absIn s.heap (chId s id) k := by
  have := H.LC_eq k
  rw [absOf_eq]; unfold LC at this; rw [this, H.liveId_of_active act hk]

theorem storeOK_swap {s : State} {g : Ghost} {id : CellId} (H : HInv s g) (act : Active g id) (p : Pending)
    (hk : keyOn id p.key) {i : Nat} {v : Nat × Nat} {res : KRes}
    (hi : i ∈ chId s id) (hik : (nodeAt s.heap i).key = p.key)
    (hspec : specStep (some (nodeAt s.heap i).val) p.op = (some v, res)) :
    StoreOK s g id p (setNode s i (fun n => { n with val := v }), res) := by
  obtain ⟨he, hab⟩ := swap_effect (s' := setNode s i (fun n => { n with val := v })) H act hi rfl
    (fun id' => getCell_setNode s i _ id') rfl
  refine ⟨he, rfl, rfl, rfl, rfl, ?_, ?_⟩
  · rw [absOf_active H act hk, (absIn_eq_some_iff (H.keysId id)).2 ⟨i, hi, hik, rfl⟩, hspec, hab, if_pos hik]
  · intro k hkne
    rw [hab, if_neg (by rw [hik]; exact fun h => hkne h.symm)]

theorem storeOK_noop {s : State} {g : Ghost} {id : CellId} (H : HInv s g) (act : Active g id) (p : Pending)
    (hnm : getCell s id ≠ .moved) {res : KRes}
    (hspec : specStep (absOf s p.key) p.op = (absOf s p.key, res)) : StoreOK s g id p (s, res) := by
  obtain ⟨he, hab⟩ := noop_effect (s' := s) H act hnm rfl (fun _ => rfl) rfl
  exact ⟨he, rfl, rfl, rfl, rfl, hspec, fun _ _ => rfl⟩

theorem setCell_frame (s : State) (tab : Tab) (k : Nat) (c : Cell) :
    (setCell s tab k c).heap = s.heap ∧ (setCell s tab k c).threads = s.threads ∧
    (setCell s tab k c).hist = s.hist ∧ (setCell s tab k c).now = s.now ∧ (setCell s tab k c).cur = s.cur ∧
    (setCell s tab k c).resizing = s.resizing := by
  rw [setCell_eq]; exact putCell_frame _ _ _

theorem getCell_setCell (s : State) (tab : Tab) (k : Nat) (c : Cell) (id' : CellId) :
    getCell (setCell s tab k c) id' = if id' = cellId tab k then c else getCell s id' := by
  rw [setCell_eq, getCell_putCell]

/-- the unlink store of `storeAt` -/
def unlinkAt (s : State) (tab : Tab) (key : Nat) (pred hnext : Option Nat) : State :=
  match pred with
  | some pr => setNode s pr (fun m => { m with next := hnext })
  | none => setCell s tab key (match hnext with | some x => .node x | none => .empty)

/-- the append store of `storeAt` -/
def appendAt (s : State) (tab : Tab) (key : Nat) (pred : Option Nat) (v : Nat × Nat) : State :=
  match pred with
  | some l => setNode { s with heap := s.heap ++ [(⟨key, v, none, none⟩ : NodeS)] } l
      (fun n => { n with next := some s.heap.length })
  | none => setCell { s with heap := s.heap ++ [(⟨key, v, none, none⟩ : NodeS)] } tab key (.node s.heap.length)

theorem storeOK_unlink {s : State} {g : Ghost} {tab : Tab} (H : HInv s g) (p : Pending)
    (act : Active g (cellId tab p.key)) {pred : Option Nat} {i : Nat} {res : KRes}
    (w : Walk s.heap (chId s (cellId tab p.key)) p.key pred (some i))
    (hik : (nodeAt s.heap i).key = p.key)
    (hspec : specStep (some (nodeAt s.heap i).val) p.op = (none, res)) :
    StoreOK s g (cellId tab p.key) p (unlinkAt s tab p.key pred (nodeAt s.heap i).next, res) := by
  have hk := keyOn_cellId tab p.key
  have hi := w.cur_mem
  obtain ⟨l1, l2, hch, hpred, -⟩ := w.hit_some
  have hcoh : (match (nodeAt s.heap i).next with | some x => Cell.node x | none => Cell.empty) =
      cellOfHead (nodeAt s.heap i).next := by cases (nodeAt s.heap i).next <;> rfl
  rcases List.eq_nil_or_concat l1 with rfl | ⟨l1', pr, rfl⟩
  · simp only [List.getLast?_nil] at hpred
    subst hpred
    simp only [List.nil_append] at hch
    obtain ⟨hfr1, hfr2, hfr3, hfr4, hfr5, hfr6⟩ := setCell_frame s tab p.key (cellOfHead (nodeAt s.heap i).next)
    obtain ⟨he, hab⟩ := unlink_head_effect (s' := setCell s tab p.key (cellOfHead (nodeAt s.heap i).next))
      H act hch hfr1 (fun id' => getCell_setCell s tab p.key _ id') hfr5
    unfold unlinkAt
    dsimp only
    rw [hcoh]
    refine ⟨he, hfr2, hfr3, hfr4, hfr6, ?_, ?_⟩
    · rw [absOf_active H act hk, (absIn_eq_some_iff (H.keysId _)).2 ⟨i, hi, hik, rfl⟩, hspec, hab, if_pos hik]
    · intro k hkne
      rw [hab, if_neg (by rw [hik]; exact fun h => hkne h.symm)]
  · simp only [List.concat_eq_append, List.getLast?_append, List.getLast?_singleton, Option.some_or] at hpred
    subst hpred
    have hch' : chId s (cellId tab p.key) = l1' ++ pr :: i :: l2 := by rw [hch]; simp
    obtain ⟨he, hab⟩ := unlink_mid_effect (s' := setNode s pr (fun m => { m with next := (nodeAt s.heap i).next }))
      H act hch' rfl (fun id' => getCell_setNode s pr _ id') rfl
    show StoreOK s g _ p (setNode s pr (fun m => { m with next := (nodeAt s.heap i).next }), res)
    refine ⟨he, rfl, rfl, rfl, rfl, ?_, ?_⟩
    · rw [absOf_active H act hk, (absIn_eq_some_iff (H.keysId _)).2 ⟨i, hi, hik, rfl⟩, hspec, hab, if_pos hik]
    · intro k hkne
      rw [hab, if_neg (by rw [hik]; exact fun h => hkne h.symm)]

theorem storeOK_append {s : State} {g : Ghost} {tab : Tab} (H : HInv s g) (p : Pending)
    (act : Active g (cellId tab p.key)) {pred : Option Nat} {v : Nat × Nat}
    (w : Walk s.heap (chId s (cellId tab p.key)) p.key pred none)
    (hne : chId s (cellId tab p.key) ≠ [])
    (hspec : specStep none p.op = (some v, .none)) :
    StoreOK s g (cellId tab p.key) p (appendAt s tab p.key pred v, KRes.none) := by
  have hk := keyOn_cellId tab p.key
  obtain ⟨hpred, hfresh⟩ := w.hit_none
  obtain ⟨l0, last, hch⟩ : ∃ l0 last, chId s (cellId tab p.key) = l0 ++ [last] := by
    rcases List.eq_nil_or_concat (chId s (cellId tab p.key)) with h | ⟨l0, last, h⟩
    · exact absurd h hne
    · exact ⟨l0, last, by rw [h]; simp⟩
  rw [hch] at hpred
  simp only [List.getLast?_append, List.getLast?_singleton, Option.some_or] at hpred
  subst hpred
  obtain ⟨he, hab⟩ := append_effect (s' := setNode { s with heap := s.heap ++ [(⟨p.key, v, none, none⟩ : NodeS)] } last
      (fun n => { n with next := some s.heap.length })) (new := (⟨p.key, v, none, none⟩ : NodeS))
    H act hch rfl hk hfresh rfl (fun id' => by cases id' <;> rfl) rfl
  show StoreOK s g _ p (setNode { s with heap := s.heap ++ [(⟨p.key, v, none, none⟩ : NodeS)] } last
      (fun n => { n with next := some s.heap.length }), KRes.none)
  refine ⟨he, rfl, rfl, rfl, rfl, ?_, ?_⟩
  · rw [absOf_active H act hk, absIn_eq_none_iff.2 hfresh, hspec, hab]; simp
  · intro k hkne
    rw [hab, if_neg (fun h => hkne h.symm)]

/-- **the store of a validated writer** through the positions remembered during its walk is the
specification step on its own key, leaves every other key alone, and is one of the list surgeries -/
theorem store_effect {s : State} {g : Ghost} {tab : Tab} (H : HInv s g) (p : Pending)
    (hw : isReader p.op = false) (act : Active g (cellId tab p.key)) {pred hit hnext : Option Nat}
    (w : Walk s.heap (chId s (cellId tab p.key)) p.key pred hit)
    (hne : chId s (cellId tab p.key) ≠ [])
    (hh : ∀ i, hit = some i → (nodeAt s.heap i).key = p.key ∧ hnext = (nodeAt s.heap i).next) :
    StoreOK s g (cellId tab p.key) p (storeAt s tab p pred hit hnext) := by
  have hk := keyOn_cellId tab p.key
  have hnm := act.notMoved H hne
  unfold storeAt
  simp only
  cases hop : p.op with
  | get => rw [hop] at hw; cases hw
  | has => rw [hop] at hw; cases hw
  | ins v vi =>
    cases hit with
    | some i =>
      dsimp only
      refine storeOK_swap H act p hk w.cur_mem (hh i rfl).1 ?_
      rw [hop]; rfl
    | none =>
      dsimp only
      refine storeOK_append H p act w hne ?_
      rw [hop]; rfl
  | tryIns v vi =>
    cases hit with
    | some i =>
      dsimp only
      refine storeOK_noop H act p hnm ?_
      rw [absOf_active H act hk, (absIn_eq_some_iff (H.keysId _)).2 ⟨i, w.cur_mem, (hh i rfl).1, rfl⟩, hop]
      rfl
    | none =>
      dsimp only
      refine storeOK_append H p act w hne ?_
      rw [hop]; rfl
  | rm =>
    cases hit with
    | some i =>
      dsimp only
      rw [(hh i rfl).2]
      refine storeOK_unlink H p act w (hh i rfl).1 ?_
      rw [hop]; rfl
    | none =>
      dsimp only
      refine storeOK_noop H act p hnm ?_
      rw [absOf_active H act hk, absIn_eq_none_iff.2 w.hit_none.2, hop]; rfl
  | cipInc nvi =>
    cases hit with
    | some i =>
      dsimp only
      refine storeOK_swap H act p hk w.cur_mem (hh i rfl).1 ?_
      rw [hop]; rfl
    | none =>
      dsimp only
      refine storeOK_noop H act p hnm ?_
      rw [absOf_active H act hk, absIn_eq_none_iff.2 w.hit_none.2, hop]; rfl
  | cipRm =>
    cases hit with
    | some i =>
      dsimp only
      rw [(hh i rfl).2]
      refine storeOK_unlink H p act w (hh i rfl).1 ?_
      rw [hop]; rfl
    | none =>
      dsimp only
      refine storeOK_noop H act p hnm ?_
      rw [absOf_active H act hk, absIn_eq_none_iff.2 w.hit_none.2, hop]; rfl

end Flurry.Proto.BinX
