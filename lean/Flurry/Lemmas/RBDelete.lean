import Flurry.RBInv
/-! # Deletion side of the tree bins: `removeNode` / `balDel` -/
namespace Flurry.RB
namespace Del
open T Ctx

/-! ## in-order sequence of a zipper -/

def ctxL : Ctx → List Node
  | top => []
  | left _ _ _ up => ctxL up
  | right _ l e up => ctxL up ++ (toList l ++ [e])

def ctxR : Ctx → List Node
  | top => []
  | left _ e r up => e :: toList r ++ ctxR up
  | right _ _ _ up => ctxR up

theorem toList_zip (t : T) (c : Ctx) : toList (zip t c) = ctxL c ++ toList t ++ ctxR c := by
  induction c generalizing t <;> simp_all [zip, ctxL, ctxR, toList]

theorem ctxL_append (a b : Ctx) : ctxL (a.append b) = ctxL b ++ ctxL a := by
  induction a <;> simp_all [Ctx.append, ctxL]

theorem ctxR_append (a b : Ctx) : ctxR (a.append b) = ctxR a ++ ctxR b := by
  induction a <;> simp_all [Ctx.append, ctxR]

theorem zip_append (t : T) (a b : Ctx) : zip t (a.append b) = zip (zip t a) b := by
  induction a generalizing t <;> simp_all [Ctx.append, zip]

@[simp] theorem toList_blacken (t : T) : toList (blacken t) = toList t := by
  cases t <;> simp [blacken, toList]

@[simp] theorem isRed_nil : isRed nil = false := rfl
@[simp] theorem isRed_red (l : T) (e : Node) (r : T) : isRed (node true l e r) = true := rfl
@[simp] theorem isRed_black (l : T) (e : Node) (r : T) : isRed (node false l e r) = false := rfl
@[simp] theorem blacken_nil : blacken nil = nil := rfl
@[simp] theorem blacken_node (c : Bool) (l : T) (e : Node) (r : T) :
    blacken (node c l e r) = node false l e r := rfl
@[simp] theorem isRed_blacken (t : T) : isRed (blacken t) = false := by cases t <;> rfl

theorem isRed_node (c : Bool) (l : T) (e : Node) (r : T) : isRed (node c l e r) = c := by
  cases c <;> rfl

theorem blacken_of_black {t : T} (h : isRed t = false) : blacken t = t := by
  rcases t with _ | ⟨_ | _, _, _, _⟩ <;> simp_all

/-! ## `balDel` unfolded into a black-sibling step -/

def delL (f : Nat) (pr : Bool) (x : T) (pe : Node) (s : T) (up : Ctx) : T :=
  match s with
  | nil => balDel f (node pr x pe nil) up
  | node _ sl se sr =>
    if isRed sr then zip (node pr (node false x pe sl) se (blacken sr)) up
    else match sl with
      | node true sll sle slr => zip (node pr (node false x pe sll) sle (node false slr se sr)) up
      | _ => balDel f (node pr x pe (node true sl se sr)) up

def delR (f : Nat) (pr : Bool) (x : T) (pe : Node) (s : T) (up : Ctx) : T :=
  match s with
  | nil => balDel f (node pr nil pe x) up
  | node _ sl se sr =>
    if isRed sl then zip (node pr (blacken sl) se (node false sr pe x)) up
    else match sr with
      | node true srl sre srr => zip (node pr (node false sl se srl) sre (node false srr pe x)) up
      | _ => balDel f (node pr (node true sl se sr) pe x) up

theorem balDel_left (f : Nat) (x : T) (pr : Bool) (pe : Node) (s : T) (up : Ctx) :
    balDel (f + 1) x (left pr pe s up) =
      if isRed x then zip (blacken x) (left pr pe s up) else
      match s with
      | node true sl se sr => delL f true x pe sl (left false se sr up)
      | _ => delL f pr x pe s up := by
  by_cases hx : isRed x
  · simp [balDel, hx]
  · rcases s with _ | ⟨_ | _, sl, se, sr⟩
    · simp [balDel, delL, hx]
    · rcases sl with _ | ⟨_ | _, sll, sle, slr⟩ <;> cases h : isRed sr <;>
        simp [balDel, delL, hx, h]
    · rcases sl with _ | ⟨c, sll, sle, slr⟩
      · simp [balDel, delL, hx]
      · rcases sll with _ | ⟨_ | _, a, b, c⟩ <;> cases h : isRed slr <;>
          simp [balDel, delL, hx, h]

theorem balDel_right (f : Nat) (x : T) (pr : Bool) (pe : Node) (s : T) (up : Ctx) :
    balDel (f + 1) x (right pr s pe up) =
      if isRed x then zip (blacken x) (right pr s pe up) else
      match s with
      | node true sl se sr => delR f true x pe sr (right false sl se up)
      | _ => delR f pr x pe s up := by
  by_cases hx : isRed x
  · simp [balDel, hx]
  · rcases s with _ | ⟨_ | _, sl, se, sr⟩
    · simp [balDel, delR, hx]
    · rcases sr with _ | ⟨_ | _, srl, sre, srr⟩ <;> cases h : isRed sl <;>
        simp [balDel, delR, hx, h]
    · rcases sr with _ | ⟨c, srl, sre, srr⟩
      · simp [balDel, delR, hx]
      · rcases srr with _ | ⟨_ | _, a, b, c⟩ <;> cases h : isRed srl <;>
          simp [balDel, delR, hx, h]

/-! ## `balDel` keeps the in-order sequence -/

theorem toList_delL {f : Nat} (ih : ∀ x c, toList (balDel f x c) = toList (zip x c))
    (pr : Bool) (x : T) (pe : Node) (s : T) (up : Ctx) :
    toList (delL f pr x pe s up) = toList (zip (node pr x pe s) up) := by
  unfold delL
  split
  · exact ih _ _
  · split
    · simp [toList_zip, toList]
    · split
      · simp [toList_zip, toList]
      · simp [ih, toList_zip, toList]

theorem toList_delR {f : Nat} (ih : ∀ x c, toList (balDel f x c) = toList (zip x c))
    (pr : Bool) (x : T) (pe : Node) (s : T) (up : Ctx) :
    toList (delR f pr x pe s up) = toList (zip (node pr s pe x) up) := by
  unfold delR
  split
  · exact ih _ _
  · split
    · simp [toList_zip, toList]
    · split
      · simp [toList_zip, toList]
      · simp [ih, toList_zip, toList]

theorem toList_balDel (f : Nat) (x : T) (c : Ctx) :
    toList (balDel f x c) = toList (zip x c) := by
  induction f generalizing x c with
  | zero => simp [balDel]
  | succ f ih =>
    cases c with
    | top => simp [balDel, zip]
    | left pr pe s up =>
      rw [balDel_left]
      split
      · simp [toList_zip]
      · split
        · simp [toList_delL ih, toList_zip, toList, ctxL, ctxR]
        · simp [toList_delL ih, toList_zip, toList, ctxL, ctxR]
    | right pr s pe up =>
      rw [balDel_right]
      split
      · simp [toList_zip]
      · split
        · simp [toList_delR ih, toList_zip, toList, ctxL, ctxR]
        · simp [toList_delR ih, toList_zip, toList, ctxL, ctxR]

/-! ## `locate`, `leftmost` -/

theorem locate_some {h k : Nat} {t : T} {c : Ctx} {s : T} {c' : Ctx}
    (hl : locate h k t c = some (s, c')) :
    zip s c' = zip t c ∧ ∃ pc pl pe pr, s = node pc pl pe pr ∧ pe.hash = h ∧ pe.key = k := by
  induction t generalizing c with
  | nil => simp [locate] at hl
  | node red l x r ihl ihr =>
    simp only [locate] at hl
    split at hl
    · simpa [zip] using ihl hl
    · split at hl
      · simpa [zip] using ihr hl
      · simp only [Option.some.injEq, Prod.mk.injEq] at hl
        obtain ⟨rfl, rfl⟩ := hl
        refine ⟨rfl, _, _, _, _, rfl, ?_⟩
        simp_all [ltHK, gtHK]
        omega

theorem lt_irrefl (a : Node) : ¬ lt a a := by unfold lt; omega
theorem lt_trans {a b c : Node} : lt a b → lt b c → lt a c := by unfold lt; omega
theorem lt_asymm {a b : Node} : lt a b → ¬ lt b a := by unfold lt; omega

theorem All_iff (p : Node → Prop) (t : T) : All p t ↔ ∀ x ∈ toList t, p x := by
  induction t with
  | nil => simp [All, toList]
  | node c l e r ihl ihr => simp [All, toList, ihl, ihr]; grind

theorem BST_iff (t : T) : BST t ↔ (toList t).Pairwise lt := by
  induction t with
  | nil => simp [BST, toList]
  | node c l e r ihl ihr =>
    simp only [BST, toList, All_iff, List.pairwise_append, List.pairwise_cons, ihl, ihr,
      List.mem_cons]
    grind [lt_trans]

theorem locate_isSome {h k : Nat} {t : T} (c : Ctx) (hb : BST t)
    (he : ∃ e ∈ toList t, e.hash = h ∧ e.key = k) : ∃ r, locate h k t c = some r := by
  induction t generalizing c with
  | nil => simp [toList] at he
  | node red l x r ihl ihr =>
    obtain ⟨e, hmem, rfl, rfl⟩ := he
    simp only [BST, All_iff] at hb
    obtain ⟨hl, hr, bl, br⟩ := hb
    simp only [locate]
    simp only [toList, List.mem_append, List.mem_cons] at hmem
    split
    next h1 =>
      apply ihl _ bl
      refine ⟨e, ?_, rfl, rfl⟩
      rcases hmem with hm | rfl | hm
      · exact hm
      · simp [ltHK] at h1
      · have := hr _ hm; simp [ltHK] at h1; unfold lt at this; omega
    next h1 =>
      split
      next h2 =>
        apply ihr _ br
        refine ⟨e, ?_, rfl, rfl⟩
        rcases hmem with hm | rfl | hm
        · have := hl _ hm; simp [gtHK] at h2; unfold lt at this; omega
        · simp [gtHK] at h2
        · exact hm
      next h2 => exact ⟨_, rfl⟩

theorem leftmost_some {t : T} {c : Ctx} {sc : Bool} {se : Node} {sr : T} {cs : Ctx}
    (hl : leftmost t c = some (sc, se, sr, cs)) :
    zip (node sc nil se sr) cs = zip t c ∧ ctxL cs = ctxL c := by
  fun_induction leftmost t c <;> simp_all [zip, ctxL]

theorem leftmost_isSome (red : Bool) (l : T) (e : Node) (r : T) (c : Ctx) :
    ∃ x, leftmost (node red l e r) c = some x := by
  induction l generalizing red e r c with
  | nil => exact ⟨_, rfl⟩
  | node c2 l2 e2 r2 ih _ => simp only [leftmost]; exact ih _ _ _ _

/-! ## `removeNode`: in-order sequence -/

theorem removeNode_toList_of_locate {h k : Nat} {t : T} {pc : Bool} {pl : T} {pe : Node} {pr : T}
    {c : Ctx} (hl : locate h k t top = some (node pc pl pe pr, c)) :
    toList (removeNode h k t) = ctxL c ++ (toList pl ++ toList pr) ++ ctxR c := by
  rcases pl with _ | ⟨lc, ll, le, lr⟩ <;> rcases pr with _ | ⟨rc, rl, re, rr⟩
  · simp only [removeNode, hl]; split <;> simp [toList_balDel, toList_zip, toList]
  · simp only [removeNode, hl]; split <;> simp [toList_balDel, toList_zip, toList]
  · simp only [removeNode, hl]; split <;> simp [toList_balDel, toList_zip, toList]
  · obtain ⟨⟨sc, se, sr, cs⟩, hs⟩ := leftmost_isSome rc rl re rr top
    have ⟨h1, h2⟩ := leftmost_some hs
    have h3 := congrArg toList h1
    simp only [ctxL] at h2
    simp [toList_zip, zip, h2, toList] at h3
    simp only [removeNode, hl, hs]
    split <;> simp [toList_balDel, toList_zip, ctxL_append, ctxR_append, ctxL, ctxR, h2, ← h3, toList]

theorem filter_unique {l1 l2 : List Node} {e : Node} (hp : (l1 ++ e :: l2).Pairwise lt) :
    (l1 ++ e :: l2).filter (fun x => !(x.hash == e.hash && x.key == e.key)) = l1 ++ l2 := by
  simp only [List.pairwise_append, List.pairwise_cons, List.mem_cons] at hp
  obtain ⟨_, ⟨h2, _⟩, h3⟩ := hp
  have e1 : l1.filter (fun x => !(x.hash == e.hash && x.key == e.key)) = l1 := by
    apply List.filter_eq_self.2
    intro a ha
    have := h3 a ha e (Or.inl rfl)
    unfold lt at this
    simp; omega
  have e2 : l2.filter (fun x => !(x.hash == e.hash && x.key == e.key)) = l2 := by
    apply List.filter_eq_self.2
    intro a ha
    have := h2 a ha
    unfold lt at this
    simp; omega
  rw [List.filter_append, List.filter_cons, e1, e2]
  simp

/-- shape of the result, given where `locate` stops -/
theorem removeNode_split {h k : Nat} {t : T} (hb : BST t)
    (he : ∃ e ∈ toList t, e.hash = h ∧ e.key = k) :
    ∃ l1 l2 e, e.hash = h ∧ e.key = k ∧ toList t = l1 ++ e :: l2 ∧
      toList (removeNode h k t) = l1 ++ l2 := by
  obtain ⟨⟨s, c⟩, hl⟩ := locate_isSome top hb he
  obtain ⟨hz, pc, pl, pe, pr, rfl, h1, h2⟩ := locate_some hl
  refine ⟨ctxL c ++ toList pl, toList pr ++ ctxR c, pe, h1, h2, ?_, ?_⟩
  · have := congrArg toList hz
    simp only [zip] at this
    rw [← this, toList_zip]; simp [toList]
  · rw [removeNode_toList_of_locate hl]; simp

end Del

open Del in
/-- the in-order sequence after `removeNode` is the old one with exactly that entry erased -/
theorem removeNode_toList {h k : Nat} {t : T} (hb : BST t)
    (he : ∃ e ∈ toList t, e.hash = h ∧ e.key = k) :
    toList (removeNode h k t) =
      (toList t).filter (fun x => !(x.hash == h && x.key == k)) := by
  obtain ⟨l1, l2, e, rfl, rfl, h1, h2⟩ := removeNode_split hb he
  rw [h2, h1, filter_unique]
  rw [← h1]; exact (BST_iff t).1 hb

open Del in
theorem removeNode_BST {h k : Nat} {t : T} (hb : BST t)
    (he : ∃ e ∈ toList t, e.hash = h ∧ e.key = k) : BST (removeNode h k t) := by
  rw [BST_iff, removeNode_toList hb he]
  exact ((BST_iff t).1 hb).filter _

end Flurry.RB
