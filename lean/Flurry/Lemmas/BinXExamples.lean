import Flurry.Props.C01BinX
import Flurry.Lemmas.LinSearch
/-! # Proto/BinX: two concrete schedules around the forwarding (C01, C10)

Three threads: thread 0 performs the calls, thread 1 is the slow one, thread 2 transfers the bin.
Both schedules first build the list `[a: key 1, b: key 0]`; its last run is `[b]` (low side), so `a` is
*copied* to `a'` (high side) and dies at the forwarding.

* `schedLost` — **the re-check of the bin cell is load-bearing across a resize**: thread 1 calls
  `insert(1)` and loads the old head `a` before the transfer, then sleeps; the bin is transferred; it
  wakes up and takes the mutex of `a`. Without the re-check (`stepG false`) it stores its value into
  the dead node `a`: the `insert` returns, but a later `get(1)` still finds the old value in `a'`:
  not linearizable. With the re-check it sees `cell0 = moved ≠ node a`, unlocks, follows the forwarding
  marker and updates `a'`.
* `schedStale` — **hindsight across the forwarding** (`Good.moved`): thread 1 calls `get(1)` and loads
  the old head `a` before the transfer, then sleeps; the bin is transferred, `insert(1)` updates `a'`
  and a `get(1)` by thread 0 returns the new value; only then thread 1 reads the (frozen) value of `a`
  and returns the *old* value — after a later call returned the new one. Linearizable all the same:
  the slow `get` is linearized before the forwarding, inside its interval. -/
namespace Flurry.Proto.BinX
open Flurry.Lin

abbrev Sched := List (Nat × Option (Nat × KOp) × Bool)

/-- run a schedule (`none` if some step is not enabled) -/
def run (f : State → Nat → Option (Nat × KOp) → Bool → Option State) : State → Sched → Option State
  | s, [] => some s
  | s, (t, inv, rz) :: rest =>
    match f s t inv rz with
    | none => none
    | some s' => run f s' rest

/-- reachability in the variant without the re-checks -/
inductive ReachableNoCheck (nthreads : Nat) : State → Prop
  | init : ReachableNoCheck nthreads (init nthreads)
  | step {s s' : State} (t : Nat) (inv : Option (Nat × KOp)) (rz : Bool) :
      ReachableNoCheck nthreads s → stepG false s t inv rz = some s' → ReachableNoCheck nthreads s'

theorem run_reachable {n : Nat} : ∀ (sc : Sched) {s s' : State}, Reachable n s → run step s sc = some s' →
    Reachable n s'
  | [], s, s', hr, h => by simp only [run, Option.some.injEq] at h; exact h ▸ hr
  | (t, inv, rz) :: rest, s, s', hr, h => by
    simp only [run] at h
    cases hs : step s t inv rz with
    | none => rw [hs] at h; cases h
    | some s1 => rw [hs] at h; exact run_reachable rest (.step t inv rz hr hs) h

theorem run_reachableNoCheck {n : Nat} : ∀ (sc : Sched) {s s' : State}, ReachableNoCheck n s →
    run (stepG false) s sc = some s' → ReachableNoCheck n s'
  | [], s, s', hr, h => by simp only [run, Option.some.injEq] at h; exact h ▸ hr
  | (t, inv, rz) :: rest, s, s', hr, h => by
    simp only [run] at h
    cases hs : stepG false s t inv rz with
    | none => rw [hs] at h; cases h
    | some s1 => rw [hs] at h; exact run_reachableNoCheck rest (.step t inv rz hr hs) h

/-- is the final state quiescent, and does the exhaustive search find a linearization of the history of
key `k` ending in the abstract content of the key -/
def verdict (f : State → Nat → Option (Nat × KOp) → Bool → Option State) (n : Nat) (sc : Sched) (k : Nat) :
    Option (Bool × Bool) :=
  (run f (init n) sc).map fun s =>
    (s.threads.all (fun l => l.pc == .idle), (search (callsOn s k) none (absOf s k)).isSome)

theorem of_verdict {f : State → Nat → Option (Nat × KOp) → Bool → Option State} {n : Nat} {sc : Sched} {k : Nat}
    {b : Bool} (h : verdict f n sc k = some (true, b)) :
    ∃ s, run f (init n) sc = some s ∧ quiescent s ∧ (search (callsOn s k) none (absOf s k)).isSome = b := by
  unfold verdict at h
  cases hr : run f (init n) sc with
  | none => rw [hr] at h; cases h
  | some s =>
    rw [hr] at h
    simp only [Option.map_some, Option.some.injEq, Prod.mk.injEq] at h
    refine ⟨s, rfl, ?_, h.2⟩
    intro l hl
    have := List.all_eq_true.1 h.1 l hl
    simpa using this

/-- `n` further steps of thread `t` -/
def rep (t n : Nat) : Sched := List.replicate n (t, none, false)

/-- thread 0: `insert(1)` (CAS into the empty bin), `insert(0)` (appended under the lock) -/
def setup : Sched :=
  [(0, some (1, .ins 5 100), false)] ++ rep 0 3 ++ [(0, some (0, .ins 6 101), false)] ++ rep 0 8

/-- thread 1 invokes `insert(1)` and loads the old head; thread 2 transfers the bin and publishes the
new table; thread 1 continues (5 steps: lock, check, find, store, unlock if the check is skipped);
thread 0: `get(1)` -/
def schedLost : Sched :=
  setup ++ [(1, some (1, .ins 7 102), false)] ++ rep 1 2 ++ [(2, none, true)] ++ rep 2 9 ++ rep 1 5 ++
  [(0, some (1, .get), false)] ++ rep 0 3

/-- the same, and thread 1 is given the steps it needs to start over in the new table -/
def schedLostLong : Sched := schedLost ++ rep 1 6

/-- thread 1 invokes `get(1)` and loads the old head; thread 2 transfers the bin; thread 0:
`insert(1)`, `get(1)` in the new table; finally thread 1 reads the node it holds -/
def schedStale : Sched :=
  setup ++ [(1, some (1, .get), false)] ++ rep 1 2 ++ [(2, none, true)] ++ rep 2 9 ++
  [(0, some (1, .ins 7 102), false)] ++ rep 0 7 ++ [(0, some (1, .get), false)] ++ rep 0 3 ++ rep 1 1

theorem verdict_lost_noCheck : verdict (stepG false) 3 schedLost 1 = some (true, false) := by decide

theorem verdict_lost_check : verdict step 3 schedLostLong 1 = some (true, true) := by decide

theorem verdict_stale : verdict step 3 schedStale 1 = some (true, true) := by decide

/-- without the re-check: `insert(1) = 7` returns (it overwrote the dead node), the later `get(1)`
still returns 5 and the key still has the old value -/
theorem lost_noCheck_history :
    (run (stepG false) (init 3) schedLost).map (fun s => (callsOn s 1, absOf s 1, s.cur)) =
      some ([⟨0, .ins 5 100, .none, 1, 4⟩, ⟨1, .ins 7 102, .some 5 100, 14, 31⟩, ⟨0, .get, .some 5 100, 32, 35⟩],
        some (5, 100), .new) := by
  decide

/-- with the re-check the slow insert starts over in the new table -/
theorem lost_check_history :
    (run step (init 3) schedLostLong).map (fun s => (callsOn s 1, absOf s 1, s.cur)) =
      some ([⟨0, .ins 5 100, .none, 1, 4⟩, ⟨0, .get, .some 5 100, 32, 35⟩, ⟨1, .ins 7 102, .some 5 100, 14, 40⟩],
        some (7, 102), .new) := by
  decide

/-- the slow `get` (invoked at 14) returns the old value at 39, after `get = 7` returned at 38 -/
theorem stale_history :
    (run step (init 3) schedStale).map (fun s => (callsOn s 1, absOf s 1, s.cur)) =
      some ([⟨0, .ins 5 100, .none, 1, 4⟩, ⟨0, .ins 7 102, .some 5 100, 27, 34⟩, ⟨0, .get, .some 7 102, 35, 38⟩,
        ⟨1, .get, .some 5 100, 14, 39⟩], some (7, 102), .new) := by
  decide

/-- **the re-check is load-bearing across the forwarding**: without it, a reachable quiescent state
(after a complete resize) whose history of key 1 is not linearizable (a completed insert is lost) -/
theorem noCheck_not_linearizable :
    ∃ s, ReachableNoCheck 3 s ∧ quiescent s ∧ s.cur = .new ∧
      ¬ Lin.Linearizable (callsOn s 1) none (absOf s 1) := by
  obtain ⟨s, hr, hq, hs⟩ := of_verdict verdict_lost_noCheck
  refine ⟨s, run_reachableNoCheck _ .init hr, hq, ?_, search_eq_none_iff.1 ?_⟩
  · have := lost_noCheck_history
    rw [hr] at this
    simp only [Option.map_some, Option.some.injEq, Prod.mk.injEq] at this
    exact this.2.2
  · cases h : search (callsOn s 1) none (absOf s 1) with
    | none => rfl
    | some o => rw [h] at hs; cases hs

/-- hence the theorem `binx_linearizable_quiescent` is false for the variant without the re-checks -/
theorem noCheck_refutes :
    ¬ ∀ (n : Nat) (s : State), ReachableNoCheck n s → quiescent s → ∀ k,
      Lin.Linearizable (callsOn s k) none (absOf s k) := by
  intro hall
  obtain ⟨s, hr, hq, -, hn⟩ := noCheck_not_linearizable
  exact hn (hall 3 s hr hq 1)

/-- the stale read across the forwarding is reachable, and (as `binx_linearizable_quiescent` says it
must be) linearizable -/
theorem stale_read_reachable :
    ∃ s, run step (init 3) schedStale = some s ∧ Reachable 3 s ∧ quiescent s ∧
      Lin.Linearizable (callsOn s 1) none (absOf s 1) := by
  obtain ⟨s, hr, hq, -⟩ := of_verdict verdict_stale
  have hreach := run_reachable _ .init hr
  exact ⟨s, hr, hreach, hq, binx_linearizable_quiescent hreach hq 1⟩

end Flurry.Proto.BinX
