import Flurry.Lemmas.BinNRRefine
import Flurry.Lemmas.BinNRRuns
/-! # Proto/BinNR → Proto/Reclaim2: the refinement checked by execution

Every schedule produced by the random explorer of `Lemmas/BinNRExamples.lean` (removals, replacing inserts, 1–3
resizes, eager `free`, explicit `retire` at random times, the sleeper stale by two generations) is projected onto
`Reclaim2.Ev` events and fed to `Reclaim2.run`; `simB` is asserted after every step. Kernel-checked for the hand-written
schedules of `Lemmas/BinNRRuns.lean`. -/
namespace Flurry.Proto.BinNR

def refineExplore (cfg : Cfg) (seed0 nruns : Nat) : String := Id.run do
  let mut steps := 0
  let mut events := 0
  let mut bad : Option (Nat × Nat) := none
  for i in [0:nruns] do
    let x := oneRun cfg (rngNextR (seed0 + 7919 * i)) []
    let sc := x.sc.toList.map fun r => (r.t, r.a)
    steps := steps + sc.length
    match refinesB cfg.nthreads sc with
    | some none => pure ()
    | some (some k) => if bad.isNone then bad := some (i, k)
    | none => if bad.isNone then bad := some (i, 0)
  return s!"runs {nruns}, transitions {steps}: " ++
    (match bad with | none => "every projected event accepted by Reclaim2.run, simB after every step"
                    | some (i, k) => s!"FAILED in run {i} at step {k}")
where rngNextR (x : Nat) : Nat := Flurry.Proto.BinN.rngNext x

/-! ## kernel-checked: the projections of the hand-written runs are accepted, `simB` after every step -/

def toSc (sc : Sched) : List (Nat × Act) := sc.map fun r => (r.t, r.a)

set_option maxRecDepth 100000 in
/-- a reader is awaited by a removed node (`Lemmas/BinNRRuns.lean`) -/
theorem remove_refines : refinesB 3 (toSc schedRemove) = some none := by decide

set_option maxRecDepth 100000 in
/-- a reader walks the retired copied prefix of a transferred list -/
theorem transfer_refines : refinesB 3 (toSc schedTransfer) = some none := by decide

set_option maxRecDepth 100000 in
/-- two resizes, the reader stale by two generations walks `a → b → c` through retired nodes: the `acquire` of `b`
(unlinked and retired) is the event `Proto/Reclaim` rejects and `Proto/Reclaim2` accepts -/
theorem transfer2_refines : refinesB 3 (toSc schedTransfer2) = some none := by decide

set_option maxRecDepth 100000 in
theorem late_refines : refinesB 3 (toSc schedLate) = some none := by decide

end Flurry.Proto.BinNR

#print axioms Flurry.Proto.BinNR.transfer2_refines
