import Flurry.Lemmas.BinGNPInv
/-! # Proto/BinGN (port of `Lemmas/BinGInvBasic.lean`): the structural invariant — basic lemmas

The lemmas of `Lemmas/BinGInvBasic.lean` for the cells `(g, j)` of `Proto/BinGN`:
* `cnt_set`, `cnt_pos_of`, `cnt_zero_of`; `tinv_keep`, `tinv_invoke`, `tinv_finish`;
* facts about the classification of program counters (`holdsLock_of_validL`, …, `afterLock_*`);
* `LInv.valid_unique`, `LInv.reader_pos`, `LInv.lock_lt`, `LInv.mutex_lt`;
* the cells: `cellAt_putCell_ne`, `cellAt_putCell_self`, `cellAt_putCell`, `cellAt_setCell` (a store into a
  cell that does not exist is a no-op, hence the existence hypotheses; `XInv.cellAt_putCell`,
  `XInv.cellAt_setCell` take them from `XInv`), `liveCell_eq` (a lookup follows at most one marker);
* `Quiet s s'` (the tables, the table pointer, every heap field but the lock words, the `first` fields are
  unchanged) and what it preserves — as in BinG.

What differs from BinG:
* `Quiet` has the fields `tabs`, `cur` instead of `cell0`, `low`, `high`; the hypotheses `hcur : s'.cur = s.cur`
  of `Quiet.hinv`, `Quiet.liveCell_eq`, `Quiet.LC_eq`, `Quiet.abs_eq` are kept (so that call sites port verbatim)
  although `q.cur` provides them;
* `Quiet.hinv` needs `Reusing` to be preserved (`HInv.binsDistinct` mentions the threads): `reusing_of_set`,
  `reusing_of_set_pc`;
* `Quiet.privX_iff`, `Quiet.used_iff`, `Quiet.used_of` need `xIdx l'.pc = xIdx l.pc` (the cell under transfer
  is named by the program counter);
* `Quiet.plan'`, `Quiet.plan` are about `Plan s j lo hi`. -/
namespace Flurry.Proto.BinGNP
open Flurry.Lin
open Flurry.Proto.BinK (nodeAt binAt NextOK IsChain IsSeg chainOf CInv absL HeapEqv get_set get_set_self get_set_ne)

/-! ## counting threads -/

theorem cnt_set (q : Pc → Bool) (ls : List Local) (i : Nat) (old new : Local) (h : ls[i]? = some old) :
    cnt q (ls.set i new) + (if q old.pc then 1 else 0) = cnt q ls + (if q new.pc then 1 else 0) := by
  induction ls generalizing i with
  | nil => simp at h
  | cons a t ih =>
    cases i with
    | zero =>
      simp at h; subst h
      simp only [cnt, List.set_cons_zero, List.filter_cons]
      cases q a.pc <;> cases q new.pc <;> simp
    | succ j =>
      simp at h
      have := ih j h
      simp only [cnt, List.set_cons_succ, List.filter_cons] at this ⊢
      cases q a.pc <;> simp <;> omega

theorem cnt_pos_of {q : Pc → Bool} {ls : List Local} {i : Nat} {l : Local} (h : ls[i]? = some l)
    (hq : q l.pc = true) : 1 ≤ cnt q ls := by
  unfold cnt
  have hm : l ∈ ls.filter (fun l => q l.pc) :=
    List.mem_filter.mpr ⟨List.mem_iff_getElem?.mpr ⟨i, h⟩, hq⟩
  exact List.length_pos_of_mem hm

theorem cnt_zero_of {q : Pc → Bool} {ls : List Local} (h : ∀ l ∈ ls, q l.pc = false) : cnt q ls = 0 := by
  unfold cnt
  rw [List.length_eq_zero_iff, List.filter_eq_nil_iff]
  intro l hl
  rw [h l hl]; simp

/-! ## threads and times -/

/-- a transition that keeps the pending call of the thread -/
theorem tinv_keep {s s' : State} {t : Nat} {l l' : Local} (T : TInv s)
    (hl : s.threads[t]? = some l) (hthr : s'.threads = s.threads.set t l') (hnow : s'.now = s.now + 1)
    (hhist : s'.hist = s.hist) (hcall : l'.call = l.call)
    (hcallOK : l'.call = none ↔ noCallPc l'.pc = true)
    (hpc : ∀ p, l.call = some p → PcOp l'.pc p.op) : TInv s' := by
  have key : ∀ (t1 : Nat) (l1 : Local) (p1 : Pending), s'.threads[t1]? = some l1 → l1.call = some p1 →
      ∃ l0, s.threads[t1]? = some l0 ∧ l0.call = some p1 ∧ (PcOp l0.pc p1.op → PcOp l1.pc p1.op) := by
    intro t1 l1 p1 h1 hc1
    rw [hthr] at h1
    rcases get_set h1 with ⟨rfl, rfl⟩ | ⟨_, h1⟩
    · exact ⟨l, hl, hcall ▸ hc1, fun _ => hpc p1 (hcall ▸ hc1)⟩
    · exact ⟨l1, h1, hc1, id⟩
  refine ⟨?_, ?_, ?_, ?_, ?_, ?_, ?_⟩
  · intro t1 l1 p1 h1 hc1
    obtain ⟨l0, h0, hc0, himp⟩ := key t1 l1 p1 h1 hc1
    exact himp (T.opOK t1 l0 p1 h0 hc0)
  · intro t1 l1 h1
    rw [hthr] at h1
    rcases get_set h1 with ⟨rfl, rfl⟩ | ⟨_, h1⟩
    · exact hcallOK
    · exact T.callOK t1 l1 h1
  · intro x hx
    rw [hhist] at hx
    have := T.histTime x hx
    omega
  · intro t1 l1 p1 h1 hc1
    obtain ⟨l0, h0, hc0, -⟩ := key t1 l1 p1 h1 hc1
    have := T.pendTime t1 l0 p1 h0 hc0
    omega
  · intro x hx t1 l1 p1 h1 hc1
    rw [hhist] at hx
    obtain ⟨l0, h0, hc0, -⟩ := key t1 l1 p1 h1 hc1
    exact T.uniqHP x hx t1 l0 p1 h0 hc0
  · intro t1 t2 l1 l2 p1 p2 h1 h2 hc1 hc2 he
    obtain ⟨l01, h01, hc01, -⟩ := key t1 l1 p1 h1 hc1
    obtain ⟨l02, h02, hc02, -⟩ := key t2 l2 p2 h2 hc2
    exact T.uniqPP t1 t2 l01 l02 p1 p2 h01 h02 hc01 hc02 he
  · rw [hhist]; exact T.uniqHH

/-- an invocation -/
theorem tinv_invoke {s s' : State} {t : Nat} {l l' : Local} {k : Nat} {op : KOp} (T : TInv s)
    (hl : s.threads[t]? = some l) (hthr : s'.threads = s.threads.set t l') (hnow : s'.now = s.now + 1)
    (hhist : s'.hist = s.hist) (hcall : l'.call = some ⟨k, op, s.now + 1⟩)
    (hno : noCallPc l'.pc = false)
    (hpc : PcOp l'.pc op) : TInv s' := by
  have key : ∀ (t1 : Nat) (l1 : Local) (p1 : Pending), s'.threads[t1]? = some l1 → l1.call = some p1 →
      (t1 = t ∧ l1 = l' ∧ p1 = ⟨k, op, s.now + 1⟩) ∨ (t1 ≠ t ∧ s.threads[t1]? = some l1) := by
    intro t1 l1 p1 h1 hc1
    rw [hthr] at h1
    rcases get_set h1 with ⟨rfl, rfl⟩ | ⟨hne, h1⟩
    · rw [hcall] at hc1; cases hc1
      exact Or.inl ⟨rfl, rfl, rfl⟩
    · exact Or.inr ⟨hne, h1⟩
  refine ⟨?_, ?_, ?_, ?_, ?_, ?_, ?_⟩
  · intro t1 l1 p1 h1 hc1
    rcases key t1 l1 p1 h1 hc1 with ⟨rfl, rfl, rfl⟩ | ⟨_, h0⟩
    · exact hpc
    · exact T.opOK t1 l1 p1 h0 hc1
  · intro t1 l1 h1
    rw [hthr] at h1
    rcases get_set h1 with ⟨rfl, rfl⟩ | ⟨_, h1⟩
    · rw [hcall, hno]; simp
    · exact T.callOK t1 l1 h1
  · intro x hx
    rw [hhist] at hx
    have := T.histTime x hx
    omega
  · intro t1 l1 p1 h1 hc1
    rcases key t1 l1 p1 h1 hc1 with ⟨rfl, rfl, rfl⟩ | ⟨_, h0⟩
    · simp only; omega
    · have := T.pendTime t1 l1 p1 h0 hc1
      omega
  · intro x hx t1 l1 p1 h1 hc1
    rw [hhist] at hx
    rcases key t1 l1 p1 h1 hc1 with ⟨rfl, rfl, rfl⟩ | ⟨_, h0⟩
    · have := T.histTime x hx
      simp only; omega
    · exact T.uniqHP x hx t1 l1 p1 h0 hc1
  · intro t1 t2 l1 l2 p1 p2 h1 h2 hc1 hc2 he
    rcases key t1 l1 p1 h1 hc1 with ⟨rfl, rfl, rfl⟩ | ⟨hne1, h01⟩ <;>
      rcases key t2 l2 p2 h2 hc2 with ⟨rfl, rfl, rfl⟩ | ⟨hne2, h02⟩
    · rfl
    · have := T.pendTime t2 l2 p2 h02 hc2
      simp only at he; omega
    · have := T.pendTime t1 l1 p1 h01 hc1
      simp only at he; omega
    · exact T.uniqPP t1 t2 l1 l2 p1 p2 h01 h02 hc1 hc2 he
  · rw [hhist]; exact T.uniqHH

/-- a call completes -/
theorem tinv_finish {s s' : State} {t : Nat} {l l' : Local} {p : Pending} {res : KRes} (T : TInv s)
    (hl : s.threads[t]? = some l) (hp : l.call = some p)
    (hthr : s'.threads = s.threads.set t l') (hnow : s'.now = s.now + 1)
    (hhist : s'.hist = (p.key, ⟨t, p.op, res, p.inv, s.now + 1⟩) :: s.hist) (hcall : l'.call = none)
    (hno : noCallPc l'.pc = true) :
    TInv s' := by
  have key : ∀ (t1 : Nat) (l1 : Local) (p1 : Pending), s'.threads[t1]? = some l1 → l1.call = some p1 →
      t1 ≠ t ∧ s.threads[t1]? = some l1 := by
    intro t1 l1 p1 h1 hc1
    rw [hthr] at h1
    rcases get_set h1 with ⟨rfl, rfl⟩ | ⟨hne, h1⟩
    · rw [hcall] at hc1; cases hc1
    · exact ⟨hne, h1⟩
  have hpi := T.pendTime t l p hl hp
  refine ⟨?_, ?_, ?_, ?_, ?_, ?_, ?_⟩
  · intro t1 l1 p1 h1 hc1
    exact T.opOK t1 l1 p1 (key t1 l1 p1 h1 hc1).2 hc1
  · intro t1 l1 h1
    rw [hthr] at h1
    rcases get_set h1 with ⟨rfl, rfl⟩ | ⟨_, h1⟩
    · rw [hcall, hno]; simp
    · exact T.callOK t1 l1 h1
  · intro x hx
    rw [hhist] at hx
    rcases List.mem_cons.1 hx with rfl | hx
    · simp only; omega
    · have := T.histTime x hx
      omega
  · intro t1 l1 p1 h1 hc1
    have := T.pendTime t1 l1 p1 (key t1 l1 p1 h1 hc1).2 hc1
    omega
  · intro x hx t1 l1 p1 h1 hc1
    obtain ⟨hne, h0⟩ := key t1 l1 p1 h1 hc1
    rw [hhist] at hx
    rcases List.mem_cons.1 hx with rfl | hx
    · simp only
      intro he
      exact hne (T.uniqPP t1 t l1 l p1 p h0 hl hc1 hp he.symm)
    · exact T.uniqHP x hx t1 l1 p1 h0 hc1
  · intro t1 t2 l1 l2 p1 p2 h1 h2 hc1 hc2 he
    exact T.uniqPP t1 t2 l1 l2 p1 p2 (key t1 l1 p1 h1 hc1).2 (key t2 l2 p2 h2 hc2).2 hc1 hc2 he
  · rw [hhist]
    refine List.pairwise_cons.2 ⟨?_, T.uniqHH⟩
    intro y hy
    simp only
    exact fun he => T.uniqHP y hy t l p hl hp he.symm

/-! ## facts about the classification of program counters -/

theorem holdsLock_of_validL {pc : Pc} {h : Nat} (hv : validL pc = some h) : holdsLock pc = some h := by
  cases pc <;> simp [validL] at hv <;> simp [holdsLock, hv]

theorem holdsMutex_of_validT {pc : Pc} {b : Nat} (hv : validT pc = some b) : holdsMutex pc = some b := by
  cases pc <;> simp [validT] at hv <;> simp [holdsMutex, hv]

theorem holdsMutex_of_wr {pc : Pc} (hw : wr pc = true) : ∃ b, validT pc = some b := by
  cases pc <;> simp [wr] at hw <;> simp [validT]

theorem binRef_of_holdsMutex {pc : Pc} {b : Nat} (h : holdsMutex pc = some b) : binRef pc = some b := by
  cases pc <;> simp [holdsMutex] at h <;> simp [binRef, h]

theorem binRef_of_holdsRead {pc : Pc} {b : Nat} (h : holdsRead pc = some b) : binRef pc = some b := by
  cases pc <;> simp [holdsRead] at h <;> simp [binRef, h]

theorem validated_of_validL {pc : Pc} {h : Nat} (hv : validL pc = some h) : validated pc = true := by
  unfold validated; rw [hv]; rfl

theorem validated_of_validT {pc : Pc} {b : Nat} (hv : validT pc = some b) : validated pc = true := by
  unfold validated; rw [hv]; simp

theorem validated_cases {pc : Pc} (h : validated pc = true) : (∃ a, validL pc = some a) ∨ (∃ b, validT pc = some b) := by
  unfold validated at h
  cases hv : validL pc with
  | some a => exact Or.inl ⟨a, rfl⟩
  | none =>
    cases hw : validT pc with
    | some b => exact Or.inr ⟨b, rfl⟩
    | none => rw [hv, hw] at h; cases h

theorem not_validated {pc : Pc} (h : validated pc = false) : validL pc = none ∧ validT pc = none := by
  unfold validated at h
  cases h2 : validL pc <;> cases h3 : validT pc <;> simp [h2, h3] at h ⊢

theorem afterLock_holdsMutex (tab : Nat) (b : Nat) (k : After) (res : KRes) :
    holdsMutex (afterLock tab b k res) = some b := by
  cases k <;> rfl

theorem afterLock_wr (tab : Nat) (b : Nat) (k : After) (res : KRes) : wr (afterLock tab b k res) = true := by
  cases k <;> rfl

theorem afterLock_validT (tab : Nat) (b : Nat) (k : After) (res : KRes) :
    validT (afterLock tab b k res) = some b := by
  cases k <;> rfl

theorem afterLock_binRef (tab : Nat) (b : Nat) (k : After) (res : KRes) :
    binRef (afterLock tab b k res) = some b := by
  cases k <;> rfl

theorem afterLock_holdsLock (tab : Nat) (b : Nat) (k : After) (res : KRes) :
    holdsLock (afterLock tab b k res) = none := by
  cases k <;> rfl

theorem afterLock_validL (tab : Nat) (b : Nat) (k : After) (res : KRes) :
    validL (afterLock tab b k res) = none := by
  cases k <;> rfl

theorem afterLock_holdsRead (tab : Nat) (b : Nat) (k : After) (res : KRes) :
    holdsRead (afterLock tab b k res) = none := by
  cases k <;> rfl

theorem afterLock_tabOf (tab : Nat) (b : Nat) (k : After) (res : KRes) :
    tabOf (afterLock tab b k res) = some tab := by
  cases k <;> rfl

theorem afterLock_pend (s : State) (tab : Nat) (b : Nat) (k : After) (res : KRes) :
    pend s (afterLock tab b k res) = [] := by
  cases k <;> rfl

theorem afterLock_xPc (tab : Nat) (b : Nat) (k : After) (res : KRes) : xPc (afterLock tab b k res) = false := by
  cases k <;> rfl

theorem afterLock_kPc (tab : Nat) (b : Nat) (k : After) (res : KRes) : kPc (afterLock tab b k res) = false := by
  cases k <;> rfl

theorem afterLock_readerPc (tab : Nat) (b : Nat) (k : After) (res : KRes) :
    readerPc (afterLock tab b k res) = false := by
  cases k <;> rfl

theorem afterLock_noCallPc (tab : Nat) (b : Nat) (k : After) (res : KRes) :
    noCallPc (afterLock tab b k res) = false := by
  cases k <;> rfl

theorem afterLock_isLoop (tab : Nat) (b : Nat) (k : After) (res : KRes) :
    isLoop (afterLock tab b k res) = false := by
  cases k <;> rfl

/-- a thread that keeps its call and moves to `afterLock` works in the same cell as at a program
counter of table `tab` -/
theorem afterLock_cidOf (s : State) (tab : Nat) (b : Nat) (k : After) (res : KRes) (p : Pending) :
    cidOf s { pc := afterLock tab b k res, call := some p } = idOf tab p.key := by
  cases k <;> rfl

/-! ## the cells -/

theorem getD_eq' {α : Type} (l : List α) (i : Nat) (d : α) : l.getD i d = (l[i]?).getD d := by
  simp [List.getD_eq_getElem?_getD]

theorem cellAt_def (s : State) (id : Cid) : cellAt s id = ((s.tabs[id.1]?).getD [])[id.2]?.getD .empty := by
  unfold cellAt Flurry.Proto.BinGN.cellAt
  rw [getD_eq', getD_eq']

theorem putCell_tabs (s : State) (g j : Nat) (c : Cell) :
    (putCell s g j c).tabs = s.tabs.modify g (fun row => row.set j c) := rfl

/-- a store into cell `(g, j)` changes no other cell -/
theorem cellAt_putCell_ne (s : State) {g j : Nat} (c : Cell) {id : Cid} (h : id ≠ (g, j)) :
    cellAt (putCell s g j c) id = cellAt s id := by
  obtain ⟨g', j'⟩ := id
  rw [cellAt_def, cellAt_def, putCell_tabs, List.getElem?_modify]
  by_cases hg : g = g'
  · subst hg
    have hj : j ≠ j' := fun e => h (by rw [e])
    cases hr : s.tabs[g]? with
    | none => simp
    | some row => simp [List.getElem?_set_ne hj]
  · simp [hg]

/-- a store into an existing cell -/
theorem cellAt_putCell_self (s : State) {g j : Nat} {row : List Cell} (c : Cell)
    (hr : s.tabs[g]? = some row) (hj : j < row.length) : cellAt (putCell s g j c) (g, j) = c := by
  rw [cellAt_def, putCell_tabs, List.getElem?_modify, hr]
  simp [List.getElem?_set_self hj]

/-- a store into a cell that does not exist is a no-op -/
theorem cellAt_putCell_self_or (s : State) (g j : Nat) (c : Cell) :
    cellAt (putCell s g j c) (g, j) = c ∨ cellAt (putCell s g j c) (g, j) = cellAt s (g, j) := by
  rw [cellAt_def, cellAt_def, putCell_tabs, List.getElem?_modify]
  cases hr : s.tabs[g]? with
  | none => right; simp
  | some row =>
    simp only [if_true, Option.getD_some]
    by_cases hj : j < row.length
    · left; simp [List.getElem?_set_self hj]
    · right
      rw [List.getElem?_eq_none (by simp; omega), List.getElem?_eq_none (by omega)]

theorem cellAt_putCell (s : State) {g j : Nat} {row : List Cell} (c : Cell)
    (hr : s.tabs[g]? = some row) (hj : j < row.length) (id : Cid) :
    cellAt (putCell s g j c) id = if id = (g, j) then c else cellAt s id := by
  by_cases h : id = (g, j)
  · rw [if_pos h, h]; exact cellAt_putCell_self s c hr hj
  · rw [if_neg h]; exact cellAt_putCell_ne s c h

theorem two_pow_pos' (g : Nat) : 0 < 2 ^ g := Nat.pos_of_ne_zero (by simp)

theorem mod_lt_pow' (k g : Nat) : k % 2 ^ g < 2 ^ g := Nat.mod_lt _ (two_pow_pos' g)

theorem setCell_eq (s : State) (g k : Nat) (c : Cell) : setCell s g k c = putCell s g (k % 2 ^ g) c := rfl

theorem cellAt_setCell_ne (s : State) {g : Nat} (k : Nat) (c : Cell) {id : Cid} (h : id ≠ idOf g k) :
    cellAt (setCell s g k c) id = cellAt s id :=
  cellAt_putCell_ne s c h

/-- the BinG statement, for a generation that exists -/
theorem cellAt_setCell (s : State) {g : Nat} {row : List Cell} (k : Nat) (c : Cell)
    (hr : s.tabs[g]? = some row) (hlen : row.length = 2 ^ g) (id : Cid) :
    cellAt (setCell s g k c) id = if id = idOf g k then c else cellAt s id :=
  cellAt_putCell s c hr (by rw [hlen]; exact mod_lt_pow' k g) id

theorem setCell_heap (s : State) (tab : Nat) (k : Nat) (c : Cell) : (setCell s tab k c).heap = s.heap := rfl

theorem setCell_tbins (s : State) (tab : Nat) (k : Nat) (c : Cell) : (setCell s tab k c).tbins = s.tbins := rfl

theorem setCell_threads (s : State) (tab : Nat) (k : Nat) (c : Cell) : (setCell s tab k c).threads = s.threads := rfl

theorem setCell_cur (s : State) (tab : Nat) (k : Nat) (c : Cell) : (setCell s tab k c).cur = s.cur := rfl

theorem setCell_resizing (s : State) (tab : Nat) (k : Nat) (c : Cell) : (setCell s tab k c).resizing = s.resizing := rfl

theorem putCell_heap (s : State) (g j : Nat) (c : Cell) : (putCell s g j c).heap = s.heap := rfl

theorem putCell_tbins (s : State) (g j : Nat) (c : Cell) : (putCell s g j c).tbins = s.tbins := rfl

theorem putCell_threads (s : State) (g j : Nat) (c : Cell) : (putCell s g j c).threads = s.threads := rfl

theorem putCell_cur (s : State) (g j : Nat) (c : Cell) : (putCell s g j c).cur = s.cur := rfl

theorem putCell_resizing (s : State) (g j : Nat) (c : Cell) : (putCell s g j c).resizing = s.resizing := rfl

/-- the generations that exist -/
theorem XInv.row_of_lt {s : State} (X : XInv s) {g : Nat} (hg : g < s.tabs.length) :
    ∃ row, s.tabs[g]? = some row ∧ row.length = 2 ^ g := by
  refine ⟨s.tabs[g], List.getElem?_eq_getElem hg, X.rows g _ (List.getElem?_eq_getElem hg)⟩

theorem XInv.gen_lt {s : State} (X : XInv s) {g : Nat} (hg : g ≤ s.cur) : g < s.tabs.length := by
  have := X.len; omega

theorem XInv.gen_lt_resz {s : State} (X : XInv s) (hr : s.resizing = true) {g : Nat} (hg : g ≤ s.cur + 1) :
    g < s.tabs.length := by
  have := X.len; rw [hr] at this; simp only [if_true] at this; omega

theorem XInv.cellAt_putCell {s : State} (X : XInv s) {g j : Nat} (hg : g < s.tabs.length) (hj : j < 2 ^ g)
    (c : Cell) (id : Cid) : cellAt (putCell s g j c) id = if id = (g, j) then c else cellAt s id := by
  obtain ⟨row, hr, hlen⟩ := X.row_of_lt hg
  exact BinGNP.cellAt_putCell s c hr (by rw [hlen]; exact hj) id

theorem XInv.cellAt_putCell_self {s : State} (X : XInv s) {g j : Nat} (hg : g < s.tabs.length) (hj : j < 2 ^ g)
    (c : Cell) : cellAt (putCell s g j c) (g, j) = c := by
  rw [X.cellAt_putCell hg hj, if_pos rfl]

/-- `cellAt_setCell` of BinG, for a generation that exists -/
theorem XInv.cellAt_setCell {s : State} (X : XInv s) {g : Nat} (hg : g < s.tabs.length) (k : Nat) (c : Cell)
    (id : Cid) : cellAt (setCell s g k c) id = if id = idOf g k then c else cellAt s id :=
  X.cellAt_putCell hg (mod_lt_pow' k g) c id

/-- a cell that does not exist reads as `empty` -/
theorem cellAt_oob {s : State} {g : Nat} (hg : s.tabs.length ≤ g) (j : Nat) : cellAt s (g, j) = .empty := by
  rw [cellAt_def, List.getElem?_eq_none hg]; rfl

/-! ## following the forwarding markers -/

theorem liveFrom_of_not_moved (s : State) (k fuel g : Nat) (h : cellOf s g k ≠ .moved) :
    liveFrom s k fuel g = cellOf s g k := by
  cases fuel with
  | zero => rfl
  | succ f =>
    unfold liveFrom
    split
    · rename_i hm; exact absurd hm h
    · rfl

theorem liveFrom_of_moved (s : State) (k f g : Nat) (h : cellOf s g k = .moved) :
    liveFrom s k (f + 1) g = liveFrom s k f (g + 1) := by
  conv => lhs; unfold liveFrom
  rw [h]

/-- a lookup that starts now follows at most one forwarding marker -/
theorem liveCell_eq {s : State} (X : XInv s) (k : Nat) : liveCell s k = cellAt s (liveId s k) := by
  unfold liveCell liveId
  obtain ⟨f, hf⟩ : ∃ f, s.tabs.length = f + 1 := ⟨s.tabs.length - 1, by have := X.len; omega⟩
  rw [hf]
  by_cases hm : cellAt s (idOf s.cur k) = .moved
  · rw [if_pos hm, liveFrom_of_moved s k f s.cur hm]
    exact liveFrom_of_not_moved s k f _ (X.newNotMoved _)
  · rw [if_neg hm]
    exact liveFrom_of_not_moved s k _ _ hm

theorem liveFrom_congr {s s' : State} (h : s'.tabs = s.tabs) (k : Nat) :
    ∀ (f g : Nat), liveFrom s' k f g = liveFrom s k f g := by
  have hc : ∀ g, cellOf s' g k = cellOf s g k := fun g => by
    unfold cellOf Flurry.Proto.BinGN.cellAt; rw [h]
  intro f
  induction f with
  | zero => intro g; exact hc g
  | succ f ih =>
    intro g
    unfold liveFrom
    rw [hc g]
    split
    · exact ih _
    · rfl

theorem liveCell_congr {s s' : State} (h : s'.tabs = s.tabs) (hc : s'.cur = s.cur) (k : Nat) :
    liveCell s' k = liveCell s k := by
  unfold liveCell
  rw [h, hc]
  exact liveFrom_congr h k _ _

theorem liveId_congr {s s' : State} (h : s'.tabs = s.tabs) (hc : s'.cur = s.cur) (k : Nat) :
    liveId s' k = liveId s k := by
  unfold liveId cellAt Flurry.Proto.BinGN.cellAt
  rw [h, hc]

/-! ## the locks -/

/-- **validated holders of one cell are unique** -/
theorem LInv.valid_unique {s : State} (L : LInv s) {t t' : Nat} {l l' : Local}
    (hl : s.threads[t]? = some l) (hl' : s.threads[t']? = some l')
    (h : validated l.pc = true) (h' : validated l'.pc = true) (hc : cidOf s l = cidOf s l') : t = t' := by
  rcases validated_cases h with ⟨a, hv⟩ | ⟨b, hw⟩
  · have hcell := L.vL t l a hl hv
    rcases validated_cases h' with ⟨a', hv'⟩ | ⟨b', hw'⟩
    · have hcell' := L.vL t' l' a' hl' hv'
      rw [← hc, hcell] at hcell'; cases hcell'
      have e1 := (L.lk t l a hl).1 (holdsLock_of_validL hv)
      have e2 := (L.lk t' l' a hl').1 (holdsLock_of_validL hv')
      rw [e1] at e2; exact Option.some.inj e2
    · have hcell' := L.vT t' l' b' hl' hw'
      rw [← hc, hcell] at hcell'; cases hcell'
  · have hcell := L.vT t l b hl hw
    rcases validated_cases h' with ⟨a', hv'⟩ | ⟨b', hw'⟩
    · have hcell' := L.vL t' l' a' hl' hv'
      rw [← hc, hcell] at hcell'; cases hcell'
    · have hcell' := L.vT t' l' b' hl' hw'
      rw [← hc, hcell] at hcell'; cases hcell'
      have e1 := (L.mx t l b hl).1 (holdsMutex_of_validT hw)
      have e2 := (L.mx t' l' b hl').1 (holdsMutex_of_validT hw')
      rw [e1] at e2; exact Option.some.inj e2

theorem LInv.reader_pos {s : State} (L : LInv s) {t : Nat} {l : Local} {b : Nat} (hl : s.threads[t]? = some l)
    (h : holdsRead l.pc = some b) : 1 ≤ (binAt s.tbins b).readers := by
  have hb := (L.refOK t l b hl (binRef_of_holdsRead h)).1
  rw [L.rd b hb]
  exact cnt_pos_of hl (by simp [h])

/-- a locked node is a node of the heap -/
theorem LInv.lock_lt {s : State} (L : LInv s) {t : Nat} {l : Local} {h : Nat} (hl : s.threads[t]? = some l)
    (hh : holdsLock l.pc = some h) : h < s.heap.length := by
  have hlk := (L.lk t l h hl).1 hh
  apply Classical.byContradiction
  intro hn
  rw [Flurry.Proto.BinK.nodeAt_ge (by omega)] at hlk
  cases hlk

/-- the `TreeBin` whose mutex is held is a `TreeBin` of the table -/
theorem LInv.mutex_lt {s : State} (L : LInv s) {t : Nat} {l : Local} {b : Nat} (hl : s.threads[t]? = some l)
    (hh : holdsMutex l.pc = some b) : b < s.tbins.length :=
  (L.refOK t l b hl (binRef_of_holdsMutex hh)).1

/-! ## chains from an invalid start -/

theorem chainOf_oob {heap : List NodeS} {h : Nat} (hh : heap.length ≤ h) : chainOf heap (some h) = [] := by
  unfold chainOf
  cases hlen : heap.length with
  | zero => rfl
  | succ n =>
    unfold chainFrom
    have : heap[h]? = none := List.getElem?_eq_none (by omega)
    rw [this]

/-- `chainOf_congr` without validity of the start -/
theorem chainOf_congr' {heap heap' : List NodeS} (hok : NextOK heap) (e : HeapEqv heap heap') (st : Option Nat) :
    chainOf heap' st = chainOf heap st := by
  cases st with
  | none => rw [Flurry.Proto.BinK.chainOf_none, Flurry.Proto.BinK.chainOf_none]
  | some h =>
    by_cases hh : h < heap.length
    · exact Flurry.Proto.BinK.chainOf_congr hok e _ (fun i hi => by cases hi; exact hh)
    · rw [chainOf_oob (Nat.le_of_not_lt hh), chainOf_oob (by rw [e.1]; exact Nat.le_of_not_lt hh)]

/-! ## transitions that touch lock words and synchronisation words only -/

structure Quiet (s s' : State) : Prop where
  tabs : s'.tabs = s.tabs
  cur : s'.cur = s.cur
  heap : Flurry.Proto.BinK.HeapEqv s.heap s'.heap
  tlen : s'.tbins.length = s.tbins.length
  first : ∀ b, (binAt s'.tbins b).first = (binAt s.tbins b).first

theorem Quiet.cellAt_eq {s s' : State} (q : Quiet s s') (id : Cid) : cellAt s' id = cellAt s id := by
  unfold cellAt Flurry.Proto.BinGN.cellAt
  rw [q.tabs]

theorem Quiet.cellOf_eq {s s' : State} (q : Quiet s s') (tab : Nat) (k : Nat) : cellOf s' tab k = cellOf s tab k := by
  rw [BinGNP.cellOf_eq, BinGNP.cellOf_eq, q.cellAt_eq]

theorem Quiet.startOf_eq {s s' : State} (q : Quiet s s') (c : Cell) : startOf s'.tbins c = startOf s.tbins c := by
  cases c with
  | empty => rfl
  | list h => rfl
  | tree b => exact q.first b
  | moved => rfl

theorem Quiet.key_eq {s s' : State} (q : Quiet s s') (j : Nat) : (nodeAt s'.heap j).key = (nodeAt s.heap j).key :=
  (q.heap.2 j).1

theorem Quiet.val_eq {s s' : State} (q : Quiet s s') (j : Nat) : (nodeAt s'.heap j).val = (nodeAt s.heap j).val :=
  (q.heap.2 j).2.1

theorem Quiet.next_eq {s s' : State} (q : Quiet s s') (j : Nat) : (nodeAt s'.heap j).next = (nodeAt s.heap j).next :=
  (q.heap.2 j).2.2.1

theorem Quiet.inTree_eq {s s' : State} (q : Quiet s s') (j : Nat) :
    (nodeAt s'.heap j).inTree = (nodeAt s.heap j).inTree :=
  (q.heap.2 j).2.2.2.1

theorem Quiet.owner_eq {s s' : State} (q : Quiet s s') (j : Nat) :
    (nodeAt s'.heap j).owner = (nodeAt s.heap j).owner :=
  (q.heap.2 j).2.2.2.2

theorem Quiet.hlen {s s' : State} (q : Quiet s s') : s'.heap.length = s.heap.length := q.heap.1

/-- the chain from any start -/
theorem Quiet.chainOf_eq {s s' : State} (q : Quiet s s') (H : HInv s) (st : Option Nat) :
    chainOf s'.heap st = chainOf s.heap st :=
  chainOf_congr' H.nextOK q.heap st

/-- the list of any structure (no validity of its start is needed) -/
theorem Quiet.chainC_eq {s s' : State} (q : Quiet s s') (H : HInv s) (c : Cell) : chainC s' c = chainC s c := by
  unfold chainC
  rw [q.startOf_eq, q.chainOf_eq H]

theorem Quiet.chainC_cell {s s' : State} (q : Quiet s s') (H : HInv s) (id : Cid) :
    chainC s' (cellAt s' id) = chainC s (cellAt s id) := by
  rw [q.cellAt_eq, q.chainC_eq H]

theorem Quiet.chainOfBin_eq {s s' : State} (q : Quiet s s') (H : HInv s) (b : Nat) :
    chainOfBin s' b = chainOfBin s b := by
  rw [BinGNP.chainOfBin_eq, BinGNP.chainOfBin_eq]; exact q.chainC_eq H _

theorem Quiet.chainC_list {s s' : State} (q : Quiet s s') (H : HInv s) (h : Nat) :
    chainC s' (.list h) = chainC s (.list h) := q.chainC_eq H _

theorem Quiet.treeOf_iff {s s' : State} (q : Quiet s s') (c : Cell) (j : Nat) : treeOf s' c j ↔ treeOf s c j := by
  unfold treeOf
  rw [q.hlen, q.inTree_eq, q.owner_eq]

theorem Quiet.cinv {s s' : State} (q : Quiet s s') (H : HInv s) {c : Cell}
    (C : CInv s.heap (startOf s.tbins c) (treeOf s c)) : CInv s'.heap (startOf s'.tbins c) (treeOf s' c) := by
  refine ⟨H.nextOK.congr q.heap, ?_, ?_⟩
  · intro h hh
    rw [q.startOf_eq] at hh
    rw [q.hlen]; exact C.startOK h hh
  · intro a b ha hb hab
    rw [q.startOf_eq, q.chainOf_eq H] at ha hb
    rw [q.key_eq, q.key_eq] at hab
    refine C.keysDistinct a b ?_ ?_ hab
    · rcases ha with h | h
      · exact Or.inl h
      · exact Or.inr ((q.treeOf_iff c a).1 h)
    · rcases hb with h | h
      · exact Or.inl h
      · exact Or.inr ((q.treeOf_iff c b).1 h)

/-- `Reusing` after a step of thread `t` that keeps its re-using program counter -/
theorem reusing_of_set {s s' : State} {t : Nat} {l l' : Local}
    (hthr : s'.threads = s.threads.set t l') (hl : s.threads[t]? = some l)
    (hpc : ∀ b j0, ((∃ hi, l.pc = .xStoreHigh j0 (.inr b) hi) ∨ l.pc = .xStoreMoved j0 (.inr b)) →
      ((∃ hi, l'.pc = .xStoreHigh j0 (.inr b) hi) ∨ l'.pc = .xStoreMoved j0 (.inr b))) :
    ∀ b j0, Reusing s b j0 → Reusing s' b j0 := by
  rintro b j0 ⟨t1, l1, h1, hr⟩
  by_cases ht : t1 = t
  · subst ht
    rw [hl] at h1; cases h1
    exact ⟨t1, l', by rw [hthr]; exact get_set_self hl, hpc b j0 hr⟩
  · exact ⟨t1, l1, by rw [hthr, get_set_ne ht]; exact h1, hr⟩

/-- `Reusing` after a step of a thread that is not at a store of the transfer -/
theorem reusing_of_set_pc {s s' : State} {t : Nat} {l l' : Local}
    (hthr : s'.threads = s.threads.set t l') (hl : s.threads[t]? = some l)
    (hpc : (∀ j u hi, l.pc ≠ .xStoreHigh j u hi) ∧ (∀ j u, l.pc ≠ .xStoreMoved j u)) :
    ∀ b j0, Reusing s b j0 → Reusing s' b j0 := by
  refine reusing_of_set hthr hl ?_
  rintro b j0 (⟨hi, h⟩ | h)
  · exact absurd h (hpc.1 _ _ _)
  · exact absurd h (hpc.2 _ _)

theorem reusing_of_threads {s s' : State} (hthr : s'.threads = s.threads) :
    ∀ b j0, Reusing s b j0 → Reusing s' b j0 := by
  rintro b j0 ⟨t1, l1, h1, hr⟩
  exact ⟨t1, l1, by rw [hthr]; exact h1, hr⟩

theorem Quiet.hinv {s s' : State} (q : Quiet s s') (H : HInv s) (hcur : s'.cur = s.cur)
    (hre : ∀ b j0, Reusing s b j0 → Reusing s' b j0) : HInv s' := by
  refine ⟨?_, ?_, ?_, ?_, ?_, ?_, ?_⟩
  · intro id
    rw [q.cellAt_eq]
    exact q.cinv H (H.cinv id)
  · intro j b hj
    rw [q.owner_eq] at hj
    rw [q.tlen]; exact H.ownerOK j b hj
  · intro b h hh
    rw [q.first] at hh
    rw [q.hlen]; exact H.firstOK b h hh
  · intro id b hb
    rw [q.cellAt_eq] at hb
    rw [q.tlen]; exact H.cellOK id b hb
  · intro id j hj
    rw [q.chainC_cell H] at hj
    rw [q.owner_eq, q.cellAt_eq]
    exact H.chainOwner id j hj
  · intro id j hj
    rw [q.chainC_cell H, q.cellAt_eq, q.treeOf_iff] at hj
    rw [q.key_eq]
    exact H.side id j hj
  · intro id id' b h1 h2
    rw [q.cellAt_eq] at h1 h2
    rcases H.binsDistinct id id' b h1 h2 with h | ⟨j0, hr, h⟩
    · exact Or.inl h
    · exact Or.inr ⟨j0, hre b j0 hr, by rw [hcur]; exact h⟩

/-- only a *fresh* `TreeBin` of the structure (`old ≠ .tree b`) has to be unchanged -/
theorem Quiet.copyOK' {s s' : State} (q : Quiet s s') (H : HInv s) {old : Cell} {sel : Nat → Bool} {C : Cell}
    (hb : ∀ b, C = .tree b → old ≠ .tree b → binAt s'.tbins b = binAt s.tbins b)
    (h : CopyOK s old sel C) : CopyOK s' old sel C := by
  have eC : chainC s' C = chainC s C := q.chainC_eq H C
  have eO : chainC s' old = chainC s old := q.chainC_eq H old
  have hk : ∀ j, (nodeAt s'.heap j).key = (nodeAt s.heap j).key := q.key_eq
  have hv : ∀ j, (nodeAt s'.heap j).val = (nodeAt s.heap j).val := q.val_eq
  have ho : ∀ j, (nodeAt s'.heap j).owner = (nodeAt s.heap j).owner := q.owner_eq
  have hi : ∀ j, (nodeAt s'.heap j).inTree = (nodeAt s.heap j).inTree := q.inTree_eq
  have ht : ∀ j, treeOf s' C j ↔ treeOf s C j := q.treeOf_iff C
  refine ⟨h.notMoved, q.cinv H h.cinv, ?_, ?_, ?_, ?_, ?_, ?_, ?_, ?_⟩
  · intro b hb'
    rw [q.tlen]; exact h.cellOK b hb'
  · intro j hj
    rw [eC] at hj
    rw [ho]; exact h.chainOwner j hj
  · intro j hj
    rw [eC, ht] at hj
    rw [hk]; exact h.selOK j hj
  · intro j hj hjo
    rw [eC] at hj
    rw [eO] at hjo
    obtain ⟨i, hi1, hi2, hi3, hi4⟩ := h.src j hj hjo
    refine ⟨i, by rw [eO]; exact hi1, by rw [hk, hk]; exact hi2, by rw [hv, hv]; exact hi3, ?_⟩
    intro r hr hrc
    rw [eO] at hr ⊢
    rw [eC] at hrc
    exact hi4 r hr hrc
  · intro i hi1 hsel
    rw [eO] at hi1
    rw [hk] at hsel
    obtain ⟨j, hj1, hj2, hj3, hj4⟩ := h.cover i hi1 hsel
    refine ⟨j, by rw [eC]; exact hj1, by rw [hk, hk]; exact hj2, by rw [hv, hv]; exact hj3, ?_⟩
    rw [eO]; exact hj4
  · intro r hr hrc i hi1 hsub
    rw [eO] at hr hi1 hsub
    rw [eC] at hrc ⊢
    exact h.suffix r hr hrc i hi1 hsub
  · intro i c hi1 hc hsub
    rw [eO] at hi1 hc ⊢
    rw [eC] at hsub
    exact h.order i c hi1 hc hsub
  · intro b hCb hob
    obtain ⟨f1, f2, f3⟩ := h.fresh b hCb hob
    refine ⟨by rw [hb b hCb hob]; exact f1, ?_, ?_⟩
    · intro j hj
      rw [q.hlen] at hj
      rw [ho, eC]; exact f2 j hj
    · intro j hj
      rw [eC] at hj
      rw [hi]; exact f3 j hj

theorem Quiet.copyOK {s s' : State} (q : Quiet s s') (H : HInv s) {old : Cell} {sel : Nat → Bool} {C : Cell}
    (hb : ∀ b, C = .tree b → binAt s'.tbins b = binAt s.tbins b)
    (h : CopyOK s old sel C) : CopyOK s' old sel C :=
  q.copyOK' H (fun b hC _ => hb b hC) h

/-- only the *fresh* `TreeBin`s of the plan (not the re-used old one) have to be unchanged -/
theorem Quiet.plan' {s s' : State} (q : Quiet s s') (H : HInv s) {j : Nat} {lo hi : Cell}
    (hlo : ∀ b, lo = .tree b → cellAt s (s.cur, j) ≠ .tree b → binAt s'.tbins b = binAt s.tbins b)
    (hhi : ∀ b, hi = .tree b → cellAt s (s.cur, j) ≠ .tree b → binAt s'.tbins b = binAt s.tbins b)
    (h : Plan s j lo hi) : Plan s' j lo hi := by
  refine ⟨?_, ?_, h.distinct⟩
  · rw [q.cellAt_eq, q.cur]; exact q.copyOK' H hlo h.low
  · rw [q.cellAt_eq, q.cur]; exact q.copyOK' H hhi h.high

theorem Quiet.plan {s s' : State} (q : Quiet s s') (H : HInv s) {j : Nat} {lo hi : Cell}
    (hlo : ∀ b, lo = .tree b → binAt s'.tbins b = binAt s.tbins b)
    (hhi : ∀ b, hi = .tree b → binAt s'.tbins b = binAt s.tbins b)
    (h : Plan s j lo hi) : Plan s' j lo hi :=
  q.plan' H (fun b hC _ => hlo b hC) (fun b hC _ => hhi b hC) h

theorem Quiet.liveCell_eq {s s' : State} (q : Quiet s s') (hcur : s'.cur = s.cur) (k : Nat) :
    liveCell s' k = liveCell s k :=
  liveCell_congr q.tabs hcur k

theorem Quiet.liveId_eq {s s' : State} (q : Quiet s s') (k : Nat) : liveId s' k = liveId s k :=
  liveId_congr q.tabs q.cur k

theorem Quiet.LC_eq {s s' : State} (q : Quiet s s') (H : HInv s) (hcur : s'.cur = s.cur) (k : Nat) :
    LC s' k = LC s k := by
  unfold LC
  rw [q.liveCell_eq hcur, q.chainC_eq H]

theorem Quiet.abs_eq {s s' : State} (q : Quiet s s') (H : HInv s) (hcur : s'.cur = s.cur) (k : Nat) :
    absOf s' k = absOf s k := by
  rw [BinGNP.absOf_eq, BinGNP.absOf_eq, q.LC_eq H hcur]
  unfold absL
  have : (fun i => (nodeAt s'.heap i).key == k) = (fun i => (nodeAt s.heap i).key == k) := by
    funext i; rw [q.key_eq]
  rw [this]
  cases (LC s k).find? (fun i => (nodeAt s.heap i).key == k) with
  | none => rfl
  | some i => simp only [Option.map_some]; rw [q.val_eq]

theorem treeFind_def (s : State) (b k : Nat) :
    treeFind s b k = (List.range s.heap.length).find? fun i =>
      (nodeAt s.heap i).owner == some b && (nodeAt s.heap i).inTree && (nodeAt s.heap i).key == k := rfl

theorem Quiet.find_eq {s s' : State} (q : Quiet s s') (b k : Nat) : treeFind s' b k = treeFind s b k := by
  rw [treeFind_def, treeFind_def, q.hlen]
  congr 1
  funext i
  rw [q.key_eq, q.inTree_eq, q.owner_eq]

theorem Walk.quiet {s s' : State} (q : Quiet s s') (H : HInv s) {h key : Nat} {pred cur : Option Nat}
    (w : Walk s h key pred cur) : Walk s' h key pred cur := by
  obtain ⟨l1, l2, hch, hcur, hpred, hkeys⟩ := w
  refine ⟨l1, l2, by rw [q.chainOf_eq H, hch], hcur, hpred, ?_⟩
  intro j hj
  rw [q.key_eq]
  exact hkeys j hj

theorem FreshOK.quiet {s s' : State} (q : Quiet s s') {b : Nat} {p : Pending} (h : FreshOK s b p) : FreshOK s' b p := by
  intro j hj ho hin
  rw [q.hlen] at hj
  rw [q.owner_eq] at ho
  rw [q.inTree_eq] at hin
  rw [q.key_eq]
  exact h j hj ho hin

theorem RemOK.quiet {s s' : State} (q : Quiet s s') (H : HInv s) {b : Nat} {p : Pending} {i : Nat} {res : KRes}
    (h : RemOK s b p i res) : RemOK s' b p i res := by
  obtain ⟨h1, h2, h3, h4⟩ := h
  exact ⟨by rw [q.chainOfBin_eq H]; exact h1, by rw [q.inTree_eq]; exact h2,
    by rw [q.key_eq]; exact h3, by rw [q.val_eq]; exact h4⟩

theorem PcInv.quiet {s s' : State} (q : Quiet s s') (H : HInv s) {p : Pending} {pc : Pc} (h : PcInv s p pc) :
    PcInv s' p pc := by
  cases pc <;> try exact trivial
  case rNode cur =>
    cases cur with
    | none => trivial
    | some c => simp only [PcInv] at h ⊢; rw [q.hlen]; exact h
  case rState b cur =>
    cases cur with
    | none => trivial
    | some c => simp only [PcInv] at h ⊢; rw [q.hlen]; exact h
  case rLin b c => simp only [PcInv] at h ⊢; rw [q.hlen]; exact h
  case rCas b c r => simp only [PcInv] at h ⊢; rw [q.hlen]; exact h
  case lNode cur =>
    cases cur with
    | none => trivial
    | some c => simp only [PcInv] at h ⊢; rw [q.hlen]; exact h
  case rVal i => exact h
  case wFind tab h0 pred cur => exact Walk.quiet q H h
  case wStore tab h0 pred hit hnext =>
    simp only [PcInv] at h ⊢
    refine ⟨Walk.quiet q H h.1, ?_⟩
    intro i hi
    rw [q.key_eq, q.next_eq]
    exact h.2 i hi
  case tVal tab b i v res =>
    simp only [PcInv] at h ⊢
    rw [q.chainOfBin_eq H, q.key_eq, q.val_eq]
    exact h
  case lrTry tab b k res =>
    cases k with
    | insert => exact FreshOK.quiet q h
    | remove i => exact RemOK.quiet q H h
  case lrLoop tab b k res =>
    cases k with
    | insert => exact FreshOK.quiet q h
    | remove i => exact RemOK.quiet q H h
  case tPrependLocked tab b => exact FreshOK.quiet q h
  case tTreeLinkLocked tab b x =>
    simp only [PcInv] at h ⊢
    rw [q.chainOfBin_eq H, q.key_eq, q.inTree_eq]
    exact ⟨h.1, h.2.1, h.2.2.1, FreshOK.quiet q h.2.2.2⟩
  case tUnlinkLocked tab b i res => exact RemOK.quiet q H h
  case tRestructure tab b i res =>
    simp only [PcInv] at h ⊢
    rw [q.chainOfBin_eq H, q.hlen, q.inTree_eq, q.owner_eq]
    exact h

/-- the private `TreeBin` of a treeify -/
theorem KInv.quiet {s s' : State} (q : Quiet s s') (H : HInv s) {pc : Pc}
    (hb : ∀ tab k h b, pc = .kStore tab k h b → binAt s'.tbins b = binAt s.tbins b)
    (h : KInv s pc) : KInv s' pc := by
  cases pc <;> try exact trivial
  case kStore tab k h0 b =>
    simp only [KInv] at h ⊢
    refine ⟨q.copyOK H (fun b' hb' => by cases hb'; exact hb tab k h0 b rfl) h.1, ?_⟩
    intro id
    rw [q.cellAt_eq]; exact h.2 id

/-- the `pend` list of a program counter depends on the cells only -/
theorem Quiet.pend_eq {s s' : State} (q : Quiet s s') (pc : Pc) : pend s' pc = pend s pc := by
  cases pc <;> simp only [pend, q.cellAt_eq, q.cur]

/-- private nodes of a treeify after a step of thread `t` that does not enter or leave `kStore` -/
theorem Quiet.privK_iff {s s' : State} {t : Nat} {l l' : Local} (q : Quiet s s')
    (hthr : s'.threads = s.threads.set t l') (hl : s.threads[t]? = some l)
    (hk : ∀ tab k h b, l'.pc = .kStore tab k h b ↔ l.pc = .kStore tab k h b) (j : Nat) :
    PrivK s' j ↔ PrivK s j := by
  unfold PrivK
  constructor
  · rintro ⟨t1, l1, tab, k, h, b, h1, hpc, ho⟩
    rw [q.owner_eq] at ho
    rw [hthr] at h1
    rcases get_set h1 with ⟨rfl, rfl⟩ | ⟨_, h1⟩
    · exact ⟨t1, l, tab, k, h, b, hl, (hk tab k h b).1 hpc, ho⟩
    · exact ⟨t1, l1, tab, k, h, b, h1, hpc, ho⟩
  · rintro ⟨t1, l1, tab, k, h, b, h1, hpc, ho⟩
    rw [← q.owner_eq] at ho
    by_cases ht : t1 = t
    · subst ht
      rw [hl] at h1; cases h1
      exact ⟨t1, l', tab, k, h, b, by rw [hthr]; exact get_set_self hl, (hk tab k h b).2 hpc, ho⟩
    · exact ⟨t1, l1, tab, k, h, b, by rw [hthr, get_set_ne ht]; exact h1, hpc, ho⟩

/-- private nodes of the transfer after a step of thread `t` that keeps its `pend` list and its cell -/
theorem Quiet.privX_iff {s s' : State} {t : Nat} {l l' : Local} (q : Quiet s s') (H : HInv s)
    (hthr : s'.threads = s.threads.set t l') (hl : s.threads[t]? = some l)
    (hpend : pend s' l'.pc = pend s l.pc) (hx : xPc l'.pc = xPc l.pc) (hxi : xIdx l'.pc = xIdx l.pc) (j : Nat) :
    PrivX s' j ↔ PrivX s j := by
  unfold PrivX
  constructor
  · rintro ⟨t1, l1, C, h1, hx1, hC, hj, hn⟩
    rw [q.chainC_eq H] at hj
    have hn' : ∀ j0, xIdx l1.pc = some j0 → j ∉ chainC s (cellAt s (s.cur, j0)) := by
      intro j0 h0
      have := hn j0 h0
      rw [q.cur, q.chainC_cell H] at this
      exact this
    rw [hthr] at h1
    rcases get_set h1 with ⟨rfl, rfl⟩ | ⟨_, h1⟩
    · exact ⟨t1, l, C, hl, hx ▸ hx1, hpend ▸ hC, hj, hxi ▸ hn'⟩
    · exact ⟨t1, l1, C, h1, hx1, q.pend_eq _ ▸ hC, hj, hn'⟩
  · rintro ⟨t1, l1, C, h1, hx1, hC, hj, hn⟩
    rw [← q.chainC_eq H] at hj
    have hn' : ∀ j0, xIdx l1.pc = some j0 → j ∉ chainC s' (cellAt s' (s'.cur, j0)) := by
      intro j0 h0
      rw [q.cur, q.chainC_cell H]
      exact hn j0 h0
    by_cases ht : t1 = t
    · subst ht
      rw [hl] at h1; cases h1
      exact ⟨t1, l', C, by rw [hthr]; exact get_set_self hl, hx ▸ hx1, hpend ▸ hC, hj, hxi ▸ hn'⟩
    · exact ⟨t1, l1, C, by rw [hthr, get_set_ne ht]; exact h1, hx1, by rw [q.pend_eq]; exact hC, hj, hn'⟩

/-- nodes that may still be written or linked: unchanged by a quiet step of thread `t` that keeps
its `pend` list and its cell and does not enter or leave `kStore` / the resize -/
theorem Quiet.used_iff {s s' : State} {t : Nat} {l l' : Local} (q : Quiet s s') (H : HInv s)
    (hthr : s'.threads = s.threads.set t l') (hl : s.threads[t]? = some l)
    (hpend : pend s' l'.pc = pend s l.pc) (hx : xPc l'.pc = xPc l.pc) (hxi : xIdx l'.pc = xIdx l.pc)
    (hk : ∀ tab k h b, l'.pc = .kStore tab k h b ↔ l.pc = .kStore tab k h b) (j : Nat) :
    Used s' j ↔ Used s j := by
  unfold Used
  rw [q.privK_iff hthr hl hk, q.privX_iff H hthr hl hpend hx hxi]
  constructor
  · rintro (⟨id, hj⟩ | h)
    · exact Or.inl ⟨id, by rw [q.chainC_cell H] at hj; exact hj⟩
    · exact Or.inr h
  · rintro (⟨id, hj⟩ | h)
    · exact Or.inl ⟨id, by rw [q.chainC_cell H]; exact hj⟩
    · exact Or.inr h

theorem Quiet.used_of {s s' : State} {t : Nat} {l l' : Local} (q : Quiet s s') (H : HInv s)
    (hthr : s'.threads = s.threads.set t l') (hl : s.threads[t]? = some l)
    (hpend : pend s' l'.pc = pend s l.pc) (hx : xPc l'.pc = xPc l.pc) (hxi : xIdx l'.pc = xIdx l.pc)
    (hk : ∀ tab k h b, l'.pc = .kStore tab k h b ↔ l.pc = .kStore tab k h b) :
    ∀ j, Used s' j → Used s j :=
  fun j => (q.used_iff H hthr hl hpend hx hxi hk j).1

end Flurry.Proto.BinGNP
