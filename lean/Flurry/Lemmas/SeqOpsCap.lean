import Flurry.Lemmas.SeqOpsBulk
/-! # O8: capacity — the table never shrinks, removals never grow it, insertions grow it only
at the threshold or on a crowded bin of a small table; plus: every operation keeps `Good` -/
namespace Flurry.Seq
open Flurry Flurry.Gen

/-- every operation — also one whose callback panics — leaves a `Good` state -/
theorem step_good {m : Map} (hg : Good m) (op : Op) : Good (step m op).1 := by
  cases op with
  | ins k ki v vi => exact put_good k ki v vi false hg
  | tryIns k ki v vi => exact put_good k ki v vi true hg
  | get k => exact hg
  | getKV k => exact hg
  | has k => exact hg
  | rm k => exact replaceNode_rm_good k none hg
  | rmEntry k => exact replaceNode_rm_good k none hg
  | cip k f => exact cip_good k f hg
  | retain force f =>
    obtain ⟨_, _, _, _, hp, _⟩ := retain_any force f hg
    exact hp.good
  | clear => exact clear_good hg
  | reserve n => exact reserve_good n hg
  | extend hint items => exact extend_good hint items hg
  | len => exact hg
  | isEmpty => exact hg

theorem step_hash {m : Map} (hg : Good m) (op : Op) : (step m op).1.hash = m.hash := by
  cases op with
  | ins k ki v vi => exact (put_spec k ki v vi false hg).1.hash
  | tryIns k ki v vi => exact (put_spec k ki v vi true hg).1.hash
  | get k => rfl
  | getKV k => rfl
  | has k => rfl
  | rm k => exact (replaceNode_rm_spec k none hg).1.hash
  | rmEntry k => exact (replaceNode_rm_spec k none hg).1.hash
  | cip k f => exact (cip_spec k f hg).1.hash
  | retain force f =>
    obtain ⟨_, _, _, _, hp, _⟩ := retain_any force f hg
    exact hp.hash
  | clear => exact clear_hash m
  | reserve n => exact reserve_hash n m
  | extend hint items =>
    exact (putAll_spec items (reserve_good _ hg)).2.2.1.trans (reserve_hash _ m)
  | len => rfl
  | isEmpty => rfl

/-- **O8 `never_shrinks`**: no operation shortens the table or lowers the resize counter -/
theorem step_never_shrinks {m : Map} (hg : Good m) (op : Op) :
    tableLen m ≤ tableLen (step m op).1 ∧ m.resizes ≤ (step m op).1.resizes := by
  cases op with
  | ins k ki v vi =>
    exact ⟨(put_spec k ki v vi false hg).1.len_le, (put_spec k ki v vi false hg).1.resizes_le⟩
  | tryIns k ki v vi =>
    exact ⟨(put_spec k ki v vi true hg).1.len_le, (put_spec k ki v vi true hg).1.resizes_le⟩
  | get k => exact ⟨Nat.le_refl _, Nat.le_refl _⟩
  | getKV k => exact ⟨Nat.le_refl _, Nat.le_refl _⟩
  | has k => exact ⟨Nat.le_refl _, Nat.le_refl _⟩
  | rm k =>
    exact ⟨(replaceNode_rm_spec k none hg).1.len_le, (replaceNode_rm_spec k none hg).1.resizes_le⟩
  | rmEntry k =>
    exact ⟨(replaceNode_rm_spec k none hg).1.len_le, (replaceNode_rm_spec k none hg).1.resizes_le⟩
  | cip k f => exact ⟨(cip_spec k f hg).1.len_le, (cip_spec k f hg).1.resizes_le⟩
  | retain force f =>
    obtain ⟨_, _, _, _, hp, _⟩ := retain_any force f hg
    exact ⟨Nat.le_of_eq hp.tableLen_eq.symm, Nat.le_of_eq hp.resizes_eq.symm⟩
  | clear => exact ⟨Nat.le_of_eq (clear_table_len m).symm, Nat.le_of_eq (clear_resizes m).symm⟩
  | reserve n =>
    exact ⟨(reserve_spec n hg.1 hg.2).2.2.2.1, (reserve_spec n hg.1 hg.2).2.2.2.2⟩
  | extend hint items =>
    obtain ⟨_, _, _, h4, h5⟩ := putAll_spec items (reserve_good
      (if len m == 0 then hint else (hint + 1) / 2) hg)
    obtain ⟨_, _, _, r4, r5⟩ := reserve_spec (if len m == 0 then hint else (hint + 1) / 2) hg.1 hg.2
    exact ⟨Nat.le_trans r4 h4, Nat.le_trans r5 h5⟩
  | len => exact ⟨Nat.le_refl _, Nat.le_refl _⟩
  | isEmpty => exact ⟨Nat.le_refl _, Nat.le_refl _⟩

/-- removal-class operations and reads -/
def Op.nonGrowing : Op → Bool
  | .rm _ | .rmEntry _ | .cip _ _ | .retain _ _ | .clear => true
  | .get _ | .getKV _ | .has _ | .len | .isEmpty => true
  | _ => false

theorem cip_resizes (k : Nat) (f : Nat → Nat → Nat → CbRes) {m : Map} (hg : Good m) :
    (computeIfPresent k f m).1.resizes = m.resizes := by
  cases ht : m.table with
  | none =>
    rw [cip_of_get_none f hg (get_of_table_none ht k), initTable_resizes]
  | some t =>
    exact ((cip_spec k f hg).1.noGrow (by rw [ht]; exact fun h => by cases h)).2.1

/-- **O8 `removal_never_grows`**: removals (also via `compute_if_present`, `retain`, `clear`) and
reads never resize; when the table exists its length and threshold stay as they are. (When it
does not exist yet `compute_if_present` allocates it: an allocation, not a resize.) -/
theorem step_removal_never_grows {m : Map} (hg : Good m) (op : Op) (hop : op.nonGrowing = true) :
    (step m op).1.resizes = m.resizes ∧
    (m.table ≠ none → tableLen (step m op).1 = tableLen m ∧ (step m op).1.sizeCtl = m.sizeCtl) := by
  cases op with
  | ins k ki v vi => cases hop
  | tryIns k ki v vi => cases hop
  | reserve n => cases hop
  | extend hint items => cases hop
  | get k => exact ⟨rfl, fun _ => ⟨rfl, rfl⟩⟩
  | getKV k => exact ⟨rfl, fun _ => ⟨rfl, rfl⟩⟩
  | has k => exact ⟨rfl, fun _ => ⟨rfl, rfl⟩⟩
  | len => exact ⟨rfl, fun _ => ⟨rfl, rfl⟩⟩
  | isEmpty => exact ⟨rfl, fun _ => ⟨rfl, rfl⟩⟩
  | rm k =>
    obtain ⟨h1, h2, h3⟩ := (replaceNode_rm_spec k none hg).1.noGrow trivial
    exact ⟨h2, fun _ => ⟨h1, h3⟩⟩
  | rmEntry k =>
    obtain ⟨h1, h2, h3⟩ := (replaceNode_rm_spec k none hg).1.noGrow trivial
    exact ⟨h2, fun _ => ⟨h1, h3⟩⟩
  | cip k f =>
    refine ⟨cip_resizes k f hg, fun hne => ?_⟩
    obtain ⟨h1, _, h3⟩ := (cip_spec k f hg).1.noGrow hne
    exact ⟨h1, h3⟩
  | retain force f =>
    obtain ⟨_, _, _, _, hp, _⟩ := retain_any force f hg
    exact ⟨hp.resizes_eq, fun _ => ⟨hp.tableLen_eq, hp.sizeCtl_eq⟩⟩
  | clear => exact ⟨clear_resizes m, fun _ => ⟨clear_table_len m, clear_sizeCtl m⟩⟩

/-! ## insertions -/

/-- **O8 `grow_only_when`** (table exists): if `put` resized (or lengthened) the table, then
either the insert met a crowded bin (`treeifyCond` of the bin count the model computes) in a
small table (`treeifyTooSmall`), or the key was new and the count reached the threshold
(`size_ctl ≤ count + 1`, i.e. three quarters of the length) below the maximum length. -/
theorem put_grow_only_when (k ki v vi : Nat) (nr : Bool) {m : Map} (hg : Good m)
    (hne : m.table ≠ none)
    (h : m.resizes < (put k ki v vi nr m).1.resizes ∨ tableLen m < tableLen (put k ki v vi nr m).1) :
    (treeifyCond (putBinCount k m) = true ∧ treeifyTooSmall (tableLen m) = true) ∨
    (absMap m k = none ∧ m.sizeCtl ≤ m.count + 1 ∧ tableLen m ≠ MAXIMUM_CAPACITY) := by
  have hp := (put_spec k ki v vi nr hg).1
  by_cases hc : PutNoGrow k m
  · obtain ⟨h1, h2, _⟩ := hp.noGrow ⟨hne, hc⟩
    omega
  · unfold PutNoGrow at hc
    by_cases h1 : (treeifyCond (putBinCount k m) = false ∨ treeifyTooSmall (tableLen m) = false)
    · right
      have h2 : ¬ ((get k m).isSome = true ∨ m.count + 1 < m.sizeCtl ∨
          tableLen m = MAXIMUM_CAPACITY) := fun h2 => hc ⟨h1, h2⟩
      simp only [not_or] at h2
      obtain ⟨a, b, c⟩ := h2
      refine ⟨?_, by omega, c⟩
      have : (absMap m k).isSome = false := by rw [absMap_isSome]; simpa using a
      simpa using this
    · left
      simp only [not_or] at h1
      exact ⟨by simpa using h1.1, by simpa using h1.2⟩

/-- the same for a state whose table may not exist yet (`put` first allocates it) -/
theorem put_grow_only_when' (k ki v vi : Nat) (nr : Bool) {m : Map} (hg : Good m)
    (h : m.resizes < (put k ki v vi nr m).1.resizes) :
    (treeifyCond (putBinCount k m) = true ∧ treeifyTooSmall (tableLen (initTable m)) = true) ∨
    (absMap m k = none ∧ (initTable m).sizeCtl ≤ m.count + 1 ∧
      tableLen (initTable m) ≠ MAXIMUM_CAPACITY) := by
  obtain ⟨t, ht⟩ := initTable_table_some m
  have := put_grow_only_when k ki v vi nr hg.init (by rw [ht]; exact fun h => by cases h)
    (Or.inl (by rw [← put_initTable k ki v vi nr hg, initTable_resizes]; exact h))
  rw [putBinCount_initTable k hg, (initTable_same m).absMap_eq, initTable_count] at this
  exact this

/-- with room for the new entry and no crowded bin, `put` leaves the table alone -/
theorem put_no_growth (k ki v vi : Nat) (nr : Bool) {m : Map} (hg : Good m) (hne : m.table ≠ none)
    (hbin : treeifyCond (putBinCount k m) = false) (hroom : m.count + 1 < m.sizeCtl) :
    tableLen (put k ki v vi nr m).1 = tableLen m ∧ (put k ki v vi nr m).1.resizes = m.resizes ∧
    (put k ki v vi nr m).1.sizeCtl = m.sizeCtl :=
  (put_spec k ki v vi nr hg).1.noGrow ⟨hne, Or.inl hbin, Or.inr (Or.inl hroom)⟩

/-- `putAll` of `items` with room for all of them, no insert meeting a crowded bin -/
theorem putAll_no_growth (items : List (Nat × Nat × Nat × Nat)) : ∀ {m : Map}, Good m →
    m.table ≠ none → m.count + items.length < m.sizeCtl →
    (∀ pre it post, items = pre ++ it :: post →
      treeifyCond (putBinCount it.1 (putAll pre m)) = false) →
    tableLen (putAll items m) = tableLen m ∧ (putAll items m).resizes = m.resizes ∧
    (putAll items m).sizeCtl = m.sizeCtl := by
  induction items with
  | nil => intro m _ _ _ _; exact ⟨rfl, rfl, rfl⟩
  | cons it rest ih =>
    intro m hg hne hroom hbins
    obtain ⟨k, ki, v, vi⟩ := it
    have hb0 : treeifyCond (putBinCount k m) = false := hbins [] (k, ki, v, vi) rest rfl
    have hr0 : m.count + 1 < m.sizeCtl := by
      simp only [List.length_cons] at hroom; omega
    obtain ⟨hp, -⟩ := put_spec k ki v vi false hg
    obtain ⟨h1, h2, h3⟩ := put_no_growth k ki v vi false hg hne hb0 hr0
    have hne1 : (put k ki v vi false m).1.table ≠ none := by
      intro hn
      have hpos : 0 < tableLen m := by
        cases ht : m.table with
        | none => exact absurd ht hne
        | some t => exact hg.1.tableLen_pos ht
      rw [← h1, tableLen_of_none hn] at hpos
      omega
    have hroom1 : (put k ki v vi false m).1.count + rest.length < (put k ki v vi false m).1.sizeCtl := by
      rw [hp.count, h3]
      simp only [List.length_cons] at hroom
      split <;> omega
    have hbins1 : ∀ pre it post, rest = pre ++ it :: post →
        treeifyCond (putBinCount it.1 (putAll pre (put k ki v vi false m).1)) = false := by
      intro pre it post he
      have := hbins ((k, ki, v, vi) :: pre) it post (by rw [he]; rfl)
      rwa [putAll_cons] at this
    obtain ⟨i1, i2, i3⟩ := ih hp.good hne1 hroom1 hbins1
    rw [putAll_cons]
    exact ⟨i1.trans h1, i2.trans h2, i3.trans h3⟩

/-- **O8 `no_growth_with_room`**: at most `c` inserts into `with_capacity(c)`
(`0 < c < 2^29`), none of which meets a crowded bin, never resize: the table keeps the length
`with_capacity` gave it. (`C14.with_capacity_room`: the threshold is above `c`.) -/
theorem no_growth_with_room (hash : Nat → Nat) (c : Nat) (hc0 : 0 < c)
    (hc : c < MAXIMUM_CAPACITY / 2) (items : List (Nat × Nat × Nat × Nat)) (hlen : items.length ≤ c)
    (hbins : ∀ pre it post, items = pre ++ it :: post →
      treeifyCond (putBinCount it.1 (putAll pre (withCapacity hash c))) = false) :
    tableLen (putAll items (withCapacity hash c)) = presizeCap c ∧
    (putAll items (withCapacity hash c)).resizes = 0 := by
  have hc0' : ¬ c = 0 := by omega
  have hne : (withCapacity hash c).table ≠ none := by
    unfold withCapacity; simp [hc0']
  have hsc : (withCapacity hash c).sizeCtl = presizeThreshold (presizeCap c) := by
    unfold withCapacity; simp [hc0']
  have hres : (withCapacity hash c).resizes = 0 := by
    unfold withCapacity; simp [hc0']
  have hroom : (withCapacity hash c).count + items.length < (withCapacity hash c).sizeCtl := by
    rw [withCapacity_count, hsc]
    have := C14.with_capacity_room c hc
    omega
  obtain ⟨h1, h2, _⟩ := putAll_no_growth items (good_withCapacity hash c) hne hroom hbins
  rw [h1, h2, withCapacity_tableLen, hres]
  simp [hc0']

/-! ### crowded bins -/

/-- every bin holds fewer than `n` nodes -/
def BinsBelow (n : Nat) (m : Map) : Prop :=
  ∀ t, m.table = some t → ∀ i, (tableBin t i).nodes.length < n

/-- the bin count `put` computes is at most the number of nodes in the bin (or `2`, for a tree bin) -/
theorem putBinCount_le {k : Nat} {m : Map} {t : Table} (hg : Good m) (ht : m.table = some t) :
    putBinCount k m ≤ max 2 (tableBin t (bini (m.hash k) t.length)).nodes.length := by
  unfold putBinCount
  simp only [initTable_of_wf_some hg.1 ht, ht]
  split
  · omega
  next ns hb =>
    rw [hb]
    have := listBinCount_le (m.hash k) k ns 0
    simp only [nodes_list]
    omega
  · omega

/-- no bin with `TREEIFY_THRESHOLD` (8) nodes: no treeify test fires -/
theorem treeifyCond_false_of_binsBelow {k : Nat} {m : Map} (hg : Good m) (hne : m.table ≠ none)
    (hb : BinsBelow TREEIFY_THRESHOLD m) : treeifyCond (putBinCount k m) = false := by
  cases ht : m.table with
  | none => exact absurd ht hne
  | some t =>
    have h1 := putBinCount_le (k := k) hg ht
    have h2 := hb t ht (bini (m.hash k) t.length)
    simp only [treeifyCond, TREEIFY_THRESHOLD] at *
    simp only [decide_eq_false_iff_not, ge_iff_le, Nat.not_le]
    omega

/-- **O8 `no_growth_with_room`**, stated with bins: at most `c` inserts into `with_capacity(c)`
such that no bin holds 8 nodes along the way never resize -/
theorem no_growth_with_room_bins (hash : Nat → Nat) (c : Nat) (hc0 : 0 < c)
    (hc : c < MAXIMUM_CAPACITY / 2) (items : List (Nat × Nat × Nat × Nat)) (hlen : items.length ≤ c)
    (hbins : ∀ pre it post, items = pre ++ it :: post →
      BinsBelow TREEIFY_THRESHOLD (putAll pre (withCapacity hash c))) :
    tableLen (putAll items (withCapacity hash c)) = presizeCap c ∧
    (putAll items (withCapacity hash c)).resizes = 0 := by
  refine no_growth_with_room hash c hc0 hc items hlen ?_
  intro pre it post he
  have hg := putAll_good pre (good_withCapacity hash c)
  refine treeifyCond_false_of_binsBelow hg ?_ (hbins pre it post he)
  intro hn
  have h1 := (putAll_spec pre (good_withCapacity hash c)).2.2.2.1
  rw [tableLen_of_none hn, withCapacity_tableLen] at h1
  have : ¬ c = 0 := by omega
  simp only [this, ↓reduceIte] at h1
  obtain ⟨k, hk, _⟩ := presizeCap_pow2 c
  have := Nat.two_pow_pos k
  omega

/-! ### `reserve`: room as requested -/

/-- in a well-formed state the stored count is what `len` reports -/
theorem WF.len_cast_eq_count {m : Map} (hw : WF m) : ((len m : Nat) : Int) = m.count := by
  have := hw.count_nonneg
  simp only [len]
  split <;> omega

/-- **O8 `reserve_threshold_room`**: after `reserve(a)` (`len + a < 2^29`) the table exists and the
growth threshold is strictly above `count + a`. (`try_presize` stops with the rounded request
within the threshold — `C14.reserve_room` — or with the table at its maximum length `2^30`, whose
threshold `3 * 2^28` is above `2^29`: no hypothesis on the table length is needed.) -/
theorem reserve_threshold_room (a : Nat) {m : Map} (hg : Good m)
    (hs : len m + a < MAXIMUM_CAPACITY / 2) :
    (reserve a m).table ≠ none ∧
    (reserve a m).count + (a : Int) < (reserve a m).sizeCtl := by
  obtain ⟨w, _, hc, t', ht', hd⟩ := tryPresize_spec (reserveArg (len m) a) hg.1 hg.2
  have hlen := hg.1.len_cast_eq_count
  show (tryPresize (reserveArg (len m) a) m).table ≠ none ∧
    (tryPresize (reserveArg (len m) a) m).count + (a : Int) <
      (tryPresize (reserveArg (len m) a) m).sizeCtl
  refine ⟨(by rw [ht']; exact fun h => nomatch h), ?_⟩
  rw [hc]
  rcases (C14.reserve_done_iff _ _ _).1 hd with h | h
  · have : ((len m + a : Nat) : Int) < (tryPresize (reserveArg (len m) a) m).sizeCtl :=
      C14.reserve_room (len m + a) hs _ h
    omega
  · have hp := w.preWF ht'
    have hle := hp.twf.2.1
    have hsc := hp.sc
    have hmax : t'.length = MAXIMUM_CAPACITY := by omega
    rw [hmax] at hsc
    rw [hsc]
    simp only [max_cap_eq] at hs
    simp only [loadFactor, max_cap_eq, Int.ofNat_eq_natCast]
    omega

/-- **O8 `no_growth_after_reserve`**: at most `a` inserts after `reserve(a)` (`len + a < 2^29`),
none of which meets a crowded bin, never resize: the table keeps the length `reserve` left it
with. -/
theorem no_growth_after_reserve {m : Map} (hg : Good m) (a : Nat)
    (hs : len m + a < MAXIMUM_CAPACITY / 2)
    (items : List (Nat × Nat × Nat × Nat)) (hlen : items.length ≤ a)
    (hbins : ∀ pre it post, items = pre ++ it :: post →
      treeifyCond (putBinCount it.1 (putAll pre (reserve a m))) = false) :
    tableLen (putAll items (reserve a m)) = tableLen (reserve a m) ∧
    (putAll items (reserve a m)).resizes = (reserve a m).resizes := by
  obtain ⟨hne, hroom⟩ := reserve_threshold_room a hg hs
  have hroom' : (reserve a m).count + items.length < (reserve a m).sizeCtl := by omega
  obtain ⟨h1, h2, _⟩ := putAll_no_growth items (reserve_good a hg) hne hroom' hbins
  exact ⟨h1, h2⟩

/-- … stated with bins: no bin holds 8 (`TREEIFY_THRESHOLD`) nodes along the way -/
theorem no_growth_after_reserve_bins {m : Map} (hg : Good m) (a : Nat)
    (hs : len m + a < MAXIMUM_CAPACITY / 2)
    (items : List (Nat × Nat × Nat × Nat)) (hlen : items.length ≤ a)
    (hbins : ∀ pre it post, items = pre ++ it :: post →
      BinsBelow TREEIFY_THRESHOLD (putAll pre (reserve a m))) :
    tableLen (putAll items (reserve a m)) = tableLen (reserve a m) ∧
    (putAll items (reserve a m)).resizes = (reserve a m).resizes := by
  refine no_growth_after_reserve hg a hs items hlen ?_
  intro pre it post he
  have hgr := reserve_good a hg
  refine treeifyCond_false_of_binsBelow (putAll_good pre hgr) ?_ (hbins pre it post he)
  intro hn
  have h1 := (putAll_spec pre hgr).2.2.2.1
  rw [tableLen_of_none hn] at h1
  cases ht : (reserve a m).table with
  | none => exact (reserve_threshold_room a hg hs).1 ht
  | some t =>
    have := hgr.1.tableLen_pos ht
    omega

end Flurry.Seq
