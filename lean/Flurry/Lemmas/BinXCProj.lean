import Flurry.Lemmas.BinXCStep
import Flurry.Lemmas.BinXRetire
import Flurry.Lemmas.BinXLin
/-! # Proto/BinXC → Proto/BinX: the memory projection (C01, C03)

`mem : BinXC.State → BinX.State` keeps the shared memory (heap, the three cells, the table pointer)
and the clock, and forgets threads, history and the retired list. Every memory-level notion and lemma
of `Lemmas/BinX*.lean` (chains, `HInv`, the list surgeries, `splitBin_spec`, `MemStep`, the hindsight
justification `Good` and its preservation) is used for `Proto/BinXC` through this projection; this
file shows how `mem` commutes with the state updates of `Proto/BinXC`. -/
namespace Flurry.Proto.BinXC
open Flurry.Lin

def cN (n : NodeS) : BinX.NodeS := ⟨n.key, n.val, n.next, n.lock⟩

def cC : Cell → BinX.Cell
  | .empty => .empty
  | .node h => .node h
  | .moved => .moved

def cT : Tab → BinX.Tab
  | .old => .old
  | .new => .new

def cP (p : Pending) : BinX.Pending := ⟨p.key, p.op, p.inv⟩

def mem (s : State) : BinX.State :=
  { heap := s.heap.map cN, cell0 := cC s.cell0, lowCell := cC s.lowCell, highCell := cC s.highCell,
    cur := cT s.cur, resizing := false, threads := [], hist := [], now := s.now }

@[simp] theorem cN_key (n : NodeS) : (cN n).key = n.key := rfl
@[simp] theorem cN_val (n : NodeS) : (cN n).val = n.val := rfl
@[simp] theorem cN_next (n : NodeS) : (cN n).next = n.next := rfl
@[simp] theorem cN_lock (n : NodeS) : (cN n).lock = n.lock := rfl
@[simp] theorem mem_heap (s : State) : (mem s).heap = s.heap.map cN := rfl
@[simp] theorem mem_cell0 (s : State) : (mem s).cell0 = cC s.cell0 := rfl
@[simp] theorem mem_lowCell (s : State) : (mem s).lowCell = cC s.lowCell := rfl
@[simp] theorem mem_highCell (s : State) : (mem s).highCell = cC s.highCell := rfl
@[simp] theorem mem_cur (s : State) : (mem s).cur = cT s.cur := rfl
@[simp] theorem mem_now (s : State) : (mem s).now = s.now := rfl

theorem cC_inj {a b : Cell} (h : cC a = cC b) : a = b := by
  cases a <;> cases b <;> simp [cC] at h <;> first | rfl | (subst h; rfl)

theorem cC_eq_empty {a : Cell} : cC a = .empty ↔ a = .empty := ⟨fun h => cC_inj (b := .empty) h, fun h => by rw [h]; rfl⟩
theorem cC_eq_moved {a : Cell} : cC a = .moved ↔ a = .moved := ⟨fun h => cC_inj (b := .moved) h, fun h => by rw [h]; rfl⟩
theorem cC_eq_node {a : Cell} {h : Nat} : cC a = .node h ↔ a = .node h :=
  ⟨fun e => cC_inj (b := .node h) e, fun e => by rw [e]; rfl⟩

theorem cT_eq_new {a : Tab} : cT a = .new ↔ a = .new := by cases a <;> simp [cT]

theorem cellHead_cC (c : Cell) : BinX.cellHead (cC c) = cellHead c := by cases c <;> rfl

theorem hiBit_eq (k : Nat) : BinX.hiBit k = hiBit k := rfl

theorem mem_tick (s : State) : mem (tick s) = BinX.tick (mem s) := rfl
theorem mem_setT (s : State) (t : Nat) (l : Local) : mem (setT s t l) = mem s := rfl
theorem mem_finish (s : State) (t : Nat) (p : Pending) (res : KRes) : mem (finish s t p res) = mem s := rfl
theorem mem_finishClear (s : State) (t : Nat) (p : Pending) : mem (finishClear s t p) = mem s := rfl

theorem map_modify {α β : Type} (g : α → β) (f : α → α) (f' : β → β) (hf : ∀ a, g (f a) = f' (g a))
    (l : List α) (i : Nat) : (l.modify i f).map g = (l.map g).modify i f' := by
  apply List.ext_getElem?
  intro j
  simp only [List.getElem?_map, List.getElem?_modify]
  cases l[j]? with
  | none => rfl
  | some a => by_cases hij : i = j <;> simp [hij, hf]

theorem mem_setNode (s : State) (i : Nat) (f : NodeS → NodeS) (f' : BinX.NodeS → BinX.NodeS)
    (hf : ∀ a, cN (f a) = f' (cN a)) : mem (setNode s i f) = BinX.setNode (mem s) i f' := by
  simp only [mem, setNode, BinX.setNode]
  rw [map_modify cN f f' hf]

theorem mem_setNode_lock (s : State) (i : Nat) (x : Option Nat) :
    mem (setNode s i (fun m => { m with lock := x })) = BinX.setNode (mem s) i (fun m => { m with lock := x }) :=
  mem_setNode s i _ _ (fun _ => rfl)

theorem mem_setNode_val (s : State) (i : Nat) (x : Nat × Nat) :
    mem (setNode s i (fun m => { m with val := x })) = BinX.setNode (mem s) i (fun m => { m with val := x }) :=
  mem_setNode s i _ _ (fun _ => rfl)

theorem mem_setNode_next (s : State) (i : Nat) (x : Option Nat) :
    mem (setNode s i (fun m => { m with next := x })) = BinX.setNode (mem s) i (fun m => { m with next := x }) :=
  mem_setNode s i _ _ (fun _ => rfl)

theorem cellOf_mem (s : State) (tab : Tab) (k : Nat) : BinX.cellOf (mem s) (cT tab) k = cC (cellOf s tab k) := by
  cases tab with
  | old => rfl
  | new =>
    unfold BinX.cellOf cellOf cT
    dsimp only
    rw [hiBit_eq]
    split <;> rfl

theorem mem_setCell (s : State) (tab : Tab) (k : Nat) (c : Cell) :
    mem (setCell s tab k c) = BinX.setCell (mem s) (cT tab) k (cC c) := by
  cases tab with
  | old => rfl
  | new =>
    unfold BinX.setCell setCell cT
    dsimp only
    rw [hiBit_eq]
    split <;> rfl

/-- the cell number `idx` of table `tab` -/
def cellIdAt (tab : Tab) (idx : Nat) : BinX.CellId :=
  match tab, idx with
  | .old, _ => .c0
  | .new, 0 => .low
  | .new, _ => .high

theorem cellAt_mem (s : State) (tab : Tab) (idx : Nat) :
    BinX.getCell (mem s) (cellIdAt tab idx) = cC (cellAt s tab idx) := by
  cases tab with
  | old => rfl
  | new => cases idx <;> rfl

theorem mem_setCellAt (s : State) (tab : Tab) (idx : Nat) (c : Cell) :
    mem (setCellAt s tab idx c) = BinX.putCell (mem s) (cellIdAt tab idx) (cC c) := by
  cases tab with
  | old => rfl
  | new => cases idx <;> rfl

theorem setCellAt_frame (s : State) (tab : Tab) (idx : Nat) (c : Cell) :
    (setCellAt s tab idx c).heap = s.heap ∧ (setCellAt s tab idx c).threads = s.threads ∧
    (setCellAt s tab idx c).hist = s.hist ∧ (setCellAt s tab idx c).now = s.now ∧
    (setCellAt s tab idx c).resizing = s.resizing ∧ (setCellAt s tab idx c).retired = s.retired := by
  cases tab with
  | old => exact ⟨rfl, rfl, rfl, rfl, rfl, rfl⟩
  | new => cases idx <;> exact ⟨rfl, rfl, rfl, rfl, rfl, rfl⟩

theorem setCell_frame (s : State) (tab : Tab) (k : Nat) (c : Cell) :
    (setCell s tab k c).heap = s.heap ∧ (setCell s tab k c).threads = s.threads ∧
    (setCell s tab k c).hist = s.hist ∧ (setCell s tab k c).now = s.now ∧
    (setCell s tab k c).resizing = s.resizing ∧ (setCell s tab k c).retired = s.retired := by
  cases tab with
  | old => exact ⟨rfl, rfl, rfl, rfl, rfl, rfl⟩
  | new => unfold setCell; dsimp only; split <;> exact ⟨rfl, rfl, rfl, rfl, rfl, rfl⟩

theorem getD_map (heap : List NodeS) (i : Nat) : (heap.map cN).getD i BinX.dflt = cN (heap.getD i dflt) := by
  simp only [List.getD_eq_getElem?_getD, List.getElem?_map]
  cases heap[i]? <;> rfl

theorem nodeAt_mem (s : State) (i : Nat) : BinX.nodeAt (mem s).heap i = cN (s.heap.getD i dflt) := getD_map s.heap i

theorem chainFrom_map (heap : List NodeS) : ∀ (fuel : Nat) (st : Option Nat),
    BinX.chainFrom (heap.map cN) fuel st = chainFrom heap fuel st
  | 0, _ => by simp [BinX.chainFrom, chainFrom]
  | _ + 1, none => by simp [BinX.chainFrom, chainFrom]
  | fuel + 1, some i => by
    simp only [BinX.chainFrom, chainFrom, List.getElem?_map]
    cases heap[i]? with
    | none => rfl
    | some n => simp [chainFrom_map heap fuel]

theorem chainOfCell_mem (s : State) (c : Cell) : BinX.chainOfCell (mem s) (cC c) = chainOfCell s c := by
  unfold BinX.chainOfCell chainOfCell
  rw [cellHead_cC, mem_heap, List.length_map, chainFrom_map]

theorem chainH_mem (s : State) (c : Cell) : BinX.chainH (mem s).heap (cC c) = chainOfCell s c :=
  chainOfCell_mem s c

theorem liveCell_mem (s : State) (k : Nat) : BinX.liveCell (mem s) k = cC (liveCell s k) := by
  unfold BinX.liveCell liveCell
  have h1 : ((mem s).cell0 == BinX.Cell.moved) = (s.cell0 == Cell.moved) := by
    rw [mem_cell0]; cases s.cell0 <;> rfl
  have h2 : ((mem s).cur == BinX.Tab.new) = (s.cur == Tab.new) := by
    rw [mem_cur]; cases s.cur <;> rfl
  rw [h1, h2]
  have h3 := cellOf_mem s .new k
  have h3' : BinX.cellOf (mem s) .new k = cC (cellOf s .new k) := h3
  rw [h3']
  split
  · rfl
  · split <;> rfl

theorem absOf_mem (s : State) (k : Nat) : BinX.absOf (mem s) k = absOf s k := by
  unfold BinX.absOf absOf
  rw [liveCell_mem, chainOfCell_mem]
  simp only [mem_heap, getD_map, cN_key, cN_val]
  cases List.find? (fun i => (s.heap.getD i dflt).key == k) (chainOfCell s (liveCell s k)) <;> rfl

theorem map_modify_next (l : List NodeS) (i : Nat) (x : Option Nat) :
    (l.modify i (fun n => { n with next := x })).map cN = (l.map cN).modify i (fun n => { n with next := x }) :=
  map_modify cN _ _ (fun _ => rfl) l i

theorem mem_heap_append (s : State) (n : NodeS) :
    mem { s with heap := s.heap ++ [n] } = { mem s with heap := (mem s).heap ++ [cN n] } := by
  simp [mem]

/-- the store of a writer commutes with the projection -/
theorem storeAt_mem (s : State) (tab : Tab) (p : Pending) (pred hit hnext : Option Nat) :
    mem (storeAt s tab p pred hit hnext).1 = (BinX.storeAt (mem s) (cT tab) (cP p) pred hit hnext).1 ∧
    (storeAt s tab p pred hit hnext).2 = (BinX.storeAt (mem s) (cT tab) (cP p) pred hit hnext).2 := by
  have hlen : (mem s).heap.length = s.heap.length := by simp
  unfold BinX.storeAt storeAt
  have hop : (cP p).op = p.op := rfl
  have hkey : (cP p).key = p.key := rfl
  simp only [hop, hkey]
  cases p.op with
  | get => cases hit <;> exact ⟨rfl, rfl⟩
  | has => cases hit <;> exact ⟨rfl, rfl⟩
  | ins v vi =>
    cases hit with
    | some i =>
      dsimp only
      exact ⟨mem_setNode_val s i (v, vi), by rw [mem_heap, getD_map]; rfl⟩
    | none =>
      cases pred with
      | none =>
        dsimp only
        refine ⟨?_, rfl⟩
        rw [mem_setCell, mem_heap_append, hlen]; rfl
      | some l =>
        dsimp only
        refine ⟨?_, rfl⟩
        rw [mem_setNode_next, mem_heap_append, hlen]; rfl
  | tryIns v vi =>
    cases hit with
    | some i =>
      dsimp only
      exact ⟨rfl, by rw [mem_heap, getD_map]; rfl⟩
    | none =>
      cases pred with
      | none =>
        dsimp only
        refine ⟨?_, rfl⟩
        rw [mem_setCell, mem_heap_append, hlen]; rfl
      | some l =>
        dsimp only
        refine ⟨?_, rfl⟩
        rw [mem_setNode_next, mem_heap_append, hlen]; rfl
  | rm =>
    cases hit with
    | some i =>
      cases pred with
      | none =>
        dsimp only
        exact ⟨by rw [mem_setCell]; cases hnext <;> rfl, by rw [mem_heap, getD_map]; rfl⟩
      | some pr =>
        dsimp only
        exact ⟨mem_setNode_next s pr _, by rw [mem_heap, getD_map]; rfl⟩
    | none => exact ⟨rfl, rfl⟩
  | cipInc nvi =>
    cases hit with
    | some i =>
      dsimp only
      rw [mem_heap, getD_map]
      exact ⟨mem_setNode_val s i _, rfl⟩
    | none => exact ⟨rfl, rfl⟩
  | cipRm =>
    cases hit with
    | some i =>
      cases pred with
      | none =>
        dsimp only
        exact ⟨by rw [mem_setCell]; cases hnext <;> rfl, rfl⟩
      | some pr =>
        dsimp only
        exact ⟨mem_setNode_next s pr _, rfl⟩
    | none => exact ⟨rfl, rfl⟩

theorem storeAt_frame (s : State) (tab : Tab) (p : Pending) (pred hit hnext : Option Nat) :
    (storeAt s tab p pred hit hnext).1.threads = s.threads ∧ (storeAt s tab p pred hit hnext).1.hist = s.hist ∧
    (storeAt s tab p pred hit hnext).1.now = s.now ∧ (storeAt s tab p pred hit hnext).1.resizing = s.resizing ∧
    (storeAt s tab p pred hit hnext).1.retired = s.retired := by
  have hsc : ∀ (s0 : State) (c : Cell), (setCell s0 tab p.key c).threads = s0.threads ∧ (setCell s0 tab p.key c).hist = s0.hist ∧
      (setCell s0 tab p.key c).now = s0.now ∧ (setCell s0 tab p.key c).resizing = s0.resizing ∧
      (setCell s0 tab p.key c).retired = s0.retired := by
    intro s0 c
    obtain ⟨-, h2, h3, h4, h5, h6⟩ := setCell_frame s0 tab p.key c
    exact ⟨h2, h3, h4, h5, h6⟩
  unfold storeAt
  simp only
  cases p.op <;> cases hit <;> cases pred <;> first | exact ⟨rfl, rfl, rfl, rfl, rfl⟩ | exact hsc _ _

/-! ## the split -/

theorem lastRunStart_mem (heap : List NodeS) (c : List Nat) :
    BinX.lastRunStart (heap.map cN) c = lastRunStart heap c := by
  unfold BinX.lastRunStart lastRunStart
  have : (c.map fun i => BinX.hiBit ((heap.map cN).getD i BinX.dflt).key) =
      (c.map fun i => hiBit (heap.getD i dflt).key) := by
    apply List.map_congr_left
    intro i _
    rw [getD_map]; rfl
  simp only [this]
  rfl

/-- one iteration of the copy loop of `splitBin` -/
def splitStep (acc : List NodeS × Option Nat × Option Nat) (i : Nat) : List NodeS × Option Nat × Option Nat :=
  if hiBit (acc.1.getD i dflt).key then
    (acc.1 ++ [⟨(acc.1.getD i dflt).key, (acc.1.getD i dflt).val, acc.2.2, none⟩], acc.2.1, some acc.1.length)
  else
    (acc.1 ++ [⟨(acc.1.getD i dflt).key, (acc.1.getD i dflt).val, acc.2.1, none⟩], some acc.1.length, acc.2.2)

def runBitOf (heap : List NodeS) (run : List Nat) : Bool :=
  match run.head? with
  | some i => hiBit (heap.getD i dflt).key
  | none => false

theorem splitBin_eq (heap : List NodeS) (c : List Nat) :
    splitBin heap c = (c.take (lastRunStart heap c)).foldl splitStep
      (heap,
       (if runBitOf heap (c.drop (lastRunStart heap c)) then none else (c.drop (lastRunStart heap c)).head?),
       (if runBitOf heap (c.drop (lastRunStart heap c)) then (c.drop (lastRunStart heap c)).head? else none)) := rfl

theorem runBitOf_mem (heap : List NodeS) (run : List Nat) : BinX.runBitOf (heap.map cN) run = runBitOf heap run := by
  unfold BinX.runBitOf runBitOf
  cases run.head? with
  | none => rfl
  | some i => dsimp only; rw [getD_map]; rfl

theorem splitStep_mem (acc : List NodeS × Option Nat × Option Nat) (i : Nat) :
    BinX.splitStep (acc.1.map cN, acc.2) i = ((splitStep acc i).1.map cN, (splitStep acc i).2) := by
  unfold BinX.splitStep splitStep
  simp only [getD_map, cN_key, cN_val, hiBit_eq, List.length_map]
  split <;> simp [cN]

theorem foldl_splitStep_mem : ∀ (l : List Nat) (acc : List NodeS × Option Nat × Option Nat),
    l.foldl BinX.splitStep (acc.1.map cN, acc.2) = ((l.foldl splitStep acc).1.map cN, (l.foldl splitStep acc).2)
  | [], _ => rfl
  | i :: l, acc => by
    rw [List.foldl_cons, List.foldl_cons, splitStep_mem]
    exact foldl_splitStep_mem l (splitStep acc i)

theorem splitBin_mem (heap : List NodeS) (c : List Nat) :
    BinX.splitBin (heap.map cN) c = ((splitBin heap c).1.map cN, (splitBin heap c).2) := by
  rw [BinX.splitBin_eq, splitBin_eq, lastRunStart_mem, runBitOf_mem]
  exact foldl_splitStep_mem _ (heap, _, _)

end Flurry.Proto.BinXC
