import Flurry.Lemmas.BinKGhost
import Flurry.Lemmas.LinSearch
/-! # Proto/BinK: the ghost invariant holds in every reachable state; linearizability (C01, a bin that changes its kind)

`ginv_step`: every transition preserves `∃ A pt, GInv k s A pt`. Linearization points: list form — the
single store at `wStore` (also for a writer that changes nothing), the CAS at `wCas`, the load of the
empty cell at `wCell` for a writer that changes nothing; tree form — `tVal`, `tPrependLocked`,
`tUnlinkLocked`, `tFind` for a writer that changes nothing; tree readers at `rTree` (they hold a read
lock of a `TreeBin` whose `writer` flag is clear, so it is the live one and its tree equals its list);
list walkers in hindsight (`RdOK`). The conversions (`kBuild`, `kStore`, `tUntreeify`) change no
abstract state. Then `lin_of_trace` gives `binK_linearizable_ext`. -/
namespace Flurry.Proto.BinK
open Flurry.Lin

/-- the heap step of a transition, for the list walkers -/
abbrev HS (s s' : State) : Prop := HeapStep s.heap (liveChain s) (Priv s) s'.heap (liveChain s') (Priv s')

/-- the `first` field of a `TreeBin` that is not in the cell after the step is not stored -/
def FirstOK (s s' : State) : Prop :=
  ∀ b, b < s.tbins.length → s'.cell ≠ .tree b → (binAt s'.tbins b).first = (binAt s.tbins b).first

/-- point-wise update of the point assignment -/
def updPt (pt : Nat → Nat) (i τ : Nat) : Nat → Nat := fun j => if j = i then τ else pt j

theorem updPt_self (pt : Nat → Nat) (i τ : Nat) : updPt pt i τ i = τ := by
  unfold updPt; rw [if_pos rfl]

theorem updPt_ne (pt : Nat → Nat) {i j : Nat} (τ : Nat) (h : j ≠ i) : updPt pt i τ j = pt j := by
  unfold updPt; rw [if_neg h]

theorem RdOK_of_not_reader {A : Nat → KSt} {k inv : Nat} {s : State} {pc : Pc} (h : readerPc pc = false) :
    RdOK A k inv s pc := by
  cases pc <;> simp [readerPc] at h <;> simp only [RdOK]

/-- the readers' justifications survive a transition -/
theorem readers_step {k : Nat} {s s' : State} {A : Nat → KSt} {pt : Nat → Nat} {t : Nat} {l' : Local}
    (g : GInv k s A pt) (I : Inv s) (I' : Inv s') (hs : HS s s') (hf : FirstOK s s')
    (hthr : s'.threads = s.threads.set t l') (hnow : s'.now = s.now + 1)
    (hself : ∀ (p : Pending), l'.call = some p → p.key = k →
      (p.inv ≤ s.now ∧ RdOK A k p.inv s l'.pc ∧ ∀ b, binRef l'.pc = some b → b < s.tbins.length) ∨
      RdOK (nextA A s.now (absOf s' k)) k p.inv s' l'.pc) :
    ∀ (t1 : Nat) (l1 : Local) (p1 : Pending), s'.threads[t1]? = some l1 →
      l1.call = some p1 → p1.key = k → RdOK (nextA A s.now (absOf s' k)) k p1.inv s' l1.pc := by
  intro t1 l1 p1 h1 hc1 hk1
  have hA'n : nextA A s.now (absOf s' k) s'.now = absOf s' k := by rw [hnow, nextA_new]
  rw [hthr] at h1
  rcases get_set h1 with ⟨rfl, rfl⟩ | ⟨_, h1⟩
  · rcases hself p1 hc1 hk1 with ⟨hi, hg, hb⟩ | hg
    · exact hg.step I I'.heap hs hnow (fun τ h => nextA_old h) g.hA hA'n hi (fun b hr hc => hf b (hb b hr) hc)
    · exact hg
  · exact (g.readers t1 l1 p1 h1 hc1 hk1).step I I'.heap hs hnow (fun τ h => nextA_old h) g.hA hA'n
      (I.thr.pendTime t1 l1 p1 h1 hc1) (fun b hr hc => hf b (I.lock.refOK t1 l1 b h1 hr).1 hc)

/-- transitions that add no call on `k` and do not change the ghost state of `k` -/
theorem ginv_quiet {k : Nat} {s s' : State} {A : Nat → KSt} {pt : Nat → Nat} {t : Nat} {l l' : Local}
    {hnew : List (Nat × Call)}
    (g : GInv k s A pt) (I : Inv s) (I' : Inv s') (hs : HS s s') (hf : FirstOK s s')
    (hl : s.threads[t]? = some l) (hthr : s'.threads = s.threads.set t l') (hnow : s'.now = s.now + 1)
    (hhist : s'.hist = hnew ++ s.hist)
    (habs : absOf s' k = absOf s k)
    (hB : ∀ c', (k, c') ∈ hnew ∨ extOf k (s.now + 1) t l' = some c' →
      ∃ c, extOf k s.now t l = some c ∧ Sim c c')
    (hF : ∀ c, extOf k s.now t l = some c →
      ∃ c', ((k, c') ∈ hnew ∨ extOf k (s.now + 1) t l' = some c') ∧ Sim c c')
    (hself : ∀ (p : Pending), l'.call = some p → p.key = k →
      (p.inv ≤ s.now ∧ RdOK A k p.inv s l'.pc ∧ ∀ b, binRef l'.pc = some b → b < s.tbins.length) ∨
      RdOK (nextA A s.now (absOf s' k)) k p.inv s' l'.pc) :
    GInv k s' (nextA A s.now (absOf s' k)) pt := by
  have hl' : s'.threads[t]? = some l' := by rw [hthr]; exact get_set_self hl
  have hin' : ∀ c', ((k, c') ∈ hnew ∨ extOf k (s.now + 1) t l' = some c') → c' ∈ callsOnExt s' k := by
    rintro c' (h | h)
    · exact mem_callsOnExt.2 (Or.inl (by rw [hhist]; exact List.mem_append_left _ h))
    · exact mem_callsOnExt.2 (Or.inr ⟨t, l', hl', by rw [hnow]; exact h⟩)
  refine g.frame (i0 := 0) I.thr hnow (fun _ _ => rfl) ?_ ?_ (fun h => absurd habs h)
    (readers_step g I I' hs hf hthr hnow hself)
  · intro c hc
    rcases ext_forward hl hthr hnow hhist c hc with h | h
    · exact h
    · obtain ⟨c', hc', hsim⟩ := hF c h
      exact ⟨c', hin' c' hc', hsim⟩
  · intro c' hc'
    rcases ext_backward hthr hnow hhist c' hc' with h | h | h
    · exact Or.inl h
    · obtain ⟨c, hc, hsim⟩ := hB c' (Or.inl h)
      exact Or.inl ⟨c, mem_callsOnExt.2 (Or.inr ⟨t, l, hl, hc⟩), hsim⟩
    · obtain ⟨c, hc, hsim⟩ := hB c' (Or.inr h)
      exact Or.inl ⟨c, mem_callsOnExt.2 (Or.inr ⟨t, l, hl, hc⟩), hsim⟩

/-- quiet, and the thread is not counted in the extended history before or after -/
theorem ginv_quiet_none {k : Nat} {s s' : State} {A : Nat → KSt} {pt : Nat → Nat} {t : Nat} {l l' : Local}
    {hnew : List (Nat × Call)}
    (g : GInv k s A pt) (I : Inv s) (I' : Inv s') (hs : HS s s') (hf : FirstOK s s')
    (hl : s.threads[t]? = some l) (hthr : s'.threads = s.threads.set t l') (hnow : s'.now = s.now + 1)
    (hhist : s'.hist = hnew ++ s.hist) (hnk : ∀ c, (k, c) ∉ hnew)
    (habs : absOf s' k = absOf s k)
    (he : extOf k s.now t l = none) (he' : extOf k (s.now + 1) t l' = none)
    (hself : ∀ (p : Pending), l'.call = some p → p.key = k →
      (p.inv ≤ s.now ∧ RdOK A k p.inv s l'.pc ∧ ∀ b, binRef l'.pc = some b → b < s.tbins.length) ∨
      RdOK (nextA A s.now (absOf s' k)) k p.inv s' l'.pc) :
    GInv k s' (nextA A s.now (absOf s' k)) pt := by
  refine ginv_quiet g I I' hs hf hl hthr hnow hhist habs ?_ ?_ hself
  · rintro c' (h | h)
    · exact absurd h (hnk c')
    · rw [he'] at h; cases h
  · intro c h; rw [he] at h; cases h

theorem extOf_congr {k now t : Nat} {l l' : Local} (hpc : resOfPc l'.pc = resOfPc l.pc) (hcall : l'.call = l.call) :
    extOf k now t l' = extOf k now t l := by
  unfold extOf; rw [hpc, hcall]

/-- quiet, and the thread stays where it is with respect to its linearization point -/
theorem ginv_quiet_keep {k : Nat} {s s' : State} {A : Nat → KSt} {pt : Nat → Nat} {t : Nat} {l l' : Local}
    (g : GInv k s A pt) (I : Inv s) (I' : Inv s') (hs : HS s s') (hf : FirstOK s s')
    (hl : s.threads[t]? = some l) (hthr : s'.threads = s.threads.set t l') (hnow : s'.now = s.now + 1)
    (hhist : s'.hist = s.hist)
    (habs : absOf s' k = absOf s k)
    (hpc : resOfPc l'.pc = resOfPc l.pc) (hcall : l'.call = l.call)
    (hself : ∀ (p : Pending), l'.call = some p → p.key = k →
      (p.inv ≤ s.now ∧ RdOK A k p.inv s l'.pc ∧ ∀ b, binRef l'.pc = some b → b < s.tbins.length) ∨
      RdOK (nextA A s.now (absOf s' k)) k p.inv s' l'.pc) :
    GInv k s' (nextA A s.now (absOf s' k)) pt := by
  refine ginv_quiet (hnew := []) g I I' hs hf hl hthr hnow (by rw [hhist]; rfl) habs ?_ ?_ hself
  · rintro c' (h | h)
    · cases h
    · rw [extOf_congr hpc hcall] at h
      exact extOf_bump (Nat.le_succ _) h
  · intro c h
    obtain ⟨c', hc', hsim⟩ := extOf_bump' (Nat.le_succ s.now) h
    exact ⟨c', Or.inr (by rw [extOf_congr hpc hcall]; exact hc'), hsim⟩

/-- transitions that add the call `c0` of thread `t` (to the history or as a writer past its point) -/
theorem ginv_new {k : Nat} {s s' : State} {A : Nat → KSt} {pt : Nat → Nat} {t : Nat} {l l' : Local}
    {hnew : List (Nat × Call)} {p : Pending} {c0 : Call} {τ0 : Nat}
    (g : GInv k s A pt) (I : Inv s) (I' : Inv s') (hs : HS s s') (hf : FirstOK s s')
    (hl : s.threads[t]? = some l) (hp : l.call = some p)
    (hthr : s'.threads = s.threads.set t l') (hnow : s'.now = s.now + 1)
    (hhist : s'.hist = hnew ++ s.hist)
    (he : extOf k s.now t l = none)
    (honly : ∀ c', (k, c') ∈ hnew ∨ extOf k (s.now + 1) t l' = some c' → c' = c0)
    (hmem : c0 ∈ callsOnExt s' k)
    (hinv0 : c0.inv = p.inv)
    (hok : CallOK (nextA A s.now (absOf s' k)) (updPt pt p.inv τ0) c0)
    (hw : isRead c0.op = false → τ0 = s.now + 1)
    (hchg : absOf s' k ≠ absOf s k → isRead c0.op = false)
    (hself : ∀ (p : Pending), l'.call = some p → p.key = k →
      (p.inv ≤ s.now ∧ RdOK A k p.inv s l'.pc ∧ ∀ b, binRef l'.pc = some b → b < s.tbins.length) ∨
      RdOK (nextA A s.now (absOf s' k)) k p.inv s' l'.pc) :
    GInv k s' (nextA A s.now (absOf s' k)) (updPt pt p.inv τ0) := by
  refine g.frame (i0 := p.inv) I.thr hnow ?_ ?_ ?_ ?_ (readers_step g I I' hs hf hthr hnow hself)
  · intro c hc
    exact updPt_ne pt τ0 (inv_ne_of_mem_callsOnExt I.thr hl hp he hc)
  · intro c hc
    rcases ext_forward hl hthr hnow hhist c hc with h | h
    · exact h
    · rw [he] at h; cases h
  · intro c' hc'
    rcases ext_backward hthr hnow hhist c' hc' with h | h | h
    · exact Or.inl h
    · have := honly c' (Or.inl h); subst this
      exact Or.inr ⟨hinv0, hok, fun hwr => by rw [hinv0, updPt_self]; exact hw hwr⟩
    · have := honly c' (Or.inr h); subst this
      exact Or.inr ⟨hinv0, hok, fun hwr => by rw [hinv0, updPt_self]; exact hw hwr⟩
  · intro hne
    have hwr := hchg hne
    exact ⟨c0, hmem, hwr, by rw [hinv0, updPt_self]; exact hw hwr⟩

/-- a step of a thread whose pending call is on another key (or that has no call) -/
theorem ginv_other_key {k : Nat} {s s' : State} {A : Nat → KSt} {pt : Nat → Nat} {t : Nat} {l l' : Local}
    {hnew : List (Nat × Call)}
    (g : GInv k s A pt) (I : Inv s) (I' : Inv s') (hs : HS s s') (hf : FirstOK s s')
    (hl : s.threads[t]? = some l) (hk : ∀ p, l.call = some p → p.key ≠ k)
    (hthr : s'.threads = s.threads.set t l') (hnow : s'.now = s.now + 1)
    (hhist : s'.hist = hnew ++ s.hist) (hnk : ∀ x ∈ hnew, x.1 ≠ k)
    (habs : absOf s' k = absOf s k) (hcall : l'.call = l.call ∨ l'.call = none) :
    GInv k s' (nextA A s.now (absOf s' k)) pt := by
  have hnone : ∀ now (l0 : Local), (l0.call = l.call ∨ l0.call = none) → extOf k now t l0 = none := by
    intro now l0 h0
    cases he : extOf k now t l0 with
    | none => rfl
    | some c =>
      obtain ⟨_, p', _, hc', hk', _⟩ := extOf_eq_some.1 he
      rcases h0 with h0 | h0
      · rw [h0] at hc'; exact absurd hk' (hk p' hc')
      · rw [h0] at hc'; cases hc'
  refine ginv_quiet_none g I I' hs hf hl hthr hnow hhist ?_ habs (hnone _ l (Or.inl rfl)) (hnone _ l' hcall) ?_
  · intro c hc; exact hnk _ hc rfl
  · intro p1 hp1 hk1
    rcases hcall with h | h
    · rw [h] at hp1; exact absurd hk1 (hk p1 hp1)
    · rw [h] at hp1; cases hp1

/-- a writer on key `k` passes its linearization point -/
theorem ginv_writer_point {k : Nat} {s s' : State} {A : Nat → KSt} {pt : Nat → Nat} {t : Nat} {l l' : Local}
    {p : Pending} {res : KRes}
    (g : GInv k s A pt) (I : Inv s) (I' : Inv s') (hs : HS s s') (hf : FirstOK s s')
    (hl : s.threads[t]? = some l) (hp : l.call = some p) (hk : p.key = k)
    (hthr : s'.threads = s.threads.set t l') (hnow : s'.now = s.now + 1) (hhist : s'.hist = s.hist)
    (hres0 : resOfPc l.pc = none) (hres' : resOfPc l'.pc = some res) (hcall : l'.call = l.call)
    (hwr : isRead p.op = false) (hspec : specStep (absOf s k) p.op = (absOf s' k, res))
    (hnr : readerPc l'.pc = false) :
    GInv k s' (nextA A s.now (absOf s' k)) (updPt pt p.inv (s.now + 1)) := by
  have hpi := I.thr.pendTime t l p hl hp
  have hext : extOf k (s.now + 1) t l' = some ⟨t, p.op, res, p.inv, s.now + 1⟩ :=
    extOf_eq_some.2 ⟨res, p, hres', hcall.trans hp, hk, rfl⟩
  refine ginv_new (hnew := []) (τ0 := s.now + 1) (c0 := ⟨t, p.op, res, p.inv, s.now + 1⟩) g I I' hs hf hl hp hthr hnow
    (by rw [hhist]; rfl) (extOf_none_of_pc hres0) ?_ ?_ rfl ?_ (fun _ => rfl) (fun _ => hwr) ?_
  · rintro c' (hc' | hc')
    · cases hc'
    · rw [hext] at hc'; cases hc'; rfl
  · refine mem_callsOnExt.2 (Or.inr ⟨t, l', by rw [hthr]; exact get_set_self hl, by rw [hnow]; exact hext⟩)
  · refine ⟨?_, ?_, ?_, ?_⟩
    · show p.inv ≤ updPt pt p.inv (s.now + 1) p.inv
      rw [updPt_self]; omega
    · show updPt pt p.inv (s.now + 1) p.inv ≤ s.now + 1
      rw [updPt_self]; exact Nat.le_refl _
    · intro hr; rw [hwr] at hr; cases hr
    · show isRead p.op = false → 1 ≤ updPt pt p.inv (s.now + 1) p.inv ∧
        specStep (nextA A s.now _ (updPt pt p.inv (s.now + 1) p.inv - 1)) p.op =
          (nextA A s.now _ (updPt pt p.inv (s.now + 1) p.inv), res)
      rw [updPt_self]
      intro _
      refine ⟨by omega, ?_⟩
      rw [Nat.add_sub_cancel, nextA_old (Nat.le_refl _), nextA_new, g.hA]
      exact hspec
  · intro p1 _ _
    exact Or.inr (RdOK_of_not_reader hnr)

/-- a call on key `k` completes at its linearization point; `τ0` is the time that justifies its result
(a read), or it is a writer that takes effect now -/
theorem ginv_call_fin {k : Nat} {s s' : State} {A : Nat → KSt} {pt : Nat → Nat} {t : Nat} {l : Local}
    {p : Pending} {res : KRes} {τ0 : Nat}
    (g : GInv k s A pt) (I : Inv s) (I' : Inv s') (hs : HS s s') (hf : FirstOK s s')
    (hl : s.threads[t]? = some l) (hp : l.call = some p) (hk : p.key = k)
    (hthr : s'.threads = s.threads.set t { pc := .idle, call := none }) (hnow : s'.now = s.now + 1)
    (hhist : s'.hist = [(p.key, ⟨t, p.op, res, p.inv, s.now + 1⟩)] ++ s.hist)
    (hres0 : resOfPc l.pc = none)
    (hcase : (isRead p.op = true ∧ absOf s' k = absOf s k ∧ p.inv ≤ τ0 ∧ τ0 ≤ s.now ∧
        specStep (A τ0) p.op = (A τ0, res)) ∨
      (isRead p.op = false ∧ τ0 = s.now + 1 ∧ specStep (absOf s k) p.op = (absOf s' k, res))) :
    GInv k s' (nextA A s.now (absOf s' k)) (updPt pt p.inv τ0) := by
  have hpi := I.thr.pendTime t l p hl hp
  refine ginv_new (τ0 := τ0) (c0 := ⟨t, p.op, res, p.inv, s.now + 1⟩) g I I' hs hf hl hp hthr hnow hhist
    (extOf_none_of_pc hres0) ?_ ?_ rfl ?_ ?_ ?_ ?_
  · rintro c' (hc' | hc')
    · simp only [List.mem_singleton, Prod.mk.injEq] at hc'
      exact hc'.2
    · have : extOf k (s.now + 1) t { pc := .idle, call := none } = none := rfl
      rw [this] at hc'; cases hc'
  · refine mem_callsOnExt.2 (Or.inl ?_)
    rw [hhist, hk]; exact List.mem_cons_self
  · rcases hcase with ⟨hrd, habs, h1, h2, hspec⟩ | ⟨hwr, hτ, hspec⟩
    · refine ⟨?_, ?_, ?_, ?_⟩
      · show p.inv ≤ updPt pt p.inv τ0 p.inv
        rw [updPt_self]; exact h1
      · show updPt pt p.inv τ0 p.inv ≤ s.now + 1
        rw [updPt_self]; omega
      · show isRead p.op = true → specStep (nextA A s.now _ (updPt pt p.inv τ0 p.inv)) p.op = (_, res)
        rw [updPt_self, nextA_old h2]
        intro _; exact hspec
      · intro hw
        have : isRead p.op = false := hw
        rw [hrd] at this; cases this
    · subst hτ
      refine ⟨?_, ?_, ?_, ?_⟩
      · show p.inv ≤ updPt pt p.inv (s.now + 1) p.inv
        rw [updPt_self]; omega
      · show updPt pt p.inv (s.now + 1) p.inv ≤ s.now + 1
        rw [updPt_self]; exact Nat.le_refl _
      · intro hr
        have : isRead p.op = true := hr
        rw [hwr] at this; cases this
      · show isRead p.op = false → 1 ≤ updPt pt p.inv (s.now + 1) p.inv ∧
          specStep (nextA A s.now _ (updPt pt p.inv (s.now + 1) p.inv - 1)) p.op =
            (nextA A s.now _ (updPt pt p.inv (s.now + 1) p.inv), res)
        rw [updPt_self]
        intro _
        refine ⟨by omega, ?_⟩
        rw [Nat.add_sub_cancel, nextA_old (Nat.le_refl _), nextA_new, g.hA]
        exact hspec
  · intro hw
    rcases hcase with ⟨hrd, _⟩ | ⟨_, hτ, _⟩
    · have : isRead p.op = false := hw
      rw [hrd] at this; cases this
    · exact hτ
  · intro hne
    rcases hcase with ⟨_, habs, _⟩ | ⟨hwr, _, _⟩
    · exact absurd habs hne
    · exact hwr
  · intro p1 hp1; cases hp1

theorem isRead_cases {op : KOp} (h : isRead op = true) : op = .get ∨ op = .has := by
  cases op <;> first | exact Or.inl rfl | exact Or.inr rfl | cases h

theorem absentRes_spec {op : KOp} (h : isRead op = true) : specStep none op = (none, absentRes op) := by
  rcases isRead_cases h with hop | hop <;> rw [hop] <;> rfl

/-! ## list and tree of the live `TreeBin` -/

theorem tree_eq_list {s : State} (I : Inv s) {b : Nat} (hc : s.cell = .tree b)
    (hsub : ∀ j, j < s.heap.length → (nodeAt s.heap j).owner = some b → (nodeAt s.heap j).inTree = true → j ∈ liveChain s)
    (hsup : ∀ j ∈ liveChain s, (nodeAt s.heap j).inTree = true) (k : Nat) :
    absTree s b k = absOf s k := by
  have H := I.heap
  unfold absTree
  cases hf : treeFind s b k with
  | none =>
    simp only
    symm
    rw [absOf_eq, absL_eq_none_iff]
    intro j hj
    have ho := H.chainOwner j hj
    rw [liveOwner_tree hc] at ho
    exact treeFind_none hf j (H.chain_lt hj) ho (hsup j hj)
  | some i =>
    simp only
    obtain ⟨hi, ho, hin, hk⟩ := treeFind_some hf
    symm
    rw [absOf_eq, absL_eq_some_iff H.distinct]
    exact ⟨i, hsub i hi ho hin, hk, rfl⟩

/-- with `writer` clear, list and tree of the live `TreeBin` hold the same nodes -/
theorem Inv.sets_eq_of_no_writer {s : State} (I : Inv s) {b : Nat} (hc : s.cell = .tree b)
    (hw : (binAt s.tbins b).writer = false) :
    (∀ j, j < s.heap.length → (nodeAt s.heap j).owner = some b → (nodeAt s.heap j).inTree = true → j ∈ liveChain s) ∧
    (∀ j ∈ liveChain s, (nodeAt s.heap j).inTree = true) := by
  have hno : ∀ (t : Nat) (l : Local), s.threads[t]? = some l → validT l.pc = some b → wr l.pc = false := by
    intro t l hl hv
    have hm := (I.lock.mx t l b hl).1 (holdsMutex_of_validT hv)
    have := (I.lock.bitsSome b t l hc hl hm).1
    rw [hw] at this; exact this.symm
  constructor
  · intro j hj ho hin
    apply Classical.byContradiction
    intro hnc
    obtain ⟨t, l, hl, hpc⟩ := I.data.treeSub b hc j hj ho hin hnc
    rcases hpc with ⟨res, hpc⟩ | ⟨res, hpc⟩
    · have := hno t l hl (by rw [hpc]; rfl); rw [hpc] at this; cases this
    · have := hno t l hl (by rw [hpc]; rfl); rw [hpc] at this; cases this
  · intro j hj
    cases hin : (nodeAt s.heap j).inTree with
    | true => rfl
    | false =>
      obtain ⟨t, l, hl, hpc⟩ := I.data.chainSub b hc j hj hin
      have := hno t l hl (by rw [hpc]; rfl); rw [hpc] at this; cases this

/-- a thread that holds a read lock of `b`: `b` is the live `TreeBin` and nobody holds its write lock -/
theorem Inv.reader_live {s : State} (I : Inv s) {t : Nat} {l : Local} {b : Nat} (hl : s.threads[t]? = some l)
    (hr : holdsRead l.pc = some b) : s.cell = .tree b ∧ (binAt s.tbins b).writer = false := by
  have hpos := I.lock.reader_pos hl hr
  have hw : (binAt s.tbins b).writer = false := by
    cases hw : (binAt s.tbins b).writer with
    | false => rfl
    | true => have := I.lock.wrd b hw; omega
  refine ⟨?_, hw⟩
  apply Classical.byContradiction
  intro hc
  obtain ⟨hb, hnk⟩ := I.lock.refOK t l b hl (binRef_of_holdsRead hr)
  rcases I.lock.dead b hb hc with h1 | ⟨t1, l1, h, hl1, hpc1⟩
  · rw [hw] at h1; cases h1
  · exact hnk t1 l1 h hl1 hpc1

/-! ## transitions that leave the heap alone but for lock words -/

theorem quiet_hs {s s' : State} {t : Nat} {l l' : Local} (I : Inv s) (q : Quiet s s')
    (hl : s.threads[t]? = some l) (hthr : s'.threads = s.threads.set t l')
    (hks : ∀ h b, l'.pc ≠ .kStore h b) : HS s s' := by
  unfold HS
  rw [q.chain_eq I.heap]
  refine HeapStep.of_same (by rw [q.heap.1]; exact Nat.le_refl _)
    (fun j _ => ⟨(q.heap.2 j).1, (q.heap.2 j).2.1, (q.heap.2 j).2.2.1⟩) ?_
  exact priv_same hl hthr hks (fun j _ => (q.heap.2 j).2.2.2.2)

theorem quiet_first {s s' : State} (q : Quiet s s') : FirstOK s s' := fun b _ _ => q.first b

theorem lockKind_quiet {s s' : State} {t : Nat} {pc pc' : Pc} (k : LockKind s t pc pc' s'.heap)
    (htb : s'.tbins = s.tbins) (hcell : s'.cell = s.cell) : Quiet s s' :=
  ⟨hcell, k.heapEqv, by rw [htb], fun b => by rw [htb]⟩

theorem bin_quiet {s s' : State} {b0 : Nat} {f : TBin → TBin} (hheap : s'.heap = s.heap) (hcell : s'.cell = s.cell)
    (htb : s'.tbins = s.tbins.modify b0 f) (hf : ∀ x, (f x).first = x.first) : Quiet s s' :=
  ⟨hcell, by rw [hheap]; exact HeapEqv.refl _, by rw [htb, List.length_modify],
    fun b => by rw [htb]; exact binAt_modify_first _ _ hf b⟩

theorem BMove.quiet {s : State} {t : Nat} {p : Pending} {pc pc' : Pc} {tb : List TBin} (hm : BMove s t p pc pc' tb)
    {s' : State} (hheap : s'.heap = s.heap) (hcell : s'.cell = s.cell) (htb : s'.tbins = tb) : Quiet s s' := by
  cases hm <;> exact bin_quiet hheap hcell htb (fun _ => rfl)

theorem BFin.quiet {s : State} {p : Pending} {pc : Pc} {res : KRes} {tb : List TBin} (hf : BFin s p pc res tb)
    {s' : State} (hheap : s'.heap = s.heap) (hcell : s'.cell = s.cell) (htb : s'.tbins = tb) : Quiet s s' := by
  cases hf <;> exact bin_quiet hheap hcell htb (fun _ => rfl)

set_option linter.unusedSimpArgs false in
theorem BMove.tfacts {s : State} {t : Nat} {p : Pending} {pc pc' : Pc} {tb : List TBin}
    (hm : BMove s t p pc pc' tb) :
    (∀ h b, pc' ≠ .kStore h b) ∧ resOfPc pc' = resOfPc pc ∧
      (∀ b, binRef pc' = some b → binRef pc = some b) := by
  cases hm
  case lrTryOk b k res _ _ _ => cases k <;> simp [afterLock, resOfPc, binRef]
  case lrLoopOk b k res _ _ => cases k <;> simp [afterLock, resOfPc, binRef]
  all_goals simp [resOfPc, binRef]

/-- a `Move` either keeps the thread on its side of its linearization point, or it is the `tFind`
step of a tree-bin writer that changes nothing -/
theorem Move.res_keep {s : State} {t : Nat} {p : Pending} {pc pc' : Pc} {hp : List NodeS}
    (hm : Move s t p pc pc' hp) :
    resOfPc pc' = resOfPc pc ∨
    (resOfPc pc = none ∧ ∃ b res, pc' = .tUnlockM b res false ∧ pc = .tFind b ∧
      specStep (absTree s b p.key) p.op = (absTree s b p.key, res)) := by
  cases hm
  case findDone b res h => exact Or.inr ⟨rfl, b, res, rfl, rfl, h⟩
  case rCellTree lo b hc => cases lo <;> exact Or.inl rfl
  case lrTryFail b k res => cases k <;> exact Or.inl rfl
  all_goals exact Or.inl rfl

/-- what the new program counter of a reader knows (in the old state) -/
theorem Move.rdOK {k : Nat} {s : State} {A : Nat → KSt} {pt : Nat → Nat} {t : Nat} {p : Pending} {l : Local}
    {pc' : Pc} {hp : List NodeS}
    (hm : Move s t p l.pc pc' hp) (g : GInv k s A pt) (I : Inv s)
    (hl : s.threads[t]? = some l) (hpc : l.call = some p) (hk : p.key = k) : RdOK A k p.inv s pc' := by
  have hpi := I.thr.pendTime t l p hl hpc
  have hR := g.readers t l p hl hpc hk
  have hP := I.data.pcInv t l p hl hpc
  have H := I.heap
  have V := H.live
  have hA : A s.now = absL s.heap (liveChain s) k := by rw [g.hA, absOf_eq]
  have hrl : ∀ b, holdsRead l.pc = some b → s.cell = .tree b ∧ (binAt s.tbins b).writer = false :=
    fun b hr => I.reader_live hl hr
  obtain ⟨pc, call⟩ := l
  simp only at hpc hm hR hP hrl
  subst hpc
  cases hm with
  | @rCellList lo h hc =>
    simp only [RdOK]
    have := Good.first (A := A) (k := k) (inv := p.inv) (now := s.now) (P := Priv s) V hA hpi
    have hst : liveStart s = some h := by unfold liveStart; rw [hc]
    rw [hst] at this; exact this
  | @rCellTree lo b hc =>
    have := Good.first (A := A) (k := k) (inv := p.inv) (now := s.now) (P := Priv s) V hA hpi
    rw [liveStart_tree hc] at this
    cases lo <;> simp only [RdOK, if_true, Bool.false_eq_true, if_false] <;> exact this
  | @rNodeNext c n hn hne =>
    simp only [RdOK] at hR ⊢
    have hnode := nodeAt_of_some hn
    have := hR.next V hA hpi (by rw [hnode, ← hk]; exact hne)
    rw [hnode] at this
    exact this
  | rFirst => simp only [RdOK] at hR ⊢; exact hR
  | rLinMode _ => simp only [RdOK] at hR ⊢; exact hR
  | rTreeMode _ => simp only [RdOK] at hR ⊢; exact hR
  | @rLinNext b c n hn hne =>
    simp only [RdOK] at hR ⊢
    have hnode := nodeAt_of_some hn
    have := hR.next V hA hpi (by rw [hnode, ← hk]; exact hne)
    rw [hnode] at this
    exact this
  | @rLinHit b c n hn hkey _ =>
    simp only [RdOK] at hR ⊢
    simp only [PcInv] at hP
    have hnode := nodeAt_of_some hn
    have hkc : (nodeAt s.heap c).key = k := by rw [hnode, hkey, hk]
    exact ⟨hkc, hP, hR.hit V hA hpi hkc⟩
  | rCasFail => simp only [RdOK] at hR ⊢; exact hR
  | @rTree b =>
    obtain ⟨hc, hw⟩ := hrl b rfl
    obtain ⟨hsub, hsup⟩ := I.sets_eq_of_no_writer hc hw
    have hga := tree_eq_list I hc hsub hsup k
    rw [hk]
    cases hf : treeFind s b k with
    | none =>
      simp only [RdOK]
      refine ⟨s.now, hpi, Nat.le_refl _, ?_⟩
      rw [g.hA, ← hga]; unfold absTree; rw [hf]
    | some i =>
      simp only [RdOK]
      obtain ⟨hi, _, _, hik⟩ := treeFind_some hf
      refine ⟨hik, hi, s.now, hpi, Nat.le_refl _, ?_⟩
      rw [g.hA, ← hga]; unfold absTree; rw [hf]
  | lFirst => simp only [RdOK] at hR ⊢; exact hR
  | @lNext c n hn hne =>
    simp only [RdOK] at hR ⊢
    have hnode := nodeAt_of_some hn
    have := hR.next V hA hpi (by rw [hnode, ← hk]; exact hne)
    rw [hnode] at this
    exact this
  | @lHit c n hn hkey _ =>
    simp only [RdOK] at hR ⊢
    simp only [PcInv] at hP
    have hnode := nodeAt_of_some hn
    have hkc : (nodeAt s.heap c).key = k := by rw [hnode, hkey, hk]
    exact ⟨hkc, hP, hR.hit V hA hpi hkc⟩
  | wCellCas _ _ => exact RdOK_of_not_reader rfl
  | wCellList _ => exact RdOK_of_not_reader rfl
  | wCellTree _ => exact RdOK_of_not_reader rfl
  | wCasFail _ => exact RdOK_of_not_reader rfl
  | wLock _ _ => exact RdOK_of_not_reader rfl
  | wCheckOk _ => exact RdOK_of_not_reader rfl
  | wCheckFail _ => exact RdOK_of_not_reader rfl
  | wFindEnd => exact RdOK_of_not_reader rfl
  | wFindHit _ _ => exact RdOK_of_not_reader rfl
  | wFindNext _ _ => exact RdOK_of_not_reader rfl
  | wUnlockRetry => exact RdOK_of_not_reader rfl
  | tCheckOk _ => exact RdOK_of_not_reader rfl
  | tCheckFail _ => exact RdOK_of_not_reader rfl
  | findVal _ _ => exact RdOK_of_not_reader rfl
  | findInsert _ _ => exact RdOK_of_not_reader rfl
  | findRemove _ _ => exact RdOK_of_not_reader rfl
  | findDone _ => exact RdOK_of_not_reader rfl
  | lrTryFail => exact RdOK_of_not_reader rfl

/-- the `TreeBin` the new program counter refers to exists -/
theorem ref_lt {s : State} {t : Nat} {l : Local} {pc' : Pc} (I : Inv s) (hl : s.threads[t]? = some l)
    (href : ∀ b, binRef pc' = some b → binRef l.pc = some b ∨ s.cell = .tree b) :
    ∀ b, binRef pc' = some b → b < s.tbins.length := by
  intro b hb
  rcases href b hb with h | h
  · exact (I.lock.refOK t l b hl h).1
  · exact I.heap.cellOK b h

/-- the time that justifies the result of a read call that completes -/
theorem fin_point {k : Nat} {s : State} {A : Nat → KSt} {pt : Nat → Nat} {t : Nat} {l : Local}
    {p : Pending} {res : KRes} {hp : List NodeS}
    (g : GInv k s A pt) (I : Inv s) (hl : s.threads[t]? = some l) (hpc : l.call = some p)
    (hk : p.key = k) (hf : Fin s p l.pc res hp) (hrd : isRead p.op = true) :
    ∃ τ0, p.inv ≤ τ0 ∧ τ0 ≤ s.now ∧ specStep (A τ0) p.op = (A τ0, res) := by
  have hpi := I.thr.pendTime t l p hl hpc
  have hR := g.readers t l p hl hpc hk
  have hP := I.data.pcInv t l p hl hpc
  have hO := I.thr.opOK t l p hl hpc
  have H := I.heap
  have V := H.live
  have hA : A s.now = absL s.heap (liveChain s) k := by rw [g.hA, absOf_eq]
  have hmiss : ∀ τ, A τ = none → specStep (A τ) p.op = (A τ, absentRes p.op) := by
    intro τ h; rw [h]; exact absentRes_spec hrd
  have hget : ∀ (τ : Nat) (x : Nat × Nat), A τ = some x → p.op ≠ .has →
      specStep (A τ) p.op = (A τ, .some x.1 x.2) := by
    intro τ x h hne
    rw [h]
    rcases isRead_cases hrd with hop | hop
    · rw [hop]
      have : ∀ x : Nat × Nat, specStep (some x) .get = (some x, .some x.1 x.2) := fun ⟨_, _⟩ => rfl
      exact this _
    · exact absurd hop hne
  obtain ⟨pc, call⟩ := l
  simp only at hpc hf hR hP hO
  subst hpc
  cases hf with
  | @rCellEmpty lo hc =>
    refine ⟨s.now, hpi, Nat.le_refl _, hmiss _ ?_⟩
    rw [hA, absL_eq_none_iff]
    have : liveChain s = [] := by
      rw [liveChain_eq]
      have : liveStart s = none := by unfold liveStart; rw [hc]
      rw [this, chainOf_none]
    rw [this]; intro i hi; cases hi
  | rNodeMiss =>
    simp only [RdOK] at hR
    obtain ⟨τ, h1, h2, h3⟩ := hR.miss
    exact ⟨τ, h1, h2, hmiss τ h3⟩
  | @rNodeHit c n hn hkey =>
    simp only [RdOK] at hR
    have hnode := nodeAt_of_some hn
    obtain ⟨τ, h1, h2, h3⟩ := hR.hit V hA hpi (by rw [hnode, hkey, hk])
    refine ⟨τ, h1, h2, ?_⟩
    rw [hnode] at h3
    rcases isRead_cases hrd with hop | hop
    · rw [h3, hop]
      have : ∀ x : Nat × Nat, specStep (some x) .get = (some x, .some x.1 x.2) := fun ⟨_, _⟩ => rfl
      exact this _
    · rw [h3, hop]; rfl
  | rMiss =>
    simp only [RdOK] at hR
    obtain ⟨τ, h1, h2, h3⟩ := hR.miss
    exact ⟨τ, h1, h2, hmiss τ h3⟩
  | @rLinHas b c n hn hkey hop =>
    simp only [RdOK] at hR
    have hnode := nodeAt_of_some hn
    obtain ⟨τ, h1, h2, h3⟩ := hR.hit V hA hpi (by rw [hnode, hkey, hk])
    refine ⟨τ, h1, h2, ?_⟩
    rw [h3, hop]; rfl
  | @rVal i n hn =>
    simp only [RdOK] at hR
    simp only [PcInv] at hP
    obtain ⟨_, _, τ, h1, h2, h3⟩ := hR
    rw [nodeAt_of_some hn] at h3
    exact ⟨τ, h1, h2, hget τ _ h3 hP⟩
  | lMiss =>
    simp only [RdOK] at hR
    obtain ⟨τ, h1, h2, h3⟩ := hR.miss
    exact ⟨τ, h1, h2, hmiss τ h3⟩
  | @lHas c n hn hkey hop =>
    simp only [RdOK] at hR
    have hnode := nodeAt_of_some hn
    obtain ⟨τ, h1, h2, h3⟩ := hR.hit V hA hpi (by rw [hnode, hkey, hk])
    refine ⟨τ, h1, h2, ?_⟩
    rw [h3, hop]; rfl
  | wCellEmpty _ _ =>
    have := hO (by simp) rfl
    rw [isReader_eq_isRead, hrd] at this
    cases this
  | wUnlockFin =>
    have := hO (by simp) rfl
    rw [isReader_eq_isRead, hrd] at this
    cases this

theorem Fin.kind {s : State} {p : Pending} {pc : Pc} {res : KRes} {hp : List NodeS}
    (hf : Fin s p pc res hp) :
    (readerPc pc = true ∧ resOfPc pc = none) ∨ (∃ h, pc = .wUnlock h res false) ∨
      (pc = .wCell ∧ res = .none ∧ s.cell = .empty ∧ isInsert p.op = false) := by
  cases hf
  case wUnlockFin h => exact Or.inr (Or.inl ⟨h, rfl⟩)
  case wCellEmpty h1 h2 => exact Or.inr (Or.inr ⟨rfl, rfl, h1, h2⟩)
  all_goals exact Or.inl ⟨rfl, rfl⟩

/-- a writer pc: the pending operation is a write -/
theorem isRead_false_of_pc {s : State} (I : Inv s) {t : Nat} {l : Local} {p : Pending}
    (hl : s.threads[t]? = some l) (hp : l.call = some p) (hni : l.pc ≠ .idle) (hnk : kPc l.pc = false)
    (hnr : readerPc l.pc = false) : isRead p.op = false := by
  have := I.thr.opOK t l p hl hp hni hnk
  rw [← isReader_eq_isRead, this, hnr]

theorem storeAt_frame (s : State) (p : Pending) (pred hit hnext : Option Nat) :
    (storeAt s p pred hit hnext).1.threads = s.threads ∧ (storeAt s p pred hit hnext).1.hist = s.hist ∧
      (storeAt s p pred hit hnext).1.now = s.now ∧ (storeAt s p pred hit hnext).1.tbins = s.tbins := by
  unfold storeAt
  cases p.op <;> cases hit <;> cases pred <;> exact ⟨rfl, rfl, rfl, rfl⟩

theorem BMove.rdOK {k : Nat} {s : State} {A : Nat → KSt} {t : Nat} {p : Pending} {pc pc' : Pc} {tb : List TBin}
    (hm : BMove s t p pc pc' tb) (hR : RdOK A k p.inv s pc) : RdOK A k p.inv s pc' := by
  cases hm with
  | rCasOk _ _ _ => simp only [RdOK]
  | rRelVal _ => simp only [RdOK] at hR ⊢; exact hR
  | tMutex _ => exact RdOK_of_not_reader rfl
  | @lrTryOk b k0 res _ _ _ => cases k0 <;> exact RdOK_of_not_reader rfl
  | @lrLoopOk b k0 res _ _ => cases k0 <;> exact RdOK_of_not_reader rfl
  | lrLoopWait _ => exact RdOK_of_not_reader rfl
  | unlockRoot => exact RdOK_of_not_reader rfl
  | tUnlockMRetry => exact RdOK_of_not_reader rfl

/-- the `first` fields after the list unlink of a tree-bin removal -/
theorem unlink_first {s : State} (H : HInv s) {b i : Nat} (hcell : s.cell = .tree b) (hi : i ∈ liveChain s)
    (t : Nat) (l' : Local) : FirstOK s (setT (unlinkOf (tick s) b i) t l') := by
  intro b' _ hc'
  have hlcb : chainOfBin (tick s) b = liveChain s := (liveChain_tree hcell).symm
  rcases predOf_cases H.nodup hi with ⟨l2, hch, hpr⟩ | ⟨l1, pr, l2, hch, hpr⟩
  · have hU : unlinkOf (tick s) b i = setBin (tick s) b (fun y => { y with first := (nodeAt s.heap i).next }) := by
      unfold unlinkOf; rw [hlcb, hpr]; rfl
    rw [hU] at hc' ⊢
    have hbb : b' ≠ b := by
      intro e; subst e
      exact hc' hcell
    show (binAt (s.tbins.modify b _) b').first = _
    rw [binAt_modify_ne _ (fun e => hbb e.symm)]
  · have hU : unlinkOf (tick s) b i = setNode (tick s) pr (fun m => { m with next := (nodeAt s.heap i).next }) := by
      unfold unlinkOf; rw [hlcb, hpr]; rfl
    rw [hU]
    rfl

/-- **every transition preserves the ghost invariant** -/
theorem ginv_step {k : Nat} {s s' : State} {A : Nat → KSt} {pt : Nat → Nat} {t : Nat} {l : Local}
    (g : GInv k s A pt) (I : Inv s) (hl : s.threads[t]? = some l) (hstep : StepK s t l s') :
    ∃ A' pt', GInv k s' A' pt' := by
  have I' := stepK_inv I hl hstep
  have H := I.heap
  cases hstep with
  | idle hpc =>
    have q : Quiet s (setT (tick s) t l) := ⟨rfl, HeapEqv.refl _, rfl, fun _ => rfl⟩
    refine ⟨_, _, ginv_quiet_keep (l' := l) g I I' (quiet_hs I q hl rfl (by rw [hpc]; simp)) (quiet_first q) hl rfl rfl rfl
      (q.abs_eq H k) rfl rfl ?_⟩
    intro p hp hk
    exact Or.inl ⟨I.thr.pendTime t l p hl hp, g.readers t l p hl hp hk, fun b hb => (I.lock.refOK t l b hl hb).1⟩
  | maint hpc =>
    have q : Quiet s (setT (tick s) t { l with pc := .kCell }) := ⟨rfl, HeapEqv.refl _, rfl, fun _ => rfl⟩
    refine ⟨_, _, ginv_quiet_keep (l' := { l with pc := .kCell }) g I I' (quiet_hs I q hl rfl (by simp)) (quiet_first q)
      hl rfl rfl rfl (q.abs_eq H k) (by rw [hpc]; rfl) rfl ?_⟩
    intro p _ _
    exact Or.inr (RdOK_of_not_reader rfl)
  | invoke k' op lo hpc =>
    have q : Quiet s (setT (tick s) t
        { pc := if isReader op then .rCell lo else .wCell, call := some ⟨k', op, s.now + 1⟩ }) :=
      ⟨rfl, HeapEqv.refl _, rfl, fun _ => rfl⟩
    refine ⟨_, _, ginv_quiet_none (hnew := []) g I I'
      (quiet_hs I q hl rfl (by intro h b; cases isReader op <;> simp)) (quiet_first q) hl rfl rfl rfl (by simp)
      (q.abs_eq H k) (extOf_none_of_pc (by rw [hpc]; rfl))
      (extOf_none_of_pc (by show resOfPc (if isReader op then .rCell lo else .wCell) = none
                            cases isReader op <;> rfl)) ?_⟩
    intro p _ _
    refine Or.inr ?_
    show RdOK _ _ _ _ (if isReader op then .rCell lo else .wCell)
    cases isReader op <;> simp [RdOK]
  | move p pc' hp hpc hm =>
    have q : Quiet s (setT (qst s hp s.tbins) t { l with pc := pc' }) := lockKind_quiet hm.lockKind rfl rfl
    have hs := quiet_hs (l' := { l with pc := pc' }) I q hl rfl (fun h b => (hm.facts.ks h b).2)
    have hf := quiet_first q
    have habs := q.abs_eq H k
    by_cases hk : p.key = k
    · rcases hm.res_keep with hkeep | ⟨hres0, b, res, rfl, hpcf, hspec⟩
      · refine ⟨_, _, ginv_quiet_keep (l' := { l with pc := pc' }) g I I' hs hf hl rfl rfl rfl habs hkeep rfl ?_⟩
        intro p1 hp1 _
        have : p1 = p := by
          have h : l.call = some p1 := hp1
          rw [hpc] at h; exact (Option.some.inj h).symm
        subst this
        exact Or.inl ⟨I.thr.pendTime t l p1 hl hpc, hm.rdOK g I hl hpc hk, ref_lt I hl hm.facts.ref⟩
      · have hvT : validT l.pc = some b := by rw [hpcf]; rfl
        have hc := I.lock.vT t l b hl hvT
        have hsub := I.tree_sub_chain hl hvT (by rw [hpcf]; intro j res; simp) (by rw [hpcf]; intro res; simp)
        have hsup := I.chain_sub_tree hl hvT (by rw [hpcf]; intro j; simp)
        have hga := tree_eq_list I hc hsub hsup k
        refine ⟨_, _, ginv_writer_point (l' := { l with pc := .tUnlockM b res false }) g I I' hs hf hl hpc hk rfl rfl rfl
          hres0 rfl rfl (isRead_false_of_pc I hl hpc (by rw [hpcf]; simp) (by rw [hpcf]; rfl) (by rw [hpcf]; rfl)) ?_ rfl⟩
        rw [habs, ← hga, ← hk]; exact hspec
    · exact ⟨_, _, ginv_other_key (hnew := []) (l' := { l with pc := pc' }) g I I' hs hf hl
        (fun p1 hp1 => by rw [hpc] at hp1; cases hp1; exact hk) rfl rfl rfl (by simp) habs (Or.inl rfl)⟩
  | bmove p pc' tb hpc hm =>
    have q : Quiet s (setT (qst s s.heap tb) t { l with pc := pc' }) := hm.quiet rfl rfl rfl
    obtain ⟨hks, hkeep, href⟩ := hm.tfacts
    have hs := quiet_hs (l' := { l with pc := pc' }) I q hl rfl hks
    have hf := quiet_first q
    have habs := q.abs_eq H k
    by_cases hk : p.key = k
    · refine ⟨_, _, ginv_quiet_keep (l' := { l with pc := pc' }) g I I' hs hf hl rfl rfl rfl habs hkeep rfl ?_⟩
      intro p1 hp1 _
      have : p1 = p := by
        have h : l.call = some p1 := hp1
        rw [hpc] at h; exact (Option.some.inj h).symm
      subst this
      exact Or.inl ⟨I.thr.pendTime t l p1 hl hpc, hm.rdOK (g.readers t l p1 hl hpc hk),
        fun b hb => (I.lock.refOK t l b hl (href b hb)).1⟩
    · exact ⟨_, _, ginv_other_key (hnew := []) (l' := { l with pc := pc' }) g I I' hs hf hl
        (fun p1 hp1 => by rw [hpc] at hp1; cases hp1; exact hk) rfl rfl rfl (by simp) habs (Or.inl rfl)⟩
  | kmove pc' hp hpc hm =>
    have q : Quiet s (setT (qst s hp s.tbins) t { l with pc := pc' }) := lockKind_quiet hm.lockKind rfl rfl
    have hs := quiet_hs (l' := { l with pc := pc' }) I q hl rfl (fun h b => (hm.facts.ks h b).2)
    exact ⟨_, _, ginv_other_key (hnew := []) (l' := { l with pc := pc' }) g I I' hs (quiet_first q) hl
      (fun p1 hp1 => by rw [hpc] at hp1; cases hp1) rfl rfl rfl (by simp) (q.abs_eq H k) (Or.inl rfl)⟩
  | fin p res hp hpc hf =>
    have q : Quiet s (finish (qst s hp s.tbins) t p res) := lockKind_quiet (t := t) hf.lockKind rfl rfl
    have hs := quiet_hs (l' := { pc := .idle, call := none }) I q hl rfl (by simp)
    have hfo := quiet_first q
    have habs := q.abs_eq H k
    by_cases hk : p.key = k
    · rcases hf.kind with ⟨hrp, hres0⟩ | ⟨h, hpcu⟩ | ⟨hpcw, hresn, hce, hni⟩
      · have hni : l.pc ≠ .idle := by intro h; rw [h] at hrp; cases hrp
        have hnk : kPc l.pc = false := by
          cases hpc' : l.pc <;> rw [hpc'] at hrp <;> simp [readerPc] at hrp <;> rfl
        have hrd : isRead p.op = true := by
          rw [← isReader_eq_isRead, I.thr.opOK t l p hl hpc hni hnk, hrp]
        obtain ⟨τ0, h1, h2, h3⟩ := fin_point g I hl hpc hk hf hrd
        exact ⟨_, _, ginv_call_fin g I I' hs hfo hl hpc hk rfl rfl rfl hres0 (Or.inl ⟨hrd, habs, h1, h2, h3⟩)⟩
      · have hext : extOf k s.now t l = some ⟨t, p.op, res, p.inv, s.now⟩ :=
          extOf_eq_some.2 ⟨res, p, by rw [hpcu]; rfl, hpc, hk, rfl⟩
        have hsim : Sim ⟨t, p.op, res, p.inv, s.now⟩ ⟨t, p.op, res, p.inv, s.now + 1⟩ :=
          ⟨rfl, rfl, rfl, rfl, Nat.le_succ _⟩
        refine ⟨_, _, ginv_quiet (hnew := [(p.key, ⟨t, p.op, res, p.inv, s.now + 1⟩)])
          (l' := { pc := .idle, call := none }) g I I' hs hfo hl rfl rfl rfl habs ?_ ?_ ?_⟩
        · rintro c' (hc' | hc')
          · simp only [List.mem_singleton, Prod.mk.injEq] at hc'
            rw [hc'.2]
            exact ⟨_, hext, hsim⟩
          · have : extOf k (s.now + 1) t { pc := .idle, call := none } = none := rfl
            rw [this] at hc'; cases hc'
        · intro c hc
          rw [hext] at hc; cases hc
          exact ⟨_, Or.inl (by rw [hk]; exact List.mem_singleton.2 rfl), hsim⟩
        · intro p1 hp1; cases hp1
      · subst hresn
        have hwr : isRead p.op = false :=
          isRead_false_of_pc I hl hpc (by rw [hpcw]; simp) (by rw [hpcw]; rfl) (by rw [hpcw]; rfl)
        have habs0 : absOf s k = none := by
          rw [absOf_eq, absL_eq_none_iff]
          have : liveChain s = [] := by
            rw [liveChain_eq]
            have : liveStart s = none := by unfold liveStart; rw [hce]
            rw [this, chainOf_none]
          rw [this]; intro i hi; cases hi
        refine ⟨_, _, ginv_call_fin (τ0 := s.now + 1) g I I' hs hfo hl hpc hk rfl rfl rfl (by rw [hpcw]; rfl)
          (Or.inr ⟨hwr, rfl, ?_⟩)⟩
        rw [habs, habs0]
        cases hop : p.op with
        | get => rw [hop] at hwr; simp [isRead] at hwr
        | has => rw [hop] at hwr; simp [isRead] at hwr
        | ins _ _ => rw [hop] at hni; simp [isInsert] at hni
        | tryIns _ _ => rw [hop] at hni; simp [isInsert] at hni
        | rm => rfl
        | cipInc _ => rfl
        | cipRm => rfl
    · exact ⟨_, _, ginv_other_key (hnew := [(p.key, ⟨t, p.op, res, p.inv, s.now + 1⟩)])
        (l' := { pc := .idle, call := none }) g I I' hs hfo hl
        (fun p1 hp1 => by rw [hpc] at hp1; cases hp1; exact hk) rfl rfl rfl
        (by intro x hx; rw [List.mem_singleton.1 hx]; exact hk) habs (Or.inr rfl)⟩
  | bfin p res tb hpc hf =>
    have q : Quiet s (finish (qst s s.heap tb) t p res) := hf.quiet rfl rfl rfl
    have hs := quiet_hs (l' := { pc := .idle, call := none }) I q hl rfl (by simp)
    have hfo := quiet_first q
    have habs := q.abs_eq H k
    by_cases hk : p.key = k
    · have hR := g.readers t l p hl hpc hk
      have hO := I.thr.opOK t l p hl hpc
      have hpi := I.thr.pendTime t l p hl hpc
      obtain ⟨pc, call⟩ := l
      simp only at hpc hf hR hO
      subst hpc
      cases hf with
      | @rRelNone b =>
        have hrd : isRead p.op = true := by
          rw [← isReader_eq_isRead, hO (by simp) rfl]; rfl
        simp only [RdOK] at hR
        obtain ⟨τ, h1, h2, h3⟩ := hR
        exact ⟨_, _, ginv_call_fin g I I' hs hfo hl rfl hk rfl rfl rfl rfl
          (Or.inl ⟨hrd, habs, h1, h2, by rw [h3]; exact absentRes_spec hrd⟩)⟩
      | @rRelHas b i hop =>
        have hrd : isRead p.op = true := by rw [hop]; rfl
        simp only [RdOK] at hR
        obtain ⟨_, _, τ, h1, h2, h3⟩ := hR
        exact ⟨_, _, ginv_call_fin g I I' hs hfo hl rfl hk rfl rfl rfl rfl
          (Or.inl ⟨hrd, habs, h1, h2, by rw [h3, hop]; rfl⟩)⟩
      | @tUnlockMFin b =>
        have hext : extOf k s.now t ⟨.tUnlockM b res false, some p⟩ = some ⟨t, p.op, res, p.inv, s.now⟩ :=
          extOf_eq_some.2 ⟨res, p, rfl, rfl, hk, rfl⟩
        have hsim : Sim ⟨t, p.op, res, p.inv, s.now⟩ ⟨t, p.op, res, p.inv, s.now + 1⟩ :=
          ⟨rfl, rfl, rfl, rfl, Nat.le_succ _⟩
        refine ⟨_, _, ginv_quiet (hnew := [(p.key, ⟨t, p.op, res, p.inv, s.now + 1⟩)])
          (l' := { pc := .idle, call := none }) g I I' hs hfo hl rfl rfl rfl habs ?_ ?_ ?_⟩
        · rintro c' (hc' | hc')
          · simp only [List.mem_singleton, Prod.mk.injEq] at hc'
            rw [hc'.2]
            exact ⟨_, hext, hsim⟩
          · have : extOf k (s.now + 1) t { pc := .idle, call := none } = none := rfl
            rw [this] at hc'; cases hc'
        · intro c hc
          rw [hext] at hc; cases hc
          exact ⟨_, Or.inl (by rw [hk]; exact List.mem_singleton.2 rfl), hsim⟩
        · intro p1 hp1; cases hp1
    · exact ⟨_, _, ginv_other_key (hnew := [(p.key, ⟨t, p.op, res, p.inv, s.now + 1⟩)])
        (l' := { pc := .idle, call := none }) g I I' hs hfo hl
        (fun p1 hp1 => by rw [hpc] at hp1; cases hp1; exact hk) rfl rfl rfl
        (by intro x hx; rw [List.mem_singleton.1 hx]; exact hk) habs (Or.inr rfl)⟩
  | cas p v vi hp hpc hc hop =>
    obtain ⟨_, hs, habs0, habs⟩ := cas_facts (v := v) (vi := vi) I hl hp hpc hc
    have hfo : ∀ {s' : State}, s'.tbins = s.tbins → FirstOK s s' := fun h b _ _ => by rw [h]
    by_cases hk : p.key = k
    · have hwr : isRead p.op = false := by rcases hop with h | h <;> rw [h] <;> rfl
      refine ⟨_, _, ginv_call_fin (τ0 := s.now + 1) g I I' hs (hfo rfl) hl hp hk rfl rfl rfl (by rw [hpc]; rfl)
        (Or.inr ⟨hwr, rfl, ?_⟩)⟩
      rw [habs k, if_pos hk, ← hk, habs0]
      rcases hop with h | h <;> rw [h] <;> rfl
    · exact ⟨_, _, ginv_other_key (hnew := [(p.key, ⟨t, p.op, .none, p.inv, s.now + 1⟩)])
        (l' := { pc := .idle, call := none }) g I I' hs (hfo rfl) hl
        (fun p1 hp1 => by rw [hp] at hp1; cases hp1; exact hk) rfl rfl rfl
        (by intro x hx; rw [List.mem_singleton.1 hx]; exact hk) (by rw [habs k, if_neg hk]) (Or.inr rfl)⟩
  | store p h pred hit hnext hp hpc =>
    obtain ⟨_, hs, hother, hspec⟩ := store_facts I hl hp hpc
    obtain ⟨f1, f2, f3, f4⟩ := storeAt_frame (tick s) p pred hit hnext
    have hthr : (setT (storeAt (tick s) p pred hit hnext).1 t
        { l with pc := .wUnlock h (storeAt (tick s) p pred hit hnext).2 false }).threads =
        s.threads.set t { l with pc := .wUnlock h (storeAt (tick s) p pred hit hnext).2 false } := by
      show (storeAt (tick s) p pred hit hnext).1.threads.set t _ = _
      rw [f1]; rfl
    have hfo : FirstOK s (setT (storeAt (tick s) p pred hit hnext).1 t
        { l with pc := .wUnlock h (storeAt (tick s) p pred hit hnext).2 false }) := by
      intro b _ _
      show (binAt (storeAt (tick s) p pred hit hnext).1.tbins b).first = _
      rw [f4]; rfl
    by_cases hk : p.key = k
    · refine ⟨_, _, ginv_writer_point (l' := { l with pc := .wUnlock h (storeAt (tick s) p pred hit hnext).2 false })
        g I I' hs hfo hl hp hk hthr f3 f2 (by rw [hpc]; rfl) rfl rfl
        (isRead_false_of_pc I hl hp (by rw [hpc]; simp) (by rw [hpc]; rfl) (by rw [hpc]; rfl)) ?_ rfl⟩
      rw [← hk]; exact hspec
    · exact ⟨_, _, ginv_other_key (hnew := [])
        (l' := { l with pc := .wUnlock h (storeAt (tick s) p pred hit hnext).2 false }) g I I' hs hfo hl
        (fun p1 hp1 => by rw [hp] at hp1; cases hp1; exact hk) hthr f3
        (by show (storeAt (tick s) p pred hit hnext).1.hist = _; rw [f2]; rfl) (by simp)
        (hother k (fun e => hk e.symm)) (Or.inl rfl)⟩
  | tval p b i v res hp hpc =>
    obtain ⟨_, hs, habs⟩ := tval_facts I hl hp hpc
    have h0 := I.data.pcInv t l p hl hp
    rw [hpc] at h0
    simp only [PcInv] at h0
    obtain ⟨hi, hkey0, hspec⟩ := h0
    have hfo : FirstOK s (setT (setNode (tick s) i (fun n => { n with val := v })) t { l with pc := .tUnlockM b res false }) :=
      fun _ _ _ => rfl
    by_cases hk : p.key = k
    · refine ⟨_, _, ginv_writer_point (l' := { l with pc := .tUnlockM b res false }) g I I' hs hfo hl hp hk rfl rfl rfl
        (by rw [hpc]; rfl) rfl rfl
        (isRead_false_of_pc I hl hp (by rw [hpc]; simp) (by rw [hpc]; rfl) (by rw [hpc]; rfl)) ?_ rfl⟩
      have h1 : absOf s k = some (nodeAt s.heap i).val := by
        rw [absOf_eq, absL_eq_some_iff H.distinct]
        exact ⟨i, hi, by rw [hkey0, hk], rfl⟩
      rw [habs k, if_pos (by rw [hkey0, hk]), h1]
      exact hspec
    · exact ⟨_, _, ginv_other_key (hnew := []) (l' := { l with pc := .tUnlockM b res false }) g I I' hs hfo hl
        (fun p1 hp1 => by rw [hp] at hp1; cases hp1; exact hk) rfl rfl rfl
        (by simp) (by rw [habs k, if_neg (by rw [hkey0]; exact hk)]) (Or.inl rfl)⟩
  | prepend p b v vi hp hpc hop =>
    obtain ⟨_, hs, habs0, habs⟩ := prepend_facts (v := v) (vi := vi) I hl hp hpc
    have hcell := I.lock.vT t l b hl (by rw [hpc]; rfl)
    have hfo : ∀ {s' : State}, s'.cell = s.cell →
        s'.tbins = s.tbins.modify b (fun y => { y with first := some s.heap.length }) → FirstOK s s' := by
      intro s' h1 h2 b' _ hc'
      have hbb : b' ≠ b := by
        intro e; subst e
        rw [h1] at hc'
        exact hc' hcell
      rw [h2, binAt_modify_ne _ (fun e => hbb e.symm)]
    by_cases hk : p.key = k
    · refine ⟨_, _, ginv_writer_point (res := .none) (l' := { l with pc := .tTreeLinkLocked b s.heap.length })
        g I I' hs (hfo rfl rfl) hl hp hk rfl rfl rfl
        (by rw [hpc]; rfl) rfl rfl
        (isRead_false_of_pc I hl hp (by rw [hpc]; simp) (by rw [hpc]; rfl) (by rw [hpc]; rfl)) ?_ rfl⟩
      rw [habs k, if_pos hk, ← hk, habs0]
      rcases hop with hop | hop <;> rw [hop] <;> rfl
    · exact ⟨_, _, ginv_other_key (hnew := []) (l' := { l with pc := .tTreeLinkLocked b s.heap.length })
        g I I' hs (hfo rfl rfl) hl (fun p1 hp1 => by rw [hp] at hp1; cases hp1; exact hk) rfl rfl rfl
        (by simp) (by rw [habs k, if_neg hk]) (Or.inl rfl)⟩
  | treeLink p b x hp hpc =>
    obtain ⟨_, hs, habs⟩ := treeLink_facts I hl hp hpc
    refine ⟨_, _, ginv_quiet_keep (l' := { l with pc := .tUnlockRoot b .none }) g I I' hs (fun _ _ _ => rfl) hl rfl rfl rfl
      (habs k) (by rw [hpc]; rfl) rfl ?_⟩
    intro p1 _ _
    exact Or.inr (RdOK_of_not_reader rfl)
  | unlink p b i res small hp hpc =>
    obtain ⟨_, hs, hnow, hhist, hthr, habs⟩ := unlink_facts small I hl hp hpc
    have h0 := I.data.pcInv t l p hl hp
    rw [hpc] at h0
    simp only [PcInv, RemOK] at h0
    obtain ⟨hi, hin, hkey0, hspec⟩ := h0
    have hcell := I.lock.vT t l b hl (by rw [hpc]; rfl)
    have hfo := unlink_first H hcell hi t { l with pc := if small then .tUntreeify b res else .tRestructure b i res }
    by_cases hk : p.key = k
    · refine ⟨_, _, ginv_writer_point (res := res)
        (l' := { l with pc := if small then .tUntreeify b res else .tRestructure b i res })
        g I I' hs hfo hl hp hk hthr hnow hhist
        (by rw [hpc]; rfl) (by cases small <;> rfl) rfl
        (isRead_false_of_pc I hl hp (by rw [hpc]; simp) (by rw [hpc]; rfl) (by rw [hpc]; rfl)) ?_
        (by cases small <;> rfl)⟩
      have h1 : absOf s k = some (nodeAt s.heap i).val := by
        rw [absOf_eq, absL_eq_some_iff H.distinct]
        exact ⟨i, hi, by rw [hkey0, hk], rfl⟩
      rw [habs k, if_pos (by rw [hkey0, hk]), h1]
      exact hspec
    · exact ⟨_, _, ginv_other_key (hnew := [])
        (l' := { l with pc := if small then .tUntreeify b res else .tRestructure b i res }) g I I' hs hfo hl
        (fun p1 hp1 => by rw [hp] at hp1; cases hp1; exact hk) hthr hnow (by rw [hhist]; rfl) (by simp)
        (by rw [habs k, if_neg (by rw [hkey0]; exact hk)]) (Or.inl rfl)⟩
  | untree p b i res hp hpc =>
    obtain ⟨_, hs, habs⟩ := untree_facts I hl hp hpc
    refine ⟨_, _, ginv_quiet_keep (l' := { l with pc := .tUnlockRoot b res }) g I I' hs (fun _ _ _ => rfl) hl rfl rfl rfl
      (habs k) (by rw [hpc]; rfl) rfl ?_⟩
    intro p1 _ _
    exact Or.inr (RdOK_of_not_reader rfl)
  | untreeify p b res hp hpc =>
    obtain ⟨_, hs, habs⟩ := untreeify_facts I hl hp hpc
    refine ⟨_, _, ginv_quiet_keep (l' := { l with pc := .tUnlockM b res false }) g I I' hs (fun _ _ _ => rfl) hl rfl rfl rfl
      (habs k) (by rw [hpc]; rfl) rfl ?_⟩
    intro p1 _ _
    exact Or.inr (RdOK_of_not_reader rfl)
  | kbuild h hc hpc =>
    obtain ⟨_, hs, habs⟩ := kbuild_facts I hl hc hpc
    have hfo : FirstOK s (setT (buildOf (tick s) h) t { l with pc := .kStore h s.tbins.length }) := by
      intro b hb _
      show (binAt (s.tbins ++ _) b).first = _
      rw [binAt_append_left _ hb]
    exact ⟨_, _, ginv_other_key (hnew := []) (l' := { l with pc := .kStore h s.tbins.length }) g I I' hs hfo hl
      (fun p1 hp1 => by rw [hc] at hp1; cases hp1) rfl rfl rfl (by simp) (habs k) (Or.inl rfl)⟩
  | kstore h b hc hpc =>
    obtain ⟨_, hs, habs⟩ := kstore_facts I hl hc hpc
    exact ⟨_, _, ginv_other_key (hnew := []) (l' := { l with pc := .kUnlock h }) g I I' hs (fun _ _ _ => rfl) hl
      (fun p1 hp1 => by rw [hc] at hp1; cases hp1) rfl rfl rfl (by simp) (habs k) (Or.inl rfl)⟩

/-! ## from the ghost invariant to linearizability -/

theorem init_ginv (n k : Nat) : GInv k (init n) (fun _ => none) id := by
  have hthr : ∀ (t : Nat) (l : Local), (init n).threads[t]? = some l → l = {} := fun t l h => init_threads h
  have hnil : callsOnExt (init n) k = [] := by
    rw [List.eq_nil_iff_forall_not_mem]
    intro c hc
    rcases mem_callsOnExt.1 hc with hc | ⟨t, l, hl, he⟩
    · simp [init] at hc
    · rw [hthr t l hl] at he
      cases he
  refine ⟨rfl, ?_, ?_, ?_, ?_, ?_⟩
  · symm
    rw [absOf_eq, absL_eq_none_iff]
    intro i hi
    simp [liveChain, init] at hi
  · intro c hc; rw [hnil] at hc; cases hc
  · intro τ h1 h2
    have : (init n).now = 0 := rfl
    omega
  · intro c hc; rw [hnil] at hc; cases hc
  · intro t l p hl hc
    rw [hthr t l hl] at hc
    cases hc

/-- the ghost invariant holds in every reachable state -/
theorem reachable_ginv {n : Nat} {s : State} (hr : Reachable n s) (k : Nat) :
    ∃ A pt, GInv k s A pt := by
  induction hr with
  | init => exact ⟨_, _, init_ginv n k⟩
  | @step s s' t inv lo mt sm hr hs ih =>
    obtain ⟨A, pt, g⟩ := ih
    cases hl : s.threads[t]? with
    | none => unfold step stepG at hs; rw [hl] at hs; cases hs
    | some l => exact ginv_step g (reachable_inv hr) hl (step_stepK hl hs)

/-- from the ghost invariant to linearizability (the trace lemma) -/
theorem GInv.linearizable {k : Nat} {s : State} {A : Nat → KSt} {pt : Nat → Nat}
    (g : GInv k s A pt) (I : Inv s) : Linearizable (callsOnExt s k) none (absOf s k) := by
  have h := lin_of_trace (h := callsOnExt s k) A s.now (fun c => pt c.inv) ?_ ?_ ?_ ?_ ?_
  · rw [g.h0, g.hA] at h; exact h
  · intro c hc
    obtain ⟨h1, h2, -, -⟩ := g.calls c hc
    have := callsOnExt_resp_le I.thr hc
    exact ⟨h1, h2, by omega⟩
  · intro c hc hw; exact (g.calls c hc).2.2.2 hw
  · intro c hc hrd; exact (g.calls c hc).2.2.1 hrd
  · refine (callsOnExt_pairwise I.thr k).imp_of_mem ?_
    intro c d hc hd hne hwc hwd hpe
    exact hne (g.inj c hc d hd hwc hwd hpe)
  · intro τ h1 h2 hno
    apply Classical.byContradiction
    intro hne
    obtain ⟨c, hc, hw, hp⟩ := g.stab τ h1 h2 hne
    exact hno c hc hw hp

/-- **linearizability of the extended per-key history** (completed calls plus writers past their
linearization point), ending in the abstract state of the live structure -/
theorem binK_linearizable_ext {n : Nat} {s : State} (hr : Reachable n s) (k : Nat) :
    Lin.Linearizable (callsOnExt s k) none (absOf s k) := by
  obtain ⟨A, pt, g⟩ := reachable_ginv hr k
  exact g.linearizable (reachable_inv hr)

/-- quiescent form -/
theorem binK_linearizable_quiescent_aux {n : Nat} {s : State} (hr : Reachable n s) (hq : quiescent s) (k : Nat) :
    Lin.Linearizable (callsOn s k) none (absOf s k) := by
  have := binK_linearizable_ext hr k
  rw [callsOnExt_quiescent hq] at this
  exact this

/-- at quiescence the live `TreeBin` is unlocked and its tree holds exactly the nodes of its list -/
theorem quiescent_tree_eq_list_aux {n : Nat} {s : State} (hr : Reachable n s) (hq : quiescent s) {b : Nat}
    (hc : s.cell = .tree b) :
    (s.tbins.getD b dfltB).writer = false ∧
    ∀ i, i < s.heap.length → ((s.heap.getD i dflt).owner = some b ∧ (s.heap.getD i dflt).inTree = true ↔
      i ∈ chainOfBin s b) := by
  have I := reachable_inv hr
  have hw : (binAt s.tbins b).writer = false := by
    cases hm : (binAt s.tbins b).mutex with
    | none => exact (I.lock.bitsNone b hc hm).1
    | some x =>
      have hv := I.lock.mxValid b x hm
      have hl : s.threads[x]? = some s.threads[x] := List.getElem?_eq_getElem hv
      have := (I.lock.bitsSome b x _ hc hl hm).1
      rw [hq _ (List.mem_of_getElem? hl)] at this
      exact this
  refine ⟨hw, ?_⟩
  obtain ⟨hsub, hsup⟩ := I.sets_eq_of_no_writer hc hw
  intro i hi
  rw [← liveChain_tree hc]
  constructor
  · rintro ⟨ho, hin⟩
    exact hsub i hi ho hin
  · intro hm
    have ho := I.heap.chainOwner i hm
    rw [liveOwner_tree hc] at ho
    exact ⟨ho, hsup i hm⟩

/-- a conversion leaves the abstract state of every key as it was -/
theorem conversion_abs_invariant_aux {n : Nat} {s s' : State} (hr : Reachable n s) {t : Nat}
    {inv : Option (Nat × KOp)} {lo mt sm : Bool} {l : Local}
    (hl : s.threads[t]? = some l)
    (hpc : (∃ h b, l.pc = .kStore h b) ∨ (∃ b res, l.pc = .tUntreeify b res))
    (hs : step s t inv lo mt sm = some s') (k : Nat) : absOf s' k = absOf s k := by
  have I := reachable_inv hr
  have hK := step_stepK hl hs
  obtain ⟨pc, call⟩ := l
  simp only at hpc
  rcases hpc with ⟨h, b, rfl⟩ | ⟨b, res, rfl⟩
  · cases hK with
    | kstore h' b' hc hpc' => exact (kstore_facts I hl hc hpc').2.2 k
    | idle hpc' => cases hpc'
    | maint hpc' => cases hpc'
    | invoke _ _ _ hpc' => cases hpc'
    | move p pc' hp hc hm => cases hm
    | bmove p pc' tb hc hm => cases hm
    | kmove pc' hp hc hm => cases hm
    | fin p res hp hc hf => cases hf
    | bfin p res tb hc hf => cases hf
    | cas p v vi hp hpc' _ _ => cases hpc'
    | store p h' pred hit hnext hp hpc' => cases hpc'
    | tval p b' i v res hp hpc' => cases hpc'
    | prepend p b' v vi hp hpc' _ => cases hpc'
    | treeLink p b' x hp hpc' => cases hpc'
    | unlink p b' i res small hp hpc' => cases hpc'
    | untree p b' i res hp hpc' => cases hpc'
    | untreeify p b' res hp hpc' => cases hpc'
    | kbuild h' hc hpc' => cases hpc'
  · cases hK with
    | untreeify p b' res' hp hpc' => exact (untreeify_facts I hl hp hpc').2.2 k
    | idle hpc' => cases hpc'
    | maint hpc' => cases hpc'
    | invoke _ _ _ hpc' => cases hpc'
    | move p pc' hp hc hm => cases hm
    | bmove p pc' tb hc hm => cases hm
    | kmove pc' hp hc hm => cases hm
    | fin p res hp hc hf => cases hf
    | bfin p res tb hc hf => cases hf
    | cas p v vi hp hpc' _ _ => cases hpc'
    | store p h' pred hit hnext hp hpc' => cases hpc'
    | tval p b' i v res hp hpc' => cases hpc'
    | prepend p b' v vi hp hpc' _ => cases hpc'
    | treeLink p b' x hp hpc' => cases hpc'
    | unlink p b' i res small hp hpc' => cases hpc'
    | untree p b' i res hp hpc' => cases hpc'
    | kbuild h' hc hpc' => cases hpc'
    | kstore h' b' hc hpc' => cases hpc'

/-! ## the re-check of the cell is load-bearing -/

abbrev Sch := Nat × Option (Nat × KOp) × Bool × Bool × Bool

/-- run a schedule of `(thread, invocation, listOnly, maint, small)` WITHOUT the re-check of the cell -/
def runNC (s : State) : List Sch → Option State
  | [] => some s
  | (t, inv, lo, mt, sm) :: rest =>
    match stepNoCheck s t inv lo mt sm with
    | some s' => runNC s' rest
    | none => none

theorem runNC_reachable {n : Nat} : ∀ (sched : List Sch) {s s' : State},
    ReachableNoCheck n s → runNC s sched = some s' → ReachableNoCheck n s'
  | [], s, s', hr, h => by
    simp only [runNC, Option.some.injEq] at h
    exact h ▸ hr
  | (t, inv, lo, mt, sm) :: rest, s, s', hr, h => by
    simp only [runNC] at h
    cases hs : stepNoCheck s t inv lo mt sm with
    | none => rw [hs] at h; cases h
    | some s1 =>
      rw [hs] at h
      exact runNC_reachable rest (ReachableNoCheck.step t inv lo mt sm hr hs) h

abbrev go (t : Nat) : Sch := (t, none, false, false, false)

/-- thread 0 inserts key 1 (CAS into the empty cell), invokes a second `ins 1` and loads the cell
(`list 0`); thread 1 treeifies the bin (lock node 0, copy, store `tree 0`, unlock); thread 0 then
locks node 0 — the head of the **dead** list —, trusts the lock, finds key 1 and overwrites the value
of the dead node: the update is lost -/
def ncSchedule : List Sch :=
  [ (0, some (1, .ins 10 100), false, false, false), go 0, go 0,
    (0, some (1, .ins 20 101), false, false, false), go 0,
    (1, none, false, true, false), go 1, go 1, go 1, go 1, go 1, go 1,
    go 0, go 0, go 0, go 0, go 0 ]

def ncCheck : Bool :=
  match runNC (init 2) ncSchedule with
  | some s => s.threads.all (fun l => l.pc == .idle) && (search (callsOn s 1) none (absOf s 1)).isNone
  | none => false

theorem ncCheck_true : ncCheck = true := by decide

theorem nc_history : (runNC (init 2) ncSchedule).map (fun s => (callsOn s 1, absOf s 1)) =
    some ([ ⟨0, .ins 10 100, .none, 1, 3⟩, ⟨0, .ins 20 101, .some 10 100, 4, 17⟩ ], some (10, 100)) := by decide

/-- **without the re-check the bin is not linearizable**: a reachable quiescent state whose history on
key `1` — two inserts — ends in the value of the first -/
theorem noCheck_refutes_aux :
    ∃ (n : Nat) (s : State) (k : Nat), ReachableNoCheck n s ∧ quiescent s ∧
      ¬ Lin.Linearizable (callsOn s k) none (absOf s k) := by
  have h := ncCheck_true
  unfold ncCheck at h
  cases hrun : runNC (init 2) ncSchedule with
  | none => rw [hrun] at h; cases h
  | some s =>
    rw [hrun] at h
    simp only [Bool.and_eq_true, List.all_eq_true, beq_iff_eq, Option.isNone_iff_eq_none] at h
    exact ⟨2, s, 1, runNC_reachable ncSchedule ReachableNoCheck.init hrun, h.1, search_eq_none_iff.1 h.2⟩

end Flurry.Proto.BinK
