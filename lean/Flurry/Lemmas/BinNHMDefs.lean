import Flurry.Lemmas.BinNDefs
/-! # Proto/BinNH: the heap invariant with ONE MID-TRANSFER CELL PER HELPER (definitions)

`Lemmas/BinNDefs.lean` with the ghost "cell in mid-transfer" generalised from `mid : Option (j, lo, hg)`
(+ one fresh range `fr`) to a finite map `mid : j ↦ (lo, hg, fr)` over the cells of generation `cur`:
`G.mid j = some (lo, hg, fr)` — cell `(cur, j)` has been split by some helper (which holds its bin lock),
`lo` / `hg` are the heads of the new lists, `fr` the index range of the fresh copies of THAT split.
Everything that does not mention the ghost (`CellId`, `getCell`, `chId`, `keyOn`, `cellId`, `liveId`, `LC`,
`Shape`, `WalkOK`, `WInv`, `CR`, `ord`, `NextOK`, `SideOK`, `Split`, …) is `Proto/BinN`'s. -/
namespace Flurry.Proto.BinNHM
open Flurry.Lin
open Flurry.Proto.BinN
open Flurry.Proto.BinX (NodeS Cell Pending dflt chainFrom cellHead cellOfHead nodeAt IsSeg IsChain chainH absIn
  KeysDistinct Walk)

structure Ghost where
  cr : CR := fun _ => false
  /-- per cell `j` of generation `cur`: the split that is under way -/
  mid : Nat → Option (Option Nat × Option Nat × (Nat × Nat)) := fun _ => none

/-- cell `(cur, j)` is being split -/
def IsMid (G : Ghost) (j : Nat) : Prop := (G.mid j).isSome = true

/-- the ghost with the split of cell `j` recorded / cleared -/
def Ghost.setMid (G : Ghost) (j : Nat) (x : Option (Option Nat × Option Nat × (Nat × Nat))) : Ghost :=
  { G with mid := fun i => if i = j then x else G.mid i }

/-- a cell whose chain may be written -/
def Active (s : State) (G : Ghost) (id : CellId) : Prop :=
  (id.1 = s.cur ∧ id.2 < 2 ^ s.cur ∧ getCell s id ≠ .moved ∧ ¬ IsMid G id.2) ∨
  (id.1 = s.cur + 1 ∧ id.2 < 2 ^ (s.cur + 1) ∧ cellAt s s.cur (id.2 % 2 ^ s.cur) = .moved)

/-- nodes that may still be written or (re-)linked -/
def Live (s : State) (G : Ghost) (i : Nat) : Prop :=
  (∃ id, i ∈ chId s id) ∨
  (∃ j lo hg fr, G.mid j = some (lo, hg, fr) ∧
    (i ∈ chainH s.heap (cellOfHead lo) ∨ i ∈ chainH s.heap (cellOfHead hg)))

structure HInv (s : State) (G : Ghost) : Prop where
  shape : Shape s
  nextOK : NextOK G.cr s.heap
  crLt : ∀ i, isCopy G.cr i → i < s.heap.length
  frOK : ∀ j lo hg fr, G.mid j = some (lo, hg, fr) → fr.2 ≤ s.heap.length ∧ ∀ i, isFresh fr i → isCopy G.cr i
  head : ∀ id h, getCell s id = .node h → h < s.heap.length
  keys : ∀ id, KeysDistinct s.heap (chId s id)
  side : ∀ id, ∀ i ∈ chId s id, keyOn id (nodeAt s.heap i).key
  /-- a cell of the next generation is empty unless its parent is forwarded or being split -/
  nextEmpty : ∀ j', cellAt s s.cur (j' % 2 ^ s.cur) ≠ .moved → ¬ IsMid G (j' % 2 ^ s.cur) →
    cellAt s (s.cur + 1) j' = .empty
  mid : ∀ j lo hg fr, G.mid j = some (lo, hg, fr) → j < 2 ^ s.cur ∧ (∃ h, cellAt s s.cur j = .node h) ∧
    (cellAt s (s.cur + 1) j = .empty ∨ cellAt s (s.cur + 1) j = cellOfHead lo) ∧
    (cellAt s (s.cur + 1) (j + 2 ^ s.cur) = .empty ∨ cellAt s (s.cur + 1) (j + 2 ^ s.cur) = cellOfHead hg) ∧
    Split (bitAt s.cur) s.heap G.cr fr (chId s (s.cur, j)) lo hg

theorem isMid_of {G : Ghost} {j : Nat} {lo hg : Option Nat} {fr : Nat × Nat} (h : G.mid j = some (lo, hg, fr)) :
    IsMid G j := by unfold IsMid; rw [h]; rfl

theorem isMid_some {G : Ghost} {j : Nat} (h : IsMid G j) : ∃ lo hg fr, G.mid j = some (lo, hg, fr) := by
  unfold IsMid at h
  cases hm : G.mid j with
  | none => rw [hm] at h; cases h
  | some x => exact ⟨x.1, x.2.1, x.2.2, rfl⟩

theorem not_isMid_of_none {G : Ghost} {j : Nat} (h : G.mid j = none) : ¬ IsMid G j := by
  unfold IsMid; rw [h]; intro e; cases e

theorem setMid_self (G : Ghost) (j : Nat) (x) : (G.setMid j x).mid j = x := by
  unfold Ghost.setMid; simp

theorem setMid_ne (G : Ghost) {j i : Nat} (x) (h : i ≠ j) : (G.setMid j x).mid i = G.mid i := by
  unfold Ghost.setMid; simp [h]

theorem setMid_cr (G : Ghost) (j : Nat) (x) : (G.setMid j x).cr = G.cr := rfl

end Flurry.Proto.BinNHM
