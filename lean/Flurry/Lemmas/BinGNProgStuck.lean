import Flurry.Lemmas.BinGNProgEn
/-! # Proto/BinGN, progress (port of the `Lemmas/BinGProg*.lean` file of the same name): no reachable state is a deadlock

The wait-for relation of `Proto/BinG` has depth at most three and no cycle:
* a thread blocked at `wLock h` / `kLock h` / `xLock h` waits for the holder of the lock word of node
  `h`; by `LInv.lk` the holder is a thread at a program counter with `holdsLock = some h`, and none of
  these is a waiting program counter (a list-bin writer, a treeify and the list transfer take *one* lock
  and then only load, store and unlock) — so the holder's step is enabled;
* a thread blocked at `tMutex b` / `yMutex b` waits for the holder of the mutex of `TreeBin` `b`; by
  `LInv.mx` the holder is at a program counter with `holdsMutex = some b`; the only waiting one among
  these is `lrLoop` (the nesting mutex → write lock inside one `TreeBin`);
* a thread parked at `lrLoop b` (`WAITER` set) holds the mutex of `b`, hence `WRITER` is not set
  (`LInv.bitsSome`), hence `readers ≠ 0`; by `LInv.rd` the reader count is the number of threads at
  `rTree b` / `rRelease b _`, so there is such a thread — and a reader's step is always enabled.
`binGN_never_stuck_aux`: hence in every state with `Inv` and `BInv` in which some thread is not `idle`,
some thread that is not `idle` has an enabled step (for every value of the scheduler's arguments). -/
namespace Flurry.Proto.BinGNP
open Flurry.Lin
open Flurry.Proto.BinK (nodeAt binAt lockSet isInsert NextOK nodeAt_of_some)

/-- the step is enabled whatever the scheduler's arguments are -/
def Enabled (s : State) (t : Nat) : Prop :=
  ∀ (inv : Option (Nat × KOp)) (lo : Bool) (mt : Option Nat) (rz sm sm2 : Bool) (pick : Nat),
    (step s t inv lo mt rz sm sm2 pick).isSome = true

theorem enabled_of_not_blocked {s : State} (I : Inv s) (B : BInv s) {t : Nat} {l : Local}
    (hl : s.threads[t]? = some l) (hne : l.pc ≠ .idle) (hnb : ¬ Blocked s l.pc) : Enabled s t := by
  intro inv lo mt rz sm sm2 pick
  rcases step_enabled_or_blocked I B hl hne inv lo mt rz sm sm2 pick with h | h
  · exact h
  · exact absurd h hnb

theorem enabled_of_not_waitPc {s : State} (I : Inv s) (B : BInv s) {t : Nat} {l : Local}
    (hl : s.threads[t]? = some l) (hne : l.pc ≠ .idle) (hw : waitPc l.pc = false) : Enabled s t :=
  enabled_of_not_blocked I B hl hne (not_blocked_of_not_waitPc hw)

/-! ## holders -/

/-- the holder of a lock word is not at a waiting program counter -/
theorem holdsLock_not_wait {pc : Pc} {h : Nat} (hh : holdsLock pc = some h) : pc ≠ .idle ∧ waitPc pc = false := by
  cases pc <;> first | (simp [holdsLock] at hh; done) | exact ⟨(by intro e; cases e), rfl⟩

/-- the holder of a mutex is not at a waiting program counter, except `lrLoop` -/
theorem holdsMutex_not_wait {pc : Pc} {b : Nat} (hh : holdsMutex pc = some b) :
    pc ≠ .idle ∧ (waitPc pc = false ∨ ∃ tab k res, pc = .lrLoop tab b k res) := by
  cases pc with
  | lrLoop tab b' k res =>
    have : b' = b := by simpa [holdsMutex] using hh
    subst this
    exact ⟨(by intro e; cases e), Or.inr ⟨tab, k, res, rfl⟩⟩
  | _ => first | (simp [holdsMutex] at hh; done) | exact ⟨(by intro e; cases e), Or.inl rfl⟩

/-- a reader inside a `TreeBin` is not at a waiting program counter -/
theorem holdsRead_not_wait {pc : Pc} {b : Nat} (hh : holdsRead pc = some b) :
    pc ≠ .idle ∧ waitPc pc = false ∧ readerPc pc = true := by
  cases pc <;> first | (simp [holdsRead] at hh; done) | exact ⟨(by intro e; cases e), rfl, rfl⟩

/-- **a taken lock word has a holder**: a thread of the state, at a program counter that holds it -/
theorem lock_holder_exists {s : State} (I : Inv s) {h x : Nat} (hx : (nodeAt s.heap h).lock = some x) :
    ∃ l, s.threads[x]? = some l ∧ holdsLock l.pc = some h := by
  have hlt := I.lock.lkValid h x hx
  exact ⟨s.threads[x], List.getElem?_eq_getElem hlt, (I.lock.lk x _ h (List.getElem?_eq_getElem hlt)).2 hx⟩

/-- **a taken mutex has a holder**: a thread of the state, at a program counter that holds it -/
theorem mutex_holder_exists {s : State} (I : Inv s) {b x : Nat} (hx : (binAt s.tbins b).mutex = some x) :
    ∃ l, s.threads[x]? = some l ∧ holdsMutex l.pc = some b := by
  have hlt := I.lock.mxValid b x hx
  exact ⟨s.threads[x], List.getElem?_eq_getElem hlt, (I.lock.mx x _ b (List.getElem?_eq_getElem hlt)).2 hx⟩

theorem cnt_ne_zero {q : Pc → Bool} {ls : List Local} (h : cnt q ls ≠ 0) :
    ∃ (i : Nat) (l : Local), ls[i]? = some l ∧ q l.pc = true := by
  unfold cnt at h
  cases hf : ls.filter (fun l => q l.pc) with
  | nil => rw [hf] at h; exact absurd rfl h
  | cons a rest =>
    have ha : a ∈ ls.filter (fun l => q l.pc) := by rw [hf]; exact List.mem_cons_self
    obtain ⟨ha1, ha2⟩ := List.mem_filter.1 ha
    obtain ⟨i, hi⟩ := List.mem_iff_getElem?.1 ha1
    exact ⟨i, a, hi, ha2⟩

/-- **a positive reader count has a reader**: a thread at `rTree b` / `rRelease b _` -/
theorem reader_exists {s : State} (I : Inv s) {b : Nat} (hb : b < s.tbins.length)
    (hr : (binAt s.tbins b).readers ≠ 0) :
    ∃ (t : Nat) (l : Local), s.threads[t]? = some l ∧ holdsRead l.pc = some b := by
  rw [I.lock.rd b hb] at hr
  obtain ⟨i, l, hi, hq⟩ := cnt_ne_zero hr
  exact ⟨i, l, hi, by simpa using hq⟩

/-! ## the three levels of the wait-for relation -/

/-- a writer parked at `lrLoop` waits for a reader, and that reader can move -/
theorem parked_waits_for_reader {s : State} (I : Inv s) (B : BInv s) {t : Nat} {l : Local}
    (hl : s.threads[t]? = some l) {tab : Nat} {b : Nat} {k : After} {res : KRes}
    (hpc : l.pc = .lrLoop tab b k res) (hbl : Blocked s l.pc) :
    ∃ (t' : Nat) (l' : Local), s.threads[t']? = some l' ∧ holdsRead l'.pc = some b ∧ Enabled s t' := by
  have hv : validT l.pc = some b := by rw [hpc]; rfl
  have hm : holdsMutex l.pc = some b := by rw [hpc]; rfl
  have hcell := I.lock.vT t l b hl hv
  have hmx := (I.lock.mx t l b hl).1 hm
  have hbits := (I.lock.bitsSome (cidOf s l) b t l hcell hl hmx).1
  have hw : (binAt s.tbins b).writer = false := by rw [hbits, hpc]; rfl
  rw [hpc] at hbl
  have hrd : (binAt s.tbins b).readers ≠ 0 := by
    rcases hbl.2 with h | h
    · rw [hw] at h; cases h
    · exact h
  have hblt := I.lock.mutex_lt hl hm
  obtain ⟨t', l', hl', hr'⟩ := reader_exists I hblt hrd
  obtain ⟨hne, hnw, _⟩ := holdsRead_not_wait hr'
  exact ⟨t', l', hl', hr', enabled_of_not_waitPc I B hl' hne hnw⟩

/-- the witness of `binG_never_stuck`: from any thread that is not `idle`, following the wait-for
relation at most twice reaches a thread that is not `idle` and whose step is enabled -/
theorem waits_for_enabled {s : State} (I : Inv s) (B : BInv s) {t : Nat} {l : Local}
    (hl : s.threads[t]? = some l) (hne : l.pc ≠ .idle) :
    ∃ (t' : Nat) (l' : Local), s.threads[t']? = some l' ∧ l'.pc ≠ .idle ∧ Enabled s t' := by
  by_cases hbl : Blocked s l.pc
  · -- the holder of a lock word
    have lockCase : ∀ h, (nodeAt s.heap h).lock.isSome = true →
        ∃ (t' : Nat) (l' : Local), s.threads[t']? = some l' ∧ l'.pc ≠ .idle ∧ Enabled s t' := by
      intro h hh
      obtain ⟨x, hx⟩ := Option.isSome_iff_exists.1 hh
      obtain ⟨lx, hlx, hhx⟩ := lock_holder_exists I hx
      obtain ⟨hne', hnw⟩ := holdsLock_not_wait hhx
      exact ⟨x, lx, hlx, hne', enabled_of_not_waitPc I B hlx hne' hnw⟩
    -- the holder of a mutex, or the reader it is parked behind
    have mutexCase : ∀ b, (binAt s.tbins b).mutex.isSome = true →
        ∃ (t' : Nat) (l' : Local), s.threads[t']? = some l' ∧ l'.pc ≠ .idle ∧ Enabled s t' := by
      intro b hh
      obtain ⟨x, hx⟩ := Option.isSome_iff_exists.1 hh
      obtain ⟨lx, hlx, hhx⟩ := mutex_holder_exists I hx
      obtain ⟨hne', hnw⟩ := holdsMutex_not_wait hhx
      by_cases hbx : Blocked s lx.pc
      · rcases hnw with hnw | ⟨tab, k, res, hpc⟩
        · exact absurd hbx (not_blocked_of_not_waitPc hnw)
        · obtain ⟨t', l', hl', hr', he⟩ := parked_waits_for_reader I B hlx hpc hbx
          exact ⟨t', l', hl', (holdsRead_not_wait hr').1, he⟩
      · exact ⟨x, lx, hlx, hne', enabled_of_not_blocked I B hlx hne' hbx⟩
    cases hpc : l.pc with
    | wLock tab h => rw [hpc] at hbl; exact lockCase h hbl
    | kLock tab k h => rw [hpc] at hbl; exact lockCase h hbl
    | xLock j h => rw [hpc] at hbl; exact lockCase h hbl
    | tMutex tab b => rw [hpc] at hbl; exact mutexCase b hbl
    | yMutex j b => rw [hpc] at hbl; exact mutexCase b hbl
    | lrLoop tab b k res =>
      obtain ⟨t', l', hl', hr', he⟩ := parked_waits_for_reader I B hl hpc hbl
      exact ⟨t', l', hl', (holdsRead_not_wait hr').1, he⟩
    | _ => rw [hpc] at hbl; exact absurd hbl id
  · exact ⟨t, l, hl, hne, enabled_of_not_blocked I B hl hne hbl⟩

/-- **a blocked thread waits for another thread**: the holder of the lock word / of the mutex it waits
for, or (parked at `lrLoop`) a reader inside the bin — a thread different from itself -/
theorem blocked_on_other {s : State} (I : Inv s) (B : BInv s) {t : Nat} {l : Local}
    (hl : s.threads[t]? = some l) (hbl : Blocked s l.pc) :
    ∃ (t' : Nat) (l' : Local), t' ≠ t ∧ s.threads[t']? = some l' ∧ l'.pc ≠ .idle ∧
      ((∃ h, holdsLock l'.pc = some h) ∨ (∃ b, holdsMutex l'.pc = some b) ∨ (∃ b, holdsRead l'.pc = some b)) := by
  have lockCase : ∀ h, holdsLock l.pc = none → (nodeAt s.heap h).lock.isSome = true →
      ∃ (t' : Nat) (l' : Local), t' ≠ t ∧ s.threads[t']? = some l' ∧ l'.pc ≠ .idle ∧
        ((∃ h, holdsLock l'.pc = some h) ∨ (∃ b, holdsMutex l'.pc = some b) ∨ (∃ b, holdsRead l'.pc = some b)) := by
    intro h hnone hh
    obtain ⟨x, hx⟩ := Option.isSome_iff_exists.1 hh
    obtain ⟨lx, hlx, hhx⟩ := lock_holder_exists I hx
    refine ⟨x, lx, ?_, hlx, (holdsLock_not_wait hhx).1, Or.inl ⟨h, hhx⟩⟩
    intro e
    subst e
    rw [hl] at hlx
    cases hlx
    rw [hnone] at hhx; cases hhx
  have mutexCase : ∀ b, holdsMutex l.pc = none → (binAt s.tbins b).mutex.isSome = true →
      ∃ (t' : Nat) (l' : Local), t' ≠ t ∧ s.threads[t']? = some l' ∧ l'.pc ≠ .idle ∧
        ((∃ h, holdsLock l'.pc = some h) ∨ (∃ b, holdsMutex l'.pc = some b) ∨ (∃ b, holdsRead l'.pc = some b)) := by
    intro b hnone hh
    obtain ⟨x, hx⟩ := Option.isSome_iff_exists.1 hh
    obtain ⟨lx, hlx, hhx⟩ := mutex_holder_exists I hx
    refine ⟨x, lx, ?_, hlx, (holdsMutex_not_wait hhx).1, Or.inr (Or.inl ⟨b, hhx⟩)⟩
    intro e
    subst e
    rw [hl] at hlx
    cases hlx
    rw [hnone] at hhx; cases hhx
  cases hpc : l.pc with
  | wLock tab h => rw [hpc] at hbl; exact lockCase h (by rw [hpc]; rfl) hbl
  | kLock tab k h => rw [hpc] at hbl; exact lockCase h (by rw [hpc]; rfl) hbl
  | xLock j h => rw [hpc] at hbl; exact lockCase h (by rw [hpc]; rfl) hbl
  | tMutex tab b => rw [hpc] at hbl; exact mutexCase b (by rw [hpc]; rfl) hbl
  | yMutex j b => rw [hpc] at hbl; exact mutexCase b (by rw [hpc]; rfl) hbl
  | lrLoop tab b k res =>
    obtain ⟨t', l', hl', hr', _⟩ := parked_waits_for_reader I B hl hpc hbl
    refine ⟨t', l', ?_, hl', (holdsRead_not_wait hr').1, Or.inr (Or.inr ⟨b, hr'⟩)⟩
    intro e
    subst e
    rw [hl] at hl'
    cases hl'
    rw [hpc] at hr'; cases hr'
  | _ => rw [hpc] at hbl; exact absurd hbl id

theorem binGN_never_stuck_aux {s : State} (I : Inv s) (B : BInv s) (hq : ¬ quiescent s) :
    ∃ (t : Nat) (l : Local), s.threads[t]? = some l ∧ l.pc ≠ .idle ∧ Enabled s t := by
  have : ∃ l ∈ s.threads, l.pc ≠ .idle := by
    apply Classical.byContradiction
    intro hn
    apply hq
    intro l hl
    apply Classical.byContradiction
    intro hne
    exact hn ⟨l, hl, hne⟩
  obtain ⟨l, hmem, hne⟩ := this
  obtain ⟨t, hl⟩ := List.mem_iff_getElem?.1 hmem
  exact waits_for_enabled I B hl hne

end Flurry.Proto.BinGNP
