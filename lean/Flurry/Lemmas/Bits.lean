import Flurry.Gen.Arith
/-! Bit arithmetic of bin indices: the generated `bini` (`hash & (len-1)`) and `runBit`
(`hash & n`) for power-of-two table lengths. -/
namespace Flurry
open Flurry.Gen

theorem bini_eq_mod (h k : Nat) : bini h (2 ^ k) = h % 2 ^ k := by
  simp only [bini]
  exact Nat.and_two_pow_sub_one_eq_mod h k

theorem bini_lt (h k : Nat) : bini h (2 ^ k) < 2 ^ k := by
  rw [bini_eq_mod]; exact Nat.mod_lt _ (Nat.two_pow_pos k)

theorem runBit_eq (h k : Nat) : runBit h (2 ^ k) = (h / 2 ^ k % 2) * 2 ^ k := by
  simp only [runBit]
  apply Nat.eq_of_testBit_eq
  intro i
  rw [Nat.testBit_and, Nat.testBit_two_pow]
  by_cases hik : k = i
  · subst hik
    rcases Nat.mod_two_eq_zero_or_one (h / 2 ^ k) with h0 | h1
    · simp [h0, Nat.testBit, Nat.shiftRight_eq_div_pow]
    · simp [h1, Nat.testBit, Nat.shiftRight_eq_div_pow]
      rw [Nat.div_self (Nat.two_pow_pos k)]
  · simp [hik]
    rcases Nat.mod_two_eq_zero_or_one (h / 2 ^ k) with h0 | h1
    · simp [h0]
    · simp [h1, Nat.testBit_two_pow_of_ne hik]

theorem runBit_cases (h k : Nat) : runBit h (2 ^ k) = 0 ∨ runBit h (2 ^ k) = 2 ^ k := by
  rw [runBit_eq]
  rcases Nat.mod_two_eq_zero_or_one (h / 2 ^ k) with h0 | h1
  · left; simp [h0]
  · right; simp [h1]

/-- the bin index in the doubled table is the old index, plus `n` iff the split bit is set -/
theorem bini_double (h k : Nat) : bini h (2 ^ (k + 1)) = bini h (2 ^ k) + runBit h (2 ^ k) := by
  rw [bini_eq_mod, bini_eq_mod, runBit_eq, Nat.pow_succ, Nat.mod_mul, Nat.mul_comm (2 ^ k)]

end Flurry
