import Flurry.Lin
/-! # Histories of the whole map and locality (C01)

`Lin.lean` treats the history of ONE key; the harness projects every recorded history of the real
map onto its keys and decides each projection. This file states what that decides about the map
itself: a history of calls, each on one key, against the sequential specification of a *map*
(`Nat → KSt`, every call acting on its own key through `Lin.specStep`), and Herlihy & Wing's
locality theorem for this object — the map history is linearizable **iff** every per-key
projection is (`Lemmas/LinLocal.lean`, `Props/C01Local.lean`).

Definitions only. -/
namespace Flurry.LinMap
open Flurry.Lin

/-- a completed call on key `key` -/
structure MCall where
  key : Nat
  call : Call
deriving DecidableEq, Repr

abbrev MHistory := List MCall

/-- the state of a map: the state of every key -/
abbrev MSt := Nat → KSt

/-- the sequential specification of the map: a call acts on its own key only -/
def mspecStep (m : MSt) (k : Nat) (op : KOp) : MSt × KRes :=
  let r := specStep (m k) op
  (fun k' => if k' = k then r.1 else m k', r.2)

/-- replay the calls `order` (indices into `h`) through the map specification, checking results -/
def mreplay (h : MHistory) : List Nat → MSt → Option MSt
  | [], m => some m
  | i :: rest, m =>
    match h[i]? with
    | none => none
    | some c =>
      let r := mspecStep m c.key c.call.op
      if r.2 = c.call.res then mreplay h rest r.1 else none

/-- the usual definition, for the whole map: one total order of ALL calls (on all keys) respects
real time and is a legal sequential execution of a map from `init` to (pointwise) `fin` with
exactly the observed results -/
def MapLinearizable (h : MHistory) (init fin : MSt) : Prop :=
  ∃ order : List Nat,
    order.Perm (List.range h.length) ∧
    (∀ (p q : Nat) (a b : MCall), p < q → order[p]? >>= (h[·]?) = some a → order[q]? >>= (h[·]?) = some b →
        ¬ (b.call.resp < a.call.inv)) ∧
    ∃ m, mreplay h order init = some m ∧ ∀ k, m k = fin k

/-- the projection of a map history on one key, in the order of the history -/
def proj (h : MHistory) (k : Nat) : History := (h.filter (·.key == k)).map (·.call)

end Flurry.LinMap
