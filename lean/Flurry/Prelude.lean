/-! Hand-written prelude for the generated files: the few helper functions the
expression translator refers to. No Mathlib.

`npow2` models `usize::next_power_of_two` (smallest power of two `≥ n`, `1` for `n = 0`);
core's `Nat.nextPowerOfTwo` is the same function but its body is not exposed, so it cannot be
reasoned about; the two are compared by `#eval` in `Flurry/Lemmas/Pow2.lean` and the definition
is cross-checked against the Rust intrinsic on every run (check `gen-crosscheck`). -/
namespace Flurry

theorem npow2_dec {n power : Nat} (h₁ : power > 0) (h₂ : power < n) :
    n - power * 2 < n - power := by omega

/-- least power of two `≥ n`, starting the search at `power` -/
def npow2Go (n power : Nat) (h : power > 0) : Nat :=
  if power < n then npow2Go n (power * 2) (Nat.mul_pos h (by decide)) else power
termination_by n - power
decreasing_by exact npow2_dec h ‹_›

/-- `usize::next_power_of_two` -/
def npow2 (n : Nat) : Nat := npow2Go n 1 (by decide)

/-- `usize::leading_zeros` on a 64-bit word, as a function on naturals `< 2^64`. -/
def clz64 (n : Nat) : Nat := if n = 0 then 64 else 63 - Nat.log2 n

end Flurry
