import Flurry.Seq.Model
import Flurry.Gen.Serde
import Flurry.Spec.Bulk
import Flurry.Lin
import Flurry.Proto.ResizeMonitor
import Flurry.Proto.RwLockMonitor
import Flurry.Seq.Iter
/-! # Line-protocol driver for the sequential model (`lean_exe flurry-model`)

One request per line on stdin, one answer per line on stdout. Unknown or malformed lines are
answered `bad-op`, never defaulted. The Rust harness (`/verif/harness`) prints the same answers
from the real implementation; `/verif/check` diffs the two streams. -/
namespace Flurry.Driver
open Flurry Flurry.Seq

structure St where
  slots : Array (Option Map) := #[none, none, none, none]
  cur : Nat := 0
  /-- hash table of the most recent `new`/`collect` (key ↦ hash) -/
  hashes : List (Nat × Nat) := []

def lookupHash (hs : List (Nat × Nat)) (k : Nat) : Nat :=
  match hs.find? (·.1 == k) with
  | some (_, h) => h
  | none => 0

def parseNat? (s : String) : Option Nat := s.toNat?

def parsePairs (s : String) : Option (List (Nat × Nat)) :=
  if s == "" then some [] else
  (s.splitOn ",").mapM fun p =>
    match p.splitOn ":" with
    | [a, b] => do let a ← a.toNat?; let b ← b.toNat?; pure (a, b)
    | _ => none

def parseItems (s : String) : Option (List (Nat × Nat × Nat × Nat)) :=
  if s == "" then some [] else
  (s.splitOn ",").mapM fun p =>
    match p.splitOn ":" with
    | [a, b, c, d] => do
      let a ← a.toNat?; let b ← b.toNat?; let c ← c.toNat?; let d ← d.toNat?
      pure (a, b, c, d)
    | _ => none

def kv (pre : String) (s : String) : Option String :=
  if s.startsWith pre then some (s.drop pre.length).toString else none

def fmtNode (n : Node) : String := s!"{n.hash},{n.key},{n.ki},{n.val},{n.vi}"

def fmtTree : RB.T → String
  | .nil => "-"
  | .node red l e r => s!"({if red then "r" else "b"} {e.key} {fmtTree l} {fmtTree r})"

def fmtBin (i : Nat) : Bin → Option String
  | .empty => none
  | .list ns => some s!"{i}:L[{";".intercalate (ns.map fmtNode)}]"
  | .tree t o => some s!"{i}:T[{fmtTree t}|{";".intercalate (o.map fmtNode)}]"

def fmtSnap (m : Map) : String :=
  let bins := match m.table with
    | none => []
    | some t => (t.zipIdx.filterMap fun (b, i) => fmtBin i b)
  s!"len={tableLen m} sc={m.sizeCtl} count={m.count} {" ".intercalate bins}"

def fmtOut : Out → String
  | .none => "none"
  | .some v vi => s!"some {v} {vi}"
  | .someKV ki v vi => s!"somekv {ki} {v} {vi}"
  | .exists_ v vi => s!"exists {v} {vi}"
  | .ok => "ok"
  | .panic => "panic"

/-- predicates of `retain`: keep iff … ; `panicAt = some i` panics at the i-th call (0-based) -/
def mkPred (name : String) : Option (Nat → Nat → Bool) :=
  match name with
  | "even" => some fun k _ => k % 2 == 0
  | "odd" => some fun k _ => k % 2 == 1
  | "all" => some fun _ _ => true
  | "none" => some fun _ _ => false
  | "veven" => some fun _ v => v % 2 == 0
  | "k3" => some fun k _ => k % 3 != 0
  | _ => none

/-- run `retain`/`retain_force` with a counter so that the `i`-th predicate call panics -/
def runRetain (force : Bool) (p : Nat → Nat → Bool) (panicAt : Option Nat) (m : Map) : Map × Out :=
  let rec go (i : Nat) : List Node → Map → Map × Out
    | [], m => (m, .ok)
    | nd :: rest, m =>
      if panicAt == some i then (m, .panic)
      else if p nd.key nd.val then go (i + 1) rest m
      else
        let (m, _) := replaceNode nd.key none (if force then none else some nd.vi) m
        go (i + 1) rest m
  go 0 (entries m) m

/-! per-key history certificates (C01/C08): `lin init fin calls order` -/
def parseKSt (s : String) : Option Lin.KSt :=
  if s == "-" then some none else
  match s.splitOn "." with
  | [a, b] => do let a ← a.toNat?; let b ← b.toNat?; pure (some (a, b))
  | _ => none

def parseKOp (s : String) : Option Lin.KOp :=
  match s.splitOn "." with
  | ["ins", v, vi] => do let v ← v.toNat?; let vi ← vi.toNat?; pure (.ins v vi)
  | ["tryins", v, vi] => do let v ← v.toNat?; let vi ← vi.toNat?; pure (.tryIns v vi)
  | ["get"] => some .get
  | ["has"] => some .has
  | ["rm"] => some .rm
  | ["cipinc", n] => n.toNat?.map .cipInc
  | ["ciprm"] => some .cipRm
  | _ => none

def parseKRes (s : String) : Option Lin.KRes :=
  match s.splitOn "." with
  | ["none"] => some .none
  | ["some", v, vi] => do let v ← v.toNat?; let vi ← vi.toNat?; pure (.some v vi)
  | ["exists", v, vi] => do let v ← v.toNat?; let vi ← vi.toNat?; pure (.exists_ v vi)
  | ["true"] => some (.bool true)
  | ["false"] => some (.bool false)
  | _ => none

/-- a frozen chain of tables for the `trav` request: tables separated by `;`, bins by `|`, a bin is
`M` (forwarded), `-` (empty) or its nodes in `next` order separated by `+`, a node is `key.val.origin` -/
def parseChain (s : String) : Option Seq.Iter.Chain :=
  (s.splitOn ";").mapM fun t =>
    (t.splitOn "|").mapM fun b =>
      if b == "M" then some Seq.Iter.FBin.moved
      else if b == "-" then some (.nodes [])
      else
        ((b.splitOn "+").mapM fun (n : String) =>
          match n.splitOn "." with
          | [k, v, o] => do
            let k ← String.toNat? k; let v ← String.toNat? v; let o ← String.toNat? o
            pure ({ hash := 0, key := k, ki := 0, val := v, vi := o } : Node)
          | _ => none).map Seq.Iter.FBin.nodes

/-- executable form of `Seq.Iter.ChainWF` -/
def chainWFb (c : Seq.Iter.Chain) : Bool :=
  (List.range (c.length - 1)).all (fun j => (Seq.Iter.tableAt c (j + 1)).length == 2 * (Seq.Iter.tableAt c j).length) &&
  c.all (fun t => t.length > 0) &&
  (match c.getLast? with | some t => t.all (· != .moved) | none => true)

/-- `tid:word:acc:a:b:ok:seen` records of the control-word stream (`ctl` request) -/
def parseCtlEvs (s : String) : Option (List Proto.ResizeMonitor.Ev) :=
  if s == "" || s == "-" then some [] else
  (s.splitOn ",").mapM fun p =>
    match p.splitOn ":" with
    | [t, w, k, a, b, ok, seen] => do
      let t ← t.toNat?
      let w ← match w with
        | "sc" => some Proto.ResizeMonitor.Word.sizeCtl | "ti" => some .transferIndex
        | "tab" => some .table | "nt" => some .nextTable | _ => none
      let k ← match k with
        | "ld" => some Proto.ResizeMonitor.Acc.load | "st" => some .store | "sw" => some .swap
        | "cas" => some .cas | "y" => some .yield | _ => none
      let a ← a.toInt?; let b ← b.toInt?; let seen ← seen.toInt?
      pure { tid := t, word := w, acc := k, a := a, b := b, ok := ok == "1", seen := seen }
    | _ => none

/-- `tid:kind:a:b:seen` records of one tree bin's lock stream (`rw` request) -/
def parseRwEvs (s : String) : Option (List Proto.RwLockMonitor.Ev) :=
  if s == "" || s == "-" then some [] else
  (s.splitOn ",").mapM fun p =>
    match p.splitOn ":" with
    | [t, k, a, b, seen] => do
      let t ← t.toNat?
      let k ← match k with
        | "ld" => some Proto.RwLockMonitor.K.ld | "cas" => some .cas | "y" => some .y | "st" => some .st
        | "fa" => some .fa | "wld" => some .wld | "wsw" => some .wsw | "park" => some .park
        | "unpark" => some .unpark | _ => none
      let a ← a.toInt?; let b ← b.toInt?; let seen ← seen.toInt?
      pure { tid := t, k := k, a := a, b := b, seen := seen }
    | _ => none

def parseCalls (s : String) : Option Lin.History :=
  if s == "-" then some [] else
  (s.splitOn ",").mapM fun c =>
    match c.splitOn ":" with
    | [tid, op, res, inv, resp] => do
      let tid ← tid.toNat?; let op ← parseKOp op; let res ← parseKRes res
      let inv ← inv.toNat?; let resp ← resp.toNat?
      pure { tid, op, res, inv, resp }
    | _ => none

def parseOrder (s : String) : Option (List Nat) :=
  if s == "-" then some [] else (s.splitOn ".").mapM (·.toNat?)

def withCur (st : St) (f : Map → St × String) : St × String :=
  match st.slots[st.cur]? with
  | some (some m) => f m
  | _ => (st, "bad-op no-map")

def setCur (st : St) (m : Map) : St := { st with slots := st.slots.set! st.cur (some m) }

def keysOf (m : Map) : List Nat := (entries m).map (·.key)

def step (st : St) (line : String) : St × String :=
  match line.trimAscii.toString.splitOn " " with
  | ["new", slot, cap, hs] =>
    match slot.toNat?, (kv "cap=" cap).bind parseNat?, (kv "hash=" hs).bind parsePairs with
    | some s, some c, some hs =>
      if s < st.slots.size then
        let m := withCapacity (lookupHash hs) c
        ({ st with slots := st.slots.set! s (some m), cur := s, hashes := hs }, "ok")
      else (st, "bad-op")
    | _, _, _ => (st, "bad-op")
  | ["use", slot] =>
    match slot.toNat? with
    | some s => if s < st.slots.size then ({ st with cur := s }, "ok") else (st, "bad-op")
    | none => (st, "bad-op")
  | ["ins", k, ki, v, vi] =>
    match k.toNat?, ki.toNat?, v.toNat?, vi.toNat? with
    | some k, some ki, some v, some vi =>
      withCur st fun m => let (m, o) := put k ki v vi false m; (setCur st m, fmtOut o)
    | _, _, _, _ => (st, "bad-op")
  | ["tryins", k, ki, v, vi] =>
    match k.toNat?, ki.toNat?, v.toNat?, vi.toNat? with
    | some k, some ki, some v, some vi =>
      withCur st fun m => let (m, o) := put k ki v vi true m; (setCur st m, fmtOut o)
    | _, _, _, _ => (st, "bad-op")
  | ["get", k] =>
    match k.toNat? with
    | some k => withCur st fun m =>
        (st, match get k m with | some n => s!"some {n.val} {n.vi}" | none => "none")
    | none => (st, "bad-op")
  | ["getkv", k] =>
    match k.toNat? with
    | some k => withCur st fun m =>
        (st, match get k m with | some n => s!"somekv {n.ki} {n.val} {n.vi}" | none => "none")
    | none => (st, "bad-op")
  | ["has", k] =>
    match k.toNat? with
    | some k => withCur st fun m => (st, if (get k m).isSome then "true" else "false")
    | none => (st, "bad-op")
  | ["rm", k] =>
    match k.toNat? with
    | some k => withCur st fun m =>
        let (m, o) := replaceNode k none none m
        (setCur st m, match o with | .someKV _ v vi => s!"some {v} {vi}" | o => fmtOut o)
    | none => (st, "bad-op")
  | ["rme", k] =>
    match k.toNat? with
    | some k => withCur st fun m =>
        let (m, o) := replaceNode k none none m; (setCur st m, fmtOut o)
    | none => (st, "bad-op")
  | ["cip", k, f] =>
    match k.toNat? with
    | some k =>
      let cb : Option (Nat → Nat → Nat → CbRes) :=
        match f.splitOn ":" with
        | ["inc", nvi] => nvi.toNat?.map fun nvi => fun _ v _ => .keep (v + 1) nvi
        | ["same", nvi] => nvi.toNat?.map fun nvi => fun _ v _ => .keep v nvi
        | ["rm"] => some fun _ _ _ => .remove
        | ["panic"] => some fun _ _ _ => .panic
        | _ => none
      match cb with
      | some cb => withCur st fun m =>
          let (m, o) := computeIfPresent k cb m; (setCur st m, fmtOut o)
      | none => (st, "bad-op")
    | none => (st, "bad-op")
  | "retain" :: p :: rest | "retainf" :: p :: rest =>
    let force := line.trimAscii.toString.startsWith "retainf"
    let panicAt : Option (Option Nat) :=
      match rest with
      | [] => some none
      | [pa] => ((kv "panicat=" pa).bind parseNat?).map some
      | _ => none
    match mkPred p, panicAt with
    | some p, some pa => withCur st fun m =>
        let (m, o) := runRetain force p pa m; (setCur st m, fmtOut o)
    | _, _ => (st, "bad-op")
  | ["deser", kind, doc] =>
    -- C19: the visitor loop of the serde impls on a document given as k:v pairs
    match parsePairs (if doc == "-" then "" else doc) with
    | some ps =>
      let pol := if kind == "set" then Flurry.Gen.setDupPolicy else Flurry.Gen.mapDupPolicy
      match Flurry.C19.deserialize pol ps with
      | .ok m =>
        let sorted := (m.toArray.qsort (fun a b => a.1 < b.1)).toList
        (st, "ok " ++ ",".intercalate (sorted.map fun (k, v) => s!"{k}:{v}"))
      | .err => (st, "err")
      | .panic => (st, "panic")
    | none => (st, "bad-op")
  | ["lin", ini, fin, calls, order] =>
    match (kv "init=" ini).bind parseKSt, (kv "fin=" fin).bind parseKSt,
          (kv "calls=" calls).bind parseCalls, (kv "order=" order).bind parseOrder with
    | some i, some f, some h, some o =>
      (st, if Lin.validate h o i f then "ok" else
             match Lin.search h i f with
             | some _ => "bad-certificate"      -- linearizable, but not by the order supplied
             | none => "not-linearizable")
    | _, _, _, _ => (st, "bad-op")
  | ["trav", chain] =>
    match (kv "chain=" chain).bind parseChain with
    | some c =>
      let ys := Seq.Iter.traverse c (Seq.Iter.fuelFor c) (Seq.Iter.initSt c)
      let f := fun (n : Node) => s!"{n.key}.{n.val}.{n.vi}"
      (st, s!"wf={chainWFb c} same_as_contents={decide (ys = Seq.Iter.contents c)} yields={",".intercalate (ys.map f)}")
    | none => (st, "bad-op")
  | ["ctl", stride, nstart, nfinal, sc0, ti0, q, evs] =>
    match (kv "ncpu=" stride).bind parseNat?, (kv "nstart=" nstart).bind parseNat?,
          (kv "nfinal=" nfinal).bind parseNat?, (kv "sc0=" sc0).bind String.toInt?,
          (kv "ti0=" ti0).bind String.toInt?, (kv "ev=" evs).bind parseCtlEvs with
    | some sd, some n0, some n1, some s0, some t0, some es =>
      (st, Proto.ResizeMonitor.accept sd n0 n1 s0 t0 (q == "q=1") es)
    | _, _, _, _, _, _ => (st, "bad-op")
  | ["rw", n, q, evs] =>
    match (kv "n=" n).bind parseNat?, (kv "ev=" evs).bind parseRwEvs with
    | some n, some es => (st, Proto.RwLockMonitor.accept n (q == "q=1") es)
    | _, _ => (st, "bad-op")
  | ["clear"] => withCur st fun m => (setCur st (clear m), "ok")
  | ["reserve", n] =>
    match n.toNat? with
    | some n => withCur st fun m => (setCur st (reserve n m), "ok")
    | none => (st, "bad-op")
  | ["len"] => withCur st fun m => (st, toString (len m))
  | ["isempty"] => withCur st fun m => (st, if len m == 0 then "true" else "false")
  | ["iter"] => withCur st fun m => (st, ";".intercalate ((entries m).map fmtNode))
  | ["snap"] => withCur st fun m => (st, fmtSnap m)
  | ["extend", hint, items] =>
    match (kv "hint=" hint).bind parseNat?, (kv "items=" items).bind parseItems with
    | some h, some it => withCur st fun m => (setCur st (extend h it m), "ok")
    | _, _ => (st, "bad-op")
  | ["collect", slot, hint, hs, items] =>
    match slot.toNat?, (kv "hint=" hint).bind parseNat?, (kv "hash=" hs).bind parsePairs,
          (kv "items=" items).bind parseItems with
    | some s, some h, some hs, some it =>
      if s < st.slots.size then
        let m := collect (lookupHash hs) h it
        ({ st with slots := st.slots.set! s (some m), cur := s, hashes := hs }, "ok")
      else (st, "bad-op")
    | _, _, _, _ => (st, "bad-op")
  | ["clone", dst] =>
    match dst.toNat? with
    | some d =>
      if d < st.slots.size then withCur st fun m =>
        ({ st with slots := st.slots.set! d (some (clone m)) }, "ok")
      else (st, "bad-op")
    | none => (st, "bad-op")
  | [rel, a, b] =>
    match a.toNat?, b.toNat? with
    | some a, some b =>
      match st.slots[a]?, st.slots[b]? with
      | some (some ma), some (some mb) =>
        let ka := keysOf ma
        let inb := fun k => (get k mb).isSome
        match rel with
        | "eq" => (st, toString (mapEq ma mb))
        | "disjoint" => (st, toString (ka.all (fun k => !inb k)))
        | "subset" => (st, toString (ka.all inb))
        | "superset" => (st, toString ((keysOf mb).all (fun k => (get k ma).isSome)))
        | _ => (st, "bad-op")
      | _, _ => (st, "bad-op no-map")
    | _, _ => (st, "bad-op")
  | _ => (st, "bad-op")

partial def loop (h : IO.FS.Stream) (out : IO.FS.Stream) (st : St) : IO Unit := do
  let line ← h.getLine
  if line.isEmpty then return ()
  if line.trimAscii.toString.startsWith "#" then
    out.putStrLn line.trimAscii.toString
    loop h out st
  else
    let (st', o) := step st line
    out.putStrLn o
    loop h out st'

end Flurry.Driver
