/-! # Types of the generated signature / guard-flow / atomic-site tables (`Flurry/Gen/*.lean`)

Only data declarations and the executable predicates over them; theorems are in
`Flurry/Sig.lean` and `Flurry/Props/C09.lean`, `C15.lean`, `C16.lean`, `C17.lean`. -/
namespace Flurry.Sig

/-- what a function does with a guard it has in scope, in source order -/
inductive GUse where
  /-- a top-level `self.check_guard(g)` statement -/
  | check
  /-- passes the guard on to the function in row `row` of the table (as that row's parameter) -/
  | call (row : Nat) (name : String)
  /-- wraps the guard in a value (`with_guard`): nothing is read through it here -/
  | store
  /-- anything else: a load through the guard, a retire, an iterator built from it, … -/
  | raw (what : String)
deriving Repr

structure GFn where
  ty : String
  fn : String
  pub : Bool
  param : String
  uses : List GUse
deriving Repr

/-- `Checked`, one level: walking the uses in order, a `check` ends the walk successfully; before
it every use must be a `store` or a call to a row for which `callee` holds. -/
def checkedUsesWith (callee : Nat → Bool) : List GUse → Bool
  | [] => true
  | .check :: _ => true
  | .store :: rest => checkedUsesWith callee rest
  | .raw _ :: _ => false
  | .call row _ :: rest => callee row && checkedUsesWith callee rest

/-- `Checked` for row `i` with call depth at most `fuel` -/
def checkedRow (tbl : List GFn) : Nat → Nat → Bool
  | 0, _ => false
  | fuel + 1, i =>
    match tbl[i]? with
    | some r => checkedUsesWith (checkedRow tbl fuel) r.uses
    | none => false

def checkedB (tbl : List GFn) (fuel : Nat) (r : GFn) : Bool :=
  checkedUsesWith (checkedRow tbl fuel) r.uses

/-! A tiny semantics of "calling a function with a *foreign* guard": `check` panics; a `raw` use
is a use of the foreign guard on the map (what C09 forbids); a call runs the callee. -/
inductive GEv where
  | panic
  | foreignUse (what : String)
deriving Repr

/-- events of running the uses with a foreign guard, given how to run a callee row; stops at
the first panic. `(events, panicked)` -/
def runUsesWith (callee : Nat → List GEv × Bool) : List GUse → List GEv × Bool
  | [] => ([], false)
  | .check :: _ => ([.panic], true)
  | .store :: rest => runUsesWith callee rest
  | .raw w :: rest =>
    let r := runUsesWith callee rest
    (.foreignUse w :: r.1, r.2)
  | .call row _ :: rest =>
    let c := callee row
    if c.2 then c
    else
      let r := runUsesWith callee rest
      (c.1 ++ r.1, r.2)

def runRow (tbl : List GFn) : Nat → Nat → List GEv × Bool
  | 0, _ => ([.foreignUse "call depth exceeded"], false)
  | fuel + 1, i =>
    match tbl[i]? with
    | some r => runUsesWith (runRow tbl fuel) r.uses
    | none => ([.foreignUse "unknown callee"], false)

def runFn (tbl : List GFn) (fuel : Nat) (r : GFn) : List GEv × Bool :=
  runUsesWith (runRow tbl fuel) r.uses

def isForeign : GEv → Bool
  | .foreignUse _ => true
  | .panic => false

/-- one public function / trait method / associated type of the crate's API -/
structure ApiFn where
  ty : String
  selfTy : String
  /-- the key and value (maps) or element (sets) type parameters, as the impl block names them -/
  elems : List String
  fn : String
  trait_ : String
  /-- the trait's name without its generic arguments -/
  traitHead : String
  /-- some closure parameter's bound ends in `-> Option<V>`: the method stores what a callback makes -/
  makesValue : Bool
  /-- lifetime of `&self` (`'_self` when elided), of the `&'g Wrapper` self type, or of the impl -/
  selfLt : Option String
  selfKind : String
  params : List (String × String)
  /-- reference lifetimes of the `&Guard` parameters -/
  guardLts : List String
  ret : String
  /-- lifetimes occurring in the return type, elision resolved -/
  retLts : List String
  retBorrows : Bool
  /-- `(type, bound)` pairs of the impl block and of the method -/
  bounds : List (String × String)
deriving Repr

structure ApiField where
  struct_ : String
  ltParams : List String
  field : String
  ty : String
  lts : List String
deriving Repr

structure UnsafeImpl where
  trait_ : String
  ty : String
  bounds : List (String × String)
deriving Repr

/-- one shared-memory site (C12, C15) -/
structure Site where
  fn : String
  fnId : Nat
  /-- load | store | swap | cas | rmw | clone_load | lock | park | unpark | yield | spin | sleep | retire -/
  kind : String
  /-- last field of the receiver: `next`, `value`, `first`, `root`, `size_ctl`, `bins[]`, … -/
  path : String
  /-- the `Ordering` arguments as written (success, failure for CAS) -/
  ords : List String
deriving Repr

/-- what a serde visitor does when an entry's key is already present (C19) -/
inductive DupPolicy where
  /-- the new entry replaces the old one (maps) / is dropped (sets): no failure -/
  | lastWins
  /-- the visitor returns `Err` -/
  | error
  /-- a panicking macro is reached -/
  | panic
deriving Repr, DecidableEq, Inhabited

end Flurry.Sig
