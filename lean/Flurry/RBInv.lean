import Flurry.RB
/-! # Invariants of tree bins (definitions only; proofs live in `Flurry/Lemmas/RB*.lean`)

`TreeInv t` is what property C06 calls "a balanced search tree": ordered by `(hash, key)`, black
root, no red node with a red child, equal black height on every path. -/
namespace Flurry.RB
open T

/-- every entry of `t` satisfies `p` -/
def All (p : Node → Prop) : T → Prop
  | nil => True
  | node _ l e r => p e ∧ All p l ∧ All p r

/-- binary search tree by the strict `(hash, key)` order `lt` -/
def BST : T → Prop
  | nil => True
  | node _ l e r => All (fun x => lt x e) l ∧ All (fun x => lt e x) r ∧ BST l ∧ BST r

/-- no red node has a red child -/
def NoRedRed : T → Prop
  | nil => True
  | node c l _ r => (c = true → isRed l = false ∧ isRed r = false) ∧ NoRedRed l ∧ NoRedRed r

/-- `BH t n`: every path from the root of `t` to a leaf crosses exactly `n` black nodes -/
inductive BH : T → Nat → Prop
  | nil : BH nil 0
  | red {l e r n} : BH l n → BH r n → BH (node true l e r) n
  | black {l e r n} : BH l n → BH r n → BH (node false l e r) (n + 1)

/-- the red-black invariant of a tree bin -/
def TreeInv (t : T) : Prop := BST t ∧ isRed t = false ∧ NoRedRed t ∧ ∃ n, BH t n

/-- executable check of `TreeInv` (used on dumped trees; proved equivalent in `Lemmas/RBCheck.lean`) -/
def allB (p : Node → Bool) : T → Bool
  | nil => true
  | node _ l e r => p e && allB p l && allB p r

def bstB : T → Bool
  | nil => true
  | node _ l e r => allB (fun x => decide (lt x e)) l && allB (fun x => decide (lt e x)) r && bstB l && bstB r

def noRedRedB : T → Bool
  | nil => true
  | node c l _ r => (!c || (!isRed l && !isRed r)) && noRedRedB l && noRedRedB r

/-- black height if uniform -/
def bhB : T → Option Nat
  | nil => some 0
  | node c l _ r =>
    match bhB l, bhB r with
    | some a, some b => if a == b then some (if c then a else a + 1) else none
    | _, _ => none

def treeInvB (t : T) : Bool := bstB t && !isRed t && noRedRedB t && (bhB t).isSome

end Flurry.RB
