import Flurry.Lin
/-! # Proto/BinK: one bin that changes its KIND — list bin ⇄ tree bin — under concurrency (C01, C05, C06, C07, C08)

`Proto/BinW` is a list bin that stays a list bin, `Proto/BinU` a tree bin that stays a tree bin.
This model is one bin cell of a fixed table through its whole life: `empty`, a **list bin**
(`list h`: the cell holds the first node, whose mutex is the bin lock), or a **tree bin**
(`tree b`: the cell holds a `TreeBin` object with its own mutex, `first`/`next` list, tree and
read-write lock), and the two conversions of `src/map.rs`:

* **treeify** (`treeify_bin`): lock the head, re-check the cell, copy every node of the (stable)
  list into a fresh tree node (same key, same value at that moment), build a `TreeBin` over them
  (all in the tree, list in the same order), store it into the cell, unlock. The old list nodes
  stay allocated and are never written again. Any thread may do this to any list bin at any time
  (the real trigger — a put that counted ≥ 8 nodes in a table of ≥ 64 bins — is over-approximated);
* **untreeify** (`replace_node` / `compute_if_present` when `remove_tree_node` returns `true`):
  a removal that has unlinked its node from the tree bin's list under the write lock may decide
  that the bin is too small (`small`, over-approximating the shape test); it then copies the list
  into fresh plain nodes, stores that list (or `empty`) into the cell and returns. The write lock
  of the dead `TreeBin` is left held for ever, so late readers of it keep to its list.

Everything else is `Proto/BinW` for the list form (lock in the first node, re-check of the cell,
step-by-step writer walk, CAS into the empty cell) and `Proto/BinU` for the tree form (bin mutex,
re-check of the cell, lock-protocol readers, list readers = iterators, both writers take the write
lock before their first store to a list cell). A thread that loaded the cell before a conversion
continues on the old structure: readers finish on it; writers find out at their re-check and
start over.

One transition = one shared-memory access. To be proved (`Lemmas/BinK*.lean`): for every reachable
quiescent state and key, the completed calls on that key are `Lin.Linearizable` from "absent" to
the key's abstract state (`binK_linearizable_quiescent`), and `noCheck` (a writer that trusts the
lock it took) is refuted. -/
namespace Flurry.Proto.BinK
open Flurry.Lin

structure NodeS where
  key : Nat
  val : Nat × Nat
  next : Option Nat
  /-- list node: the mutex inside it (the bin lock while it is the first node) -/
  lock : Option Nat := none
  /-- tree node: linked into the tree of its bin -/
  inTree : Bool := false
  /-- tree node: the `TreeBin` it belongs to -/
  owner : Option Nat := none
deriving Repr, DecidableEq

/-- a `TreeBin` object -/
structure TBin where
  first : Option Nat := none
  mutex : Option Nat := none
  writer : Bool := false
  waiter : Bool := false
  readers : Nat := 0
deriving Repr, DecidableEq

inductive Cell where
  | empty
  | list (h : Nat)
  | tree (b : Nat)
deriving Repr, DecidableEq

structure Pending where
  key : Nat
  op : KOp
  inv : Nat
deriving Repr, DecidableEq

/-- what a tree-bin writer does once it holds the write lock -/
inductive After where
  | remove (i : Nat)
  | insert
deriving Repr, DecidableEq

inductive Pc where
  | idle
  -- readers ------------------------------------------------------------------------------
  /-- about to load the bin cell (`listOnly`: an iterator) -/
  | rCell (listOnly : Bool)
  /-- list bin (or an iterator in a tree bin's list): holds `cur`, about to compare its key and load its `next` -/
  | rNode (cur : Option Nat)
  /-- tree bin `b`: about to load `first` -/
  | rFirst (b : Nat)
  /-- standing on list element `cur` of tree bin `b`: about to load `lock_state` -/
  | rState (b : Nat) (cur : Option Nat)
  | rLin (b : Nat) (cur : Nat)
  | rCas (b : Nat) (cur : Nat) (r : Nat)
  | rTree (b : Nat)
  | rRelease (b : Nat) (hit : Option Nat)
  /-- about to load the value cell of tree node `i` -/
  | rVal (i : Nat)
  /-- iterator in tree bin `b`: about to load `first` -/
  | lFirst (b : Nat)
  /-- iterator standing on tree node `cur`: compare, then `next` (the value is a separate load) -/
  | lNode (cur : Option Nat)
  -- writers, list form ---------------------------------------------------------------------
  | wCell
  | wCas
  | wLock (h : Nat)
  | wCheck (h : Nat)
  | wFind (h : Nat) (pred : Option Nat) (cur : Option Nat)
  | wStore (h : Nat) (pred : Option Nat) (hit : Option Nat) (hnext : Option Nat)
  | wUnlock (h : Nat) (res : KRes) (retry : Bool)
  -- writers, tree form ---------------------------------------------------------------------
  | tMutex (b : Nat)
  /-- holds the mutex of tree bin `b`: about to re-read the bin cell -/
  | tCheck (b : Nat)
  | tFind (b : Nat)
  | tVal (b : Nat) (i : Nat) (v : Nat × Nat) (res : KRes)
  | lrTry (b : Nat) (k : After) (res : KRes)
  | lrLoop (b : Nat) (k : After) (res : KRes)
  | tPrependLocked (b : Nat)
  | tTreeLinkLocked (b : Nat) (x : Nat)
  | tUnlinkLocked (b : Nat) (i : Nat) (res : KRes)
  /-- holds the write lock: about to take `i` out of the tree -/
  | tRestructure (b : Nat) (i : Nat) (res : KRes)
  | tUnlockRoot (b : Nat) (res : KRes)
  /-- untreeify: about to store the list copy of bin `b` into the cell (the write lock stays held) -/
  | tUntreeify (b : Nat) (res : KRes)
  | tUnlockM (b : Nat) (res : KRes) (retry : Bool)
  -- treeify (a thread without a call in flight) -----------------------------------------------
  | kCell
  | kLock (h : Nat)
  | kCheck (h : Nat)
  /-- holds the validated lock of `h`: about to copy the list into a fresh `TreeBin` (private) -/
  | kBuild (h : Nat)
  | kStore (h : Nat) (b : Nat)
  | kUnlock (h : Nat)
deriving Repr, DecidableEq

structure Local where
  pc : Pc := .idle
  call : Option Pending := none
deriving Repr, DecidableEq

structure State where
  heap : List NodeS := []
  tbins : List TBin := []
  cell : Cell := .empty
  threads : List Local
  hist : List (Nat × Call) := []
  now : Nat := 0
deriving Repr

def init (nthreads : Nat) : State := { threads := List.replicate nthreads {} }

def isReader : KOp → Bool
  | .get | .has => true
  | _ => false

def dflt : NodeS := ⟨0, (0, 0), none, none, false, none⟩
def dfltB : TBin := {}

def chainFrom (heap : List NodeS) : Nat → Option Nat → List Nat
  | 0, _ => []
  | _, none => []
  | fuel + 1, some i =>
    match heap[i]? with
    | none => []
    | some n => i :: chainFrom heap fuel n.next

/-- the list of tree bin `b` -/
def chainOfBin (s : State) (b : Nat) : List Nat := chainFrom s.heap s.heap.length (s.tbins.getD b dfltB).first

/-- the list of the structure the cell holds now -/
def liveChain (s : State) : List Nat :=
  match s.cell with
  | .empty => []
  | .list h => chainFrom s.heap s.heap.length (some h)
  | .tree b => chainOfBin s b

/-- abstract content: the first node with the key on the live list -/
def absOf (s : State) (k : Nat) : KSt :=
  match (liveChain s).find? (fun i => (s.heap.getD i dflt).key == k) with
  | some i => some (s.heap.getD i dflt).val
  | none => none

/-- the node of tree bin `b`'s tree with key `k` -/
def treeFind (s : State) (b : Nat) (k : Nat) : Option Nat :=
  (List.range s.heap.length).find? fun i =>
    let n := s.heap.getD i dflt
    n.owner == some b && n.inTree && n.key == k

def setNode (s : State) (i : Nat) (f : NodeS → NodeS) : State := { s with heap := s.heap.modify i f }
def setBin (s : State) (b : Nat) (f : TBin → TBin) : State := { s with tbins := s.tbins.modify b f }
def setT (s : State) (t : Nat) (l : Local) : State := { s with threads := s.threads.set t l }

def finish (s : State) (t : Nat) (p : Pending) (res : KRes) : State :=
  { (setT s t { pc := .idle, call := none }) with
      hist := (p.key, { tid := t, op := p.op, res := res, inv := p.inv, resp := s.now }) :: s.hist }

def predOf (c : List Nat) (i : Nat) : Option Nat :=
  match c with
  | a :: b :: rest => if b == i then some a else predOf (b :: rest) i
  | _ => none

/-- the single store of a list-bin writer (as `Proto/BinW.storeAt`) -/
def storeAt (s : State) (p : Pending) (pred hit hnext : Option Nat) : State × KRes :=
  let append (v vi : Nat) : State :=
    let newIdx := s.heap.length
    let s1 := { s with heap := s.heap ++ [⟨p.key, (v, vi), none, none, false, none⟩] }
    match pred with
    | some l => setNode s1 l (fun n => { n with next := some newIdx })
    | none => { s1 with cell := .list newIdx }
  let unlink : State :=
    match pred with
    | some pr => setNode s pr (fun m => { m with next := hnext })
    | none => { s with cell := match hnext with | some x => .list x | none => .empty }
  match p.op, hit with
  | .ins v vi, some i => (setNode s i (fun n => { n with val := (v, vi) }), resOf (some (s.heap.getD i dflt).val))
  | .ins v vi, none => (append v vi, .none)
  | .tryIns _ _, some i => let x := (s.heap.getD i dflt).val; (s, .exists_ x.1 x.2)
  | .tryIns v vi, none => (append v vi, .none)
  | .rm, some i => (unlink, resOf (some (s.heap.getD i dflt).val))
  | .rm, none => (s, .none)
  | .cipInc nvi, some i =>
    let n := s.heap.getD i dflt
    (setNode s i (fun m => { m with val := (n.val.1 + 1, nvi) }), .some (n.val.1 + 1) nvi)
  | .cipInc _, none => (s, .none)
  | .cipRm, some _ => (unlink, .none)
  | .cipRm, none => (s, .none)
  | .get, _ => (s, .none)
  | .has, _ => (s, .none)

/-- copy the nodes `c` (in order) to the end of the heap with `mk`, chained by `next`; returns the
new heap and the index of the first copy -/
def copyChain (heap : List NodeS) (c : List Nat) (mk : NodeS → Option Nat → NodeS) : List NodeS × Option Nat :=
  let base := heap.length
  let n := c.length
  let copies := (List.range n).map fun j =>
    let src := heap.getD (c.getD j 0) dflt
    mk src (if j + 1 < n then some (base + j + 1) else none)
  (heap ++ copies, if n = 0 then none else some base)

def afterLock (b : Nat) (k : After) (res : KRes) : Pc :=
  match k with
  | .remove i => .tUnlinkLocked b i res
  | .insert => .tPrependLocked b

def absentRes (op : KOp) : KRes := match op with | .has => .bool false | _ => .none

/-- One step of thread `t`. `inv`: the call an idle thread starts; `listOnly`: that call is an
iterator's read; `maint`: an idle thread starts a treeify instead; `small`: a removal that has
just unlinked its node decides that the bin must be untreeified. `none` = not enabled. -/
def stepG (recheck : Bool) (s : State) (t : Nat) (inv : Option (Nat × KOp)) (listOnly maint small : Bool) : Option State :=
  match s.threads[t]? with
  | none => none
  | some l =>
    let s := { s with now := s.now + 1 }
    let upd (pc : Pc) : State := setT s t { l with pc := pc }
    let bin (b : Nat) : TBin := s.tbins.getD b dfltB
    match l.pc, l.call with
    | .idle, _ =>
      if maint then some (upd .kCell)
      else
        match inv with
        | none => some s
        | some (k, op) =>
          some (setT s t { pc := if isReader op then .rCell listOnly else .wCell, call := some ⟨k, op, s.now⟩ })
    -- readers: dispatch on the kind of bin ---------------------------------------------------
    | .rCell lo, some p =>
      match s.cell with
      | .empty => some (finish s t p (absentRes p.op))
      | .list h => some (upd (.rNode (some h)))
      | .tree b => some (upd (if lo then .lFirst b else .rFirst b))
    -- list form (readers and iterators alike)
    | .rNode none, some p => some (finish s t p (absentRes p.op))
    | .rNode (some c), some p =>
      match s.heap[c]? with
      | none => none
      | some n =>
        if n.key == p.key then
          some (finish s t p (match p.op with | .has => .bool true | _ => .some n.val.1 n.val.2))
        else some (upd (.rNode n.next))
    -- tree form, lock protocol (`TreeBin::find`)
    | .rFirst b, some _ => some (upd (.rState b (bin b).first))
    | .rState _ none, some p => some (finish s t p (absentRes p.op))
    | .rState b (some c), some _ =>
      if (bin b).writer || (bin b).waiter then some (upd (.rLin b c)) else some (upd (.rCas b c (bin b).readers))
    | .rLin b c, some p =>
      match s.heap[c]? with
      | none => none
      | some n =>
        if n.key == p.key then
          match p.op with
          | .has => some (finish s t p (.bool true))
          | _ => some (upd (.rVal c))
        else some (upd (.rState b n.next))
    | .rCas b c r, some _ =>
      if !(bin b).writer && !(bin b).waiter && (bin b).readers == r then
        some (setT (setBin s b (fun x => { x with readers := x.readers + 1 })) t { l with pc := .rTree b })
      else some (upd (.rState b (some c)))
    | .rTree b, some p => some (upd (.rRelease b (treeFind s b p.key)))
    | .rRelease b hit, some p =>
      let s1 := setBin s b (fun x => { x with readers := x.readers - 1 })
      match hit, p.op with
      | none, _ => some (finish s1 t p (absentRes p.op))
      | some _, .has => some (finish s1 t p (.bool true))
      | some i, _ => some (setT s1 t { l with pc := .rVal i })
    | .rVal i, some p =>
      match s.heap[i]? with
      | none => none
      | some n => some (finish s t p (.some n.val.1 n.val.2))
    -- tree form, iterators
    | .lFirst b, some _ => some (upd (.lNode (bin b).first))
    | .lNode none, some p => some (finish s t p (absentRes p.op))
    | .lNode (some c), some p =>
      match s.heap[c]? with
      | none => none
      | some n =>
        if n.key == p.key then
          match p.op with
          | .has => some (finish s t p (.bool true))
          | _ => some (upd (.rVal c))
        else some (upd (.lNode n.next))
    -- writers: dispatch ----------------------------------------------------------------------
    | .wCell, some p =>
      match s.cell with
      | .empty =>
        match p.op with
        | .ins _ _ | .tryIns _ _ => some (upd .wCas)
        | _ => some (finish s t p .none)
      | .list h => some (upd (.wLock h))
      | .tree b => some (upd (.tMutex b))
    | .wCas, some p =>
      match s.cell, p.op with
      | .empty, .ins v vi | .empty, .tryIns v vi =>
        let newIdx := s.heap.length
        some (finish { s with heap := s.heap ++ [⟨p.key, (v, vi), none, none, false, none⟩], cell := .list newIdx } t p .none)
      | _, _ => some (upd .wCell)
    -- list form
    | .wLock h, some _ =>
      match s.heap[h]? with
      | none => none
      | some n =>
        if n.lock.isSome then none
        else some (setT (setNode s h (fun m => { m with lock := some t })) t { l with pc := .wCheck h })
    | .wCheck h, some _ =>
      if !recheck || s.cell == .list h then some (upd (.wFind h none (some h)))
      else some (upd (.wUnlock h .none true))
    | .wFind h pred cur, some p =>
      match cur with
      | none => some (upd (.wStore h pred none none))
      | some c =>
        match s.heap[c]? with
        | none => none
        | some n =>
          if n.key == p.key then some (upd (.wStore h pred (some c) n.next))
          else some (upd (.wFind h (some c) n.next))
    | .wStore h pred hit hnext, some p =>
      let (s', res) := storeAt s p pred hit hnext
      some (setT s' t { l with pc := .wUnlock h res false })
    | .wUnlock h res retry, some p =>
      let s1 := setNode s h (fun m => { m with lock := none })
      if retry then some (setT s1 t { l with pc := .wCell }) else some (finish s1 t p res)
    -- tree form
    | .tMutex b, some _ =>
      if (bin b).mutex.isSome then none
      else some (setT (setBin s b (fun x => { x with mutex := some t })) t { l with pc := .tCheck b })
    | .tCheck b, some _ =>
      if !recheck || s.cell == .tree b then some (upd (.tFind b))
      else some (upd (.tUnlockM b .none true))
    | .tFind b, some p =>
      match p.op, treeFind s b p.key with
      | .ins v vi, some i => some (upd (.tVal b i (v, vi) (resOf (some (s.heap.getD i dflt).val))))
      | .ins _ _, none => some (upd (.lrTry b .insert .none))
      | .tryIns _ _, some i => let x := (s.heap.getD i dflt).val; some (upd (.tUnlockM b (.exists_ x.1 x.2) false))
      | .tryIns _ _, none => some (upd (.lrTry b .insert .none))
      | .rm, some i => some (upd (.lrTry b (.remove i) (resOf (some (s.heap.getD i dflt).val))))
      | .rm, none => some (upd (.tUnlockM b .none false))
      | .cipInc nvi, some i =>
        let x := (s.heap.getD i dflt).val
        some (upd (.tVal b i (x.1 + 1, nvi) (.some (x.1 + 1) nvi)))
      | .cipInc _, none => some (upd (.tUnlockM b .none false))
      | .cipRm, some i => some (upd (.lrTry b (.remove i) .none))
      | .cipRm, none => some (upd (.tUnlockM b .none false))
      | .get, _ => none
      | .has, _ => none
    | .tVal b i v res, some _ =>
      some (setT (setNode s i (fun n => { n with val := v })) t { l with pc := .tUnlockM b res false })
    | .lrTry b k res, some _ =>
      if !(bin b).writer && !(bin b).waiter && (bin b).readers == 0 then
        some (setT (setBin s b (fun x => { x with writer := true })) t { l with pc := afterLock b k res })
      else some (upd (.lrLoop b k res))
    | .lrLoop b k res, some _ =>
      if !(bin b).writer && (bin b).readers == 0 then
        some (setT (setBin s b (fun x => { x with writer := true, waiter := false })) t { l with pc := afterLock b k res })
      else if !(bin b).waiter then some (setT (setBin s b (fun x => { x with waiter := true })) t { l with pc := .lrLoop b k res })
      else none
    | .tPrependLocked b, some p =>
      match p.op with
      | .ins v vi | .tryIns v vi =>
        let x := s.heap.length
        let s1 := { s with heap := s.heap ++ [⟨p.key, (v, vi), (bin b).first, none, false, some b⟩] }
        some (setT (setBin s1 b (fun y => { y with first := some x })) t { l with pc := .tTreeLinkLocked b x })
      | _ => none
    | .tTreeLinkLocked b x, some _ =>
      some (setT (setNode s x (fun n => { n with inTree := true })) t { l with pc := .tUnlockRoot b .none })
    | .tUnlinkLocked b i res, some _ =>
      let n := s.heap.getD i dflt
      let s1 := match predOf (chainOfBin s b) i with
        | some pr => setNode s pr (fun m => { m with next := n.next })
        | none => setBin s b (fun y => { y with first := n.next })
      -- `remove_tree_node` returns `true` (too small: the caller untreeifies, the write lock
      -- stays held) or goes on to take the node out of the tree
      some (setT s1 t { l with pc := if small then .tUntreeify b res else .tRestructure b i res })
    | .tRestructure b i res, some _ =>
      some (setT (setNode s i (fun n => { n with inTree := false })) t { l with pc := .tUnlockRoot b res })
    | .tUnlockRoot b res, some _ =>
      some (setT (setBin s b (fun x => { x with writer := false, waiter := false })) t { l with pc := .tUnlockM b res false })
    | .tUntreeify b res, some _ =>
      let (hp, h') := copyChain s.heap (chainOfBin s b) (fun src nx => ⟨src.key, src.val, nx, none, false, none⟩)
      some (setT { s with heap := hp, cell := match h' with | some h => .list h | none => .empty } t
              { l with pc := .tUnlockM b res false })
    | .tUnlockM b res retry, some p =>
      let s1 := setBin s b (fun x => { x with mutex := none })
      if retry then some (setT s1 t { l with pc := .wCell }) else some (finish s1 t p res)
    -- treeify (no call in flight)
    | .kCell, none =>
      match s.cell with
      | .list h => some (upd (.kLock h))
      | _ => some (upd .idle)
    | .kLock h, none =>
      match s.heap[h]? with
      | none => none
      | some n =>
        if n.lock.isSome then none
        else some (setT (setNode s h (fun m => { m with lock := some t })) t { l with pc := .kCheck h })
    | .kCheck h, none =>
      if !recheck || s.cell == .list h then some (upd (.kBuild h))
      else some (upd (.kUnlock h))
    | .kBuild h, none =>
      let b := s.tbins.length
      let (hp, f) := copyChain s.heap (chainFrom s.heap s.heap.length (some h))
        (fun src nx => ⟨src.key, src.val, nx, none, true, some b⟩)
      some (setT { s with heap := hp, tbins := s.tbins ++ [{ first := f }] } t { l with pc := .kStore h b })
    | .kStore h b, none => some { (upd (.kUnlock h)) with cell := .tree b }
    | .kUnlock h, none =>
      some (setT (setNode s h (fun m => { m with lock := none })) t { l with pc := .idle })
    | _, _ => none

def step (s : State) (t : Nat) (inv : Option (Nat × KOp)) (listOnly maint small : Bool) : Option State :=
  stepG true s t inv listOnly maint small

/-- writers (and treeify) that trust the lock they took without re-reading the bin cell -/
def stepNoCheck (s : State) (t : Nat) (inv : Option (Nat × KOp)) (listOnly maint small : Bool) : Option State :=
  stepG false s t inv listOnly maint small

inductive Reachable (nthreads : Nat) : State → Prop
  | init : Reachable nthreads (init nthreads)
  | step {s s' : State} (t : Nat) (inv : Option (Nat × KOp)) (listOnly maint small : Bool) :
      Reachable nthreads s → step s t inv listOnly maint small = some s' → Reachable nthreads s'

inductive ReachableNoCheck (nthreads : Nat) : State → Prop
  | init : ReachableNoCheck nthreads (init nthreads)
  | step {s s' : State} (t : Nat) (inv : Option (Nat × KOp)) (listOnly maint small : Bool) :
      ReachableNoCheck nthreads s → stepNoCheck s t inv listOnly maint small = some s' → ReachableNoCheck nthreads s'

def callsOn (s : State) (k : Nat) : History :=
  (s.hist.filter (·.1 == k)).reverse.map (·.2)

def quiescent (s : State) : Prop := ∀ l ∈ s.threads, l.pc = .idle

end Flurry.Proto.BinK
