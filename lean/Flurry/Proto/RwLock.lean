import Flurry.Gen.Consts
/-! # Proto/RwLock: the tree-bin reader/writer lock (`src/node.rs`: `lock_root`, `unlock_root`,
`contended_lock`, `TreeBin::find`)

One writer at a time (writers hold the bin mutex, so they are serialised; the model has a single
writer thread that may lock and unlock any number of times) and any number of readers. One
transition = one shared-memory access of the Rust code, at the granularity of the verification
hooks. `lockState` is the `lock_state` word: `WRITER = 1`, `WAITER = 2`, `READER = 4` per reader
(values taken from the generated constants). `token` is the writer thread's unpark token
(`std::thread::park` returns when it is set and clears it).

Definitions only; invariants and theorems are in `Flurry/Lemmas/RwLock*.lean` and `Props/C11.lean`. -/
namespace Flurry.Proto.RwLock
open Flurry.Gen

/-- writer program counter -/
inductive WPc where
  | idle                      -- not inside lock_root .. unlock_root (holds the bin mutex or not: irrelevant here)
  | tryFast                   -- about to `compare_exchange(0, WRITER)` in lock_root
  | load                      -- contended_lock: about to `state = lock_state.load()`
  | decide (st : Int)         -- has `state`, chooses the branch (no shared access)
  | casWriter (st : Int)      -- about to `compare_exchange(state, WRITER)`
  | swapOut                   -- acquired after waiting: about to `waiter.swap(null)`
  | casWaiter (st : Int)      -- about to `compare_exchange(state, state | WAITER)`
  | publish                   -- about to `waiter.swap(current_thread)`
  | park                      -- about to `park()`
  | hold                      -- holds the write lock (restructuring the tree)
deriving DecidableEq, Repr

/-- reader program counter (`TreeBin::find`) -/
inductive RPc where
  | idle
  | load                      -- about to `s = lock_state.load()`
  | decide (s : Int)          -- chooses slow (list) or fast (tree) path
  | slow                      -- follows `next` pointers (no lock-state access); then reloads or returns
  | cas (s : Int)             -- about to `compare_exchange(s, s + READER)`
  | tree                      -- holds a read lock, searching the tree
  | release                   -- about to `fetch_add(-READER)`
  | loadWaiter                -- was the last reader of a waiting writer: about to load `waiter`
  | unpark                    -- about to `unpark()` the writer
deriving DecidableEq, Repr

structure State where
  lockState : Int := 0
  /-- `waiter` holds the writer's thread handle -/
  waiterSet : Bool := false
  token : Bool := false
  wpc : WPc := .idle
  /-- `waiting` local of contended_lock -/
  waiting : Bool := false
  readers : List RPc := []
deriving Repr

inductive Actor where
  | writer
  | reader (i : Nat)
deriving DecidableEq, Repr

def hasBit (st bit : Int) : Bool := (st / bit) % 2 == 1

/-- `state & !WAITER == 0`: no writer and no readers -/
def freeExceptWaiter (st : Int) : Bool := st == 0 || st == WAITER

def setReader (rs : List RPc) (i : Nat) (pc : RPc) : List RPc := rs.set i pc

/-- one step of the writer; `none` = not enabled (parked without a token, or idle is always
enabled: a new lock attempt may start at any time) -/
def stepWriter (s : State) : Option State :=
  match s.wpc with
  | .idle => some { s with wpc := .tryFast, waiting := false }
  | .tryFast =>
    if s.lockState == 0 then some { s with lockState := WRITER, wpc := .hold }
    else some { s with wpc := .load }
  | .load => some { s with wpc := .decide s.lockState }
  | .decide st =>
    if freeExceptWaiter st then some { s with wpc := .casWriter st }
    else if !hasBit st WAITER then some { s with wpc := .casWaiter st }
    else if s.waiting then some { s with wpc := .park }
    else some { s with wpc := .load }                       -- spin
  | .casWriter st =>
    if s.lockState == st then
      some { s with lockState := WRITER, wpc := if s.waiting then .swapOut else .hold }
    else some { s with wpc := .load }
  | .swapOut => some { s with waiterSet := false, wpc := .hold }
  | .casWaiter st =>
    if s.lockState == st then some { s with lockState := st + WAITER, waiting := true, wpc := .publish }
    else some { s with wpc := .load }
  | .publish => some { s with waiterSet := true, wpc := .load }
  | .park => if s.token then some { s with token := false, wpc := .load } else none
  | .hold => some { s with lockState := 0, wpc := .idle }      -- unlock_root: store 0

/-- one step of reader `i`; readers are always enabled. The `slow` path and the `tree` search
take a nondeterministic number of private steps; `more = true` means "another list hop, then
re-read the lock state", `more = false` "done". -/
def stepReader (s : State) (i : Nat) (more : Bool) : Option State :=
  match s.readers[i]? with
  | none => none
  | some pc =>
    let upd (pc' : RPc) : State := { s with readers := setReader s.readers i pc' }
    match pc with
    | .idle => some (upd .load)
    | .load => some (upd (.decide s.lockState))
    | .decide st =>
      if hasBit st WAITER || hasBit st WRITER then some (upd .slow) else some (upd (.cas st))
    | .slow => some (upd (if more then .load else .idle))
    | .cas st =>
      if s.lockState == st then some { s with lockState := st + READER, readers := setReader s.readers i .tree }
      else some (upd .load)
    | .tree => some (upd .release)
    | .release =>
      let old := s.lockState
      some { s with lockState := old - READER,
                    readers := setReader s.readers i (if old == READER + WAITER then .loadWaiter else .idle) }
    | .loadWaiter => some (upd (if s.waiterSet then .unpark else .idle))
    | .unpark => some { s with token := true, readers := setReader s.readers i .idle }

def step (s : State) : Actor → Bool → Option State
  | .writer, _ => stepWriter s
  | .reader i, more => stepReader s i more

def init (nreaders : Nat) : State := { readers := List.replicate nreaders .idle }

/-- states reachable from `init n` by any interleaving -/
inductive Reachable (n : Nat) : State → Prop
  | init : Reachable n (init n)
  | step {s s' : State} (a : Actor) (more : Bool) : Reachable n s → step s a more = some s' → Reachable n s'

/-- readers that hold a read lock (counted in `lockState`) -/
def holdsRead : RPc → Bool
  | .tree | .release => true
  | _ => false

def numHolding (rs : List RPc) : Nat := (rs.filter holdsRead).length

/-- readers that are on their way to wake the writer -/
def waking : RPc → Bool
  | .loadWaiter | .unpark => true
  | _ => false

end Flurry.Proto.RwLock
