import Flurry.Proto.BinN
/-! # Proto/BinNH: `Proto/BinN` with HELPERS — a cooperative resize (C01, C08, C10)

`Proto/BinN` has ONE resizing thread per generation. In the real code (`transfer` / `help_transfer`)
a resize is cooperative: the initiator allocates the next table, any number of helper threads join, each
claims cells and transfers them (each cell under its own bin lock), the last one out re-checks that every
cell is forwarded and publishes the next table. Here:

* the shared memory (`heap`, `tabs`, `cur`, `resizing`, the clock, the history) and the readers and writers
  are LITERALLY those of `Proto/BinN`: the state is `n : BinN.State` plus, per thread, the *helper part*
  `hs[t] : Option Helper`. A thread is idle (`n.threads[t].pc = idle`, `hs[t] = none`), in a call
  (`n.threads[t].pc ≠ idle`, its steps are `BinN.stepG … (resize := false)`) or a **resizing thread**
  (`hs[t] = some ⟨g, pc⟩`, `n.threads[t]` idle). No thread of `n` ever is at one of `BinN`'s own
  resizing program counters (`tNext …`); the resize is done by the helper parts only.
* `rz = true`: an idle thread **starts** the resize when none is running (allocates generation `cur + 1`,
  sets `resizing`) or **joins** a running one; either way it becomes a resizing thread *of generation
  `g = cur`* — the pair `(table, next_table)` it validated. `g` is part of its program counter for ever.
* a resizing thread at `next` first re-validates `g = cur ∧ resizing` (otherwise the resize it worked for
  is over: it becomes idle); then it may **leave** (`leave = true`; becomes idle without committing), or,
  if all cells of `g` are forwarded, go on to `commit`, or pick ANY cell `j < 2^g` (scheduler's choice —
  also a cell another helper is working on, or one that is already forwarded) and transfer it exactly as
  in `Proto/BinN`, but in ITS generation `g` (cells `(g, j)`, `(g+1, j)`, `(g+1, j + 2^g)`, split bit `g`):
  load; `moved` → `next`; empty → CAS `empty → moved` (may fail → reload); list → lock the head (blocks
  while held), re-check (cell still `node h`? else unlock and reload), split, store low, store high, store
  the forwarding marker, unlock. One shared-memory access per transition; a helper may be suspended for
  any length of time anywhere, e.g. between "store high" and "store marker", holding the bin lock.
* `commit`: one atomic step `if g = cur ∧ resizing then (cur := cur + 1; resizing := false)` (the CAS on
  `sizeCtl` / the table pointer in the real code), reachable only through `next` with `allMoved g`.
  **This over-approximates the last-one-out rule**: ANY resizing thread that is between cells may commit as
  soon as every cell is forwarded (the finishing sweep: forwarding markers are stable, so the sweep's
  cell-by-cell re-check is abstracted into the one atomic `allMoved`), also while other helpers are still
  around; those find `g ≠ cur` (or `resizing = false`) at their next `next`/`commit` and become idle.
  A helper that is stale by a generation never touches the new current generation's cells: all cells of
  its `g < cur` are `moved`, so it only finds markers (`stale_helper_is_harmless`).

`stepG false` is the variant without the re-checks (of the writers AND of the helpers): refuted in
`Lemmas/BinNHExamples.lean`. -/
namespace Flurry.Proto.BinNH
open Flurry.Lin
open Flurry.Proto.BinX (NodeS Cell Pending isReader dflt chainFrom cellHead cellOfHead)
open Flurry.Proto.BinN (cellAt putCell setNode allMoved splitBinB bitAt)

/-- program counters of a resizing thread (the cell index `j` is in ITS generation) -/
inductive HPc where
  /-- between cells: about to re-validate its generation and choose (leave / commit / next cell) -/
  | next
  /-- about to load cell `(g, j)` -/
  | cell (j : Nat)
  /-- about to CAS `(g, j): empty → moved` -/
  | casMoved (j : Nat)
  | lock (j : Nat) (h : Nat)
  | check (j : Nat) (h : Nat)
  | build (j : Nat) (h : Nat)
  | storeLow (j : Nat) (h : Nat) (low high : Option Nat)
  | storeHigh (j : Nat) (h : Nat) (high : Option Nat)
  | storeMoved (j : Nat) (h : Nat)
  | unlock (j : Nat) (h : Nat)
  /-- about to publish the next table (if it still is the resize of its generation) -/
  | commit
deriving Repr, DecidableEq

/-- the helper part of a thread: the generation it works for, and where it is -/
structure Helper where
  g : Nat
  pc : HPc
deriving Repr, DecidableEq

structure State where
  /-- shared memory, readers and writers: exactly `Proto/BinN` -/
  n : BinN.State
  /-- per thread: `some ⟨g, pc⟩` iff it is a resizing thread (of generation `g`) -/
  hs : List (Option Helper)
deriving Repr

def init (nthreads : Nat) : State := { n := BinN.init nthreads, hs := List.replicate nthreads none }

/-- the shared state with the clock advanced -/
def tickN (n : BinN.State) : BinN.State := { n with now := n.now + 1 }

def setH (s : State) (t : Nat) (n' : BinN.State) (h : Option Helper) : State := { n := n', hs := s.hs.set t h }

/-- one step of a resizing thread `t` of generation `g` at `pc` -/
def helperStep (recheck : Bool) (s : State) (t : Nat) (g : Nat) (pc : HPc) (leave : Bool) (pick : Nat) :
    Option State :=
  let n := tickN s.n
  let upd (pc' : HPc) : State := setH s t n (some ⟨g, pc'⟩)
  match pc with
  | .next =>
    if g ≠ n.cur ∨ n.resizing = false then some (setH s t n none)       -- the resize it worked for is over
    else if leave then some (setH s t n none)
    else if allMoved n g then some (upd .commit) else some (upd (.cell (pick % 2 ^ g)))
  | .cell j =>
    match cellAt n g j with
    | .empty => some (upd (.casMoved j))
    | .node h => some (upd (.lock j h))
    | .moved => some (upd .next)
  | .casMoved j =>
    if cellAt n g j == .empty then some (setH s t (putCell n g j .moved) (some ⟨g, .next⟩))
    else some (upd (.cell j))
  | .lock j h =>
    match n.heap[h]? with
    | none => none
    | some nd =>
      if nd.lock.isSome then none
      else some (setH s t (setNode n h (fun m => { m with lock := some t })) (some ⟨g, .check j h⟩))
  | .check j h =>
    if !recheck || cellAt n g j == .node h then some (upd (.build j h))
    else some (setH s t (setNode n h (fun m => { m with lock := none })) (some ⟨g, .cell j⟩))
  | .build j h =>
    let c := chainFrom n.heap n.heap.length (some h)
    let r := splitBinB (bitAt g) n.heap c
    some (setH s t { n with heap := r.1 } (some ⟨g, .storeLow j h r.2.1 r.2.2⟩))
  | .storeLow j h lo hg => some (setH s t (putCell n (g + 1) j (cellOfHead lo)) (some ⟨g, .storeHigh j h hg⟩))
  | .storeHigh j h hg =>
    some (setH s t (putCell n (g + 1) (j + 2 ^ g) (cellOfHead hg)) (some ⟨g, .storeMoved j h⟩))
  | .storeMoved j h => some (setH s t (putCell n g j .moved) (some ⟨g, .unlock j h⟩))
  | .unlock _ h => some (setH s t (setNode n h (fun m => { m with lock := none })) (some ⟨g, .next⟩))
  | .commit =>
    if g = n.cur ∧ n.resizing = true then some (setH s t { n with cur := n.cur + 1, resizing := false } none)
    else some (setH s t n none)

/-- One step of thread `t`. `inv`: the call an idle thread starts; `rz = true`: an idle thread starts the
resize (if none is running) or joins the running one; `leave`: a resizing thread between cells gives up;
`pick`: the cell a resizing thread turns to. -/
def stepG (recheck : Bool) (s : State) (t : Nat) (inv : Option (Nat × KOp)) (rz leave : Bool) (pick : Nat) :
    Option State :=
  match s.n.threads[t]?, s.hs[t]? with
  | some l, some none =>
    if l.pc = .idle then
      let n := tickN s.n
      if rz then
        if n.resizing then some (setH s t n (some ⟨n.cur, .next⟩))                       -- join as a helper
        else some (setH s t { n with resizing := true, tabs := n.tabs ++ [List.replicate (2 ^ (n.cur + 1)) .empty] }
          (some ⟨n.cur, .next⟩))                                                         -- initiate
      else
        match inv with
        | none => some { s with n := n }
        | some (k, op) =>
          some { s with n := BinN.setT n t { pc := if isReader op then .rTable else .wTable, call := some ⟨k, op, n.now⟩ } }
    else (BinN.stepG recheck s.n t none false 0).map fun n' => { s with n := n' }      -- reader / writer
  | some _, some (some hp) => helperStep recheck s t hp.g hp.pc leave pick
  | _, _ => none

def step (s : State) (t : Nat) (inv : Option (Nat × KOp)) (rz leave : Bool) (pick : Nat) : Option State :=
  stepG true s t inv rz leave pick

inductive Reachable (nthreads : Nat) : State → Prop
  | init : Reachable nthreads (init nthreads)
  | step {s s' : State} (t : Nat) (inv : Option (Nat × KOp)) (rz leave : Bool) (pick : Nat) :
      Reachable nthreads s → step s t inv rz leave pick = some s' → Reachable nthreads s'

def callsOn (s : State) (k : Nat) : History := BinN.callsOn s.n k
def absOf (s : State) (k : Nat) : KSt := BinN.absOf s.n k

/-- no call in flight and no resizing thread -/
def quiescent (s : State) : Prop := BinN.quiescent s.n ∧ ∀ h ∈ s.hs, h = none

end Flurry.Proto.BinNH
