import Flurry.Proto.BinK
import Flurry.LinMap
/-! # Proto/TableK: a whole table of fixed length — many bins, many keys, one history (C01)

`m` bins, each a `Proto/BinK` bin (empty / list / tree, with conversions in both directions, lock-free
readers, iterators, locked writers); key `k` lives in bin `k % m` (what `Table::bini` does with the
hash; the model takes the hash to be the key). Any number of threads; a thread is inside at most
one bin at a time (an operation on key `k` touches bin `k % m` only — no resize in this model: the
table keeps its length). One transition of the table is one transition of one thread in one bin; all
bins share one clock, so invocation and response times of calls in different bins are comparable.

The history of the table is the history of the *map*: calls on all keys together. Proved
(`Lemmas/TableK.lean`, `Props/C01TableK.lean`): at quiescence it is `LinMap.MapLinearizable` — ONE sequential order of all
calls on all keys, respecting real time, each call answering what a sequential map answers — from
the empty map to the map whose key `k` has the abstract state of bin `k % m`. This is the per-bin
theorem (`binK_linearizable_quiescent`) composed with locality (`C01.locality`); a `tick` of a bin is
the `BinK` step of a thread that is idle there and starts nothing, so every bin of a reachable
table is `BinK.Reachable`. -/
namespace Flurry.Proto.TableK
open Flurry.Lin Flurry.LinMap

structure State where
  bins : List BinK.State
deriving Repr

def init (m nthreads : Nat) : State := { bins := List.replicate m (BinK.init nthreads) }

/-- the clock of a bin advances although nothing happens in it -/
def tick (b : BinK.State) : BinK.State := { b with now := b.now + 1 }

/-- is thread `t` idle in bin `b` -/
def idleIn (b : BinK.State) (t : Nat) : Bool :=
  match b.threads[t]? with
  | some l => l.pc == .idle
  | none => false

/-- One step of thread `t` in bin `i`. A thread can act in bin `i` only while it is idle in every
other bin; a call it starts there must be on a key of that bin. Every other bin ticks. -/
def step (S : State) (i t : Nat) (inv : Option (Nat × KOp)) (listOnly maint small : Bool) : Option State :=
  let m := S.bins.length
  match S.bins[i]? with
  | none => none
  | some b =>
    if !((List.range m).all fun j => j == i || idleIn (S.bins.getD j (BinK.init 0)) t) then none
    else if !(match inv with | some (k, _) => k % m == i | none => true) then none
    else
      match BinK.step b t inv listOnly maint small with
      | none => none
      | some b' => some { bins := (S.bins.map tick).set i b' }

inductive Reachable (m nthreads : Nat) : State → Prop
  | init : Reachable m nthreads (init m nthreads)
  | step {S S' : State} (i t : Nat) (inv : Option (Nat × KOp)) (listOnly maint small : Bool) :
      Reachable m nthreads S → step S i t inv listOnly maint small = some S' → Reachable m nthreads S'

def quiescent (S : State) : Prop := ∀ b ∈ S.bins, BinK.quiescent b

/-- the completed calls of one bin as calls of the map, oldest first -/
def binCalls (b : BinK.State) : MHistory := b.hist.reverse.map fun e => ⟨e.1, e.2⟩

/-- the history of the map: the calls of all bins (bin by bin; the order of the list carries no
meaning, the times do) -/
def mhist (S : State) : MHistory := (S.bins.map binCalls).flatten

/-- the abstract map: key `k` has the abstract state of its bin -/
def absMap (S : State) : MSt := fun k => BinK.absOf (S.bins.getD (k % S.bins.length) (BinK.init 0)) k

end Flurry.Proto.TableK
