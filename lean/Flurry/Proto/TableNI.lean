import Flurry.Proto.BinNI
import Flurry.Proto.TableN
import Flurry.LinMap
/-! # Proto/TableNI: a whole table through any number of resizes, with CONCURRENT TABLE ITERATIONS (C07, C01)

`m` bin *lineages*, each a `Proto/BinNI` lineage (= a `Proto/BinN` lineage — list bins, lock-free readers,
locked writers, one resizing thread per lineage and generation, any number of successive resizes — plus
iterator threads). The key translation is `Proto/TableN`'s: key `k` lives in lineage `k % m` under the local
name `k / m`; cell `(g, j)` of lineage `i` is bin `i + m * j` of the table of length `m * 2^g`; `step`
translates the key of a call; the map history and the yields are recorded / re-keyed under the ORIGINAL keys
(`globalKey m i q = i + m * q`).

**A table iteration = one `BinNI` iterator per lineage, run by the same thread.** The real traverser visits
the bins `0 … n−1` of its root table (length `n = m * 2^g0`), i.e. cell `j` of lineage `i` at bin
`i + m * j`, and on a forwarding marker at `index` descends to `index` and `index + n` of the next table —
which, lineage by lineage, is exactly `BinNI`'s walk order: cells `j = 0, 1, …` of the root generation, a
forwarded cell `(g, j)` replaced by its children `(g+1, j)`, `(g+1, j + 2^g)`. **The model lets the `m`
per-lineage walks of a thread interleave ARBITRARILY** (any lineage's iterator may take the next step; the
per-lineage iterators are created one by one, in any order, possibly long after one another, each loading
the table pointer of its lineage when it is created): this OVER-APPROXIMATES the real, fixed bin order
(round-robin over the lineages for the root cells) and the single load of the table pointer — more
executions, not fewer. (As in `Proto/TableN` the table pointer is modelled per lineage.) A thread may
run several per-lineage iterations one after the other; a *table iteration* is identified by its thread and
the creation times `c i` of its `m` per-lineage iterations (`Completed`), its creation time `τ0` is (a lower
bound of) the earliest `c i`, its end time `τ1` (an upper bound of) the latest end `e i`.

**Threads and the clock.** A `BinNI` iterator does not occupy its thread's `BinN` local (an iterating thread
is idle as a `BinN` thread), and one thread holds iterators in several lineages at once. The rule "a thread
acts in one lineage at a time" is kept for what it is about: thread `t` can take a step in lineage `i` —
a step of a call or a resize, the start of one, the creation of an iterator, or a step of its iterator of
lineage `i` — only while it is idle AS A `BinN` THREAD (no call, no resize in progress) in every other
lineage; its iterators in other lineages do not matter. All lineages share one clock: the acting lineage
makes a `BinNI.step` (which advances its clock by one), every other lineage `tick`s. Because thread `t` may
be iterating in a lineage that has to tick (so `t`'s own no-op step there would be an iterator step), ticks
are the no-op steps of a dedicated **clock thread**: every lineage has `nthreads + 1` threads, thread
`clk = nthreads` never starts anything (`step` refuses `t = clk`), is idle and not iterating in every
lineage for ever, and `tick b = BinNI.step b clk false none false 0` (`Lemmas/TableNI.lean`:
`tick_is_step`). Hence every lineage of a reachable table is literally `BinNI.Reachable (nthreads + 1)`, and
all clocks agree (`clocks_agree`). -/
namespace Flurry.Proto.TableNI
open Flurry.Lin Flurry.LinMap
open Flurry.Proto.TableN (lineageOf localKey globalKey inLineage localInv)

structure State where
  bins : List BinNI.State
  /-- the clock thread (= the number of real threads) -/
  clk : Nat
deriving Repr

def init (m nthreads : Nat) : State := { bins := List.replicate m (BinNI.init (nthreads + 1)), clk := nthreads }

/-- the clock of a lineage advances although nothing happens in it -/
def tick (b : BinNI.State) : BinNI.State := { b with n := { b.n with now := b.n.now + 1 } }

/-- is thread `t` idle AS A `BinN` THREAD in lineage `b` (no call, no resize; it may be iterating) -/
def idleIn (b : BinNI.State) (t : Nat) : Bool :=
  match b.n.threads[t]? with
  | some l => l.pc == .idle
  | none => false

/-- One step of thread `t ≠ clk` in lineage `i` (`mk`, `inv`, `rz`, `pick` are the arguments of
`BinNI.step`, `inv` with the key of the TABLE). Every other lineage ticks. -/
def step (S : State) (i t : Nat) (mk : Bool) (inv : Option (Nat × KOp)) (rz : Bool) (pick : Nat) : Option State :=
  let m := S.bins.length
  match S.bins[i]? with
  | none => none
  | some b =>
    if t == S.clk then none
    else if !((List.range m).all fun j => j == i || idleIn (S.bins.getD j (BinNI.init 0)) t) then none
    else if !inLineage m i (inv.map (·.1)) then none
    else
      match BinNI.step b t mk (localInv m inv) rz pick with
      | none => none
      | some b' => some { S with bins := (S.bins.map tick).set i b' }

inductive Reachable (m nthreads : Nat) : State → Prop
  | init : Reachable m nthreads (init m nthreads)
  | step {S S' : State} (i t : Nat) (mk : Bool) (inv : Option (Nat × KOp)) (rz : Bool) (pick : Nat) :
      Reachable m nthreads S → step S i t mk inv rz pick = some S' → Reachable m nthreads S'

/-- `S'` is reached from `S` by zero or more transitions of the table -/
inductive Steps : State → State → Prop
  | refl (S : State) : Steps S S
  | tail {S S' S'' : State} (i t : Nat) (mk : Bool) (inv : Option (Nat × KOp)) (rz : Bool) (pick : Nat) :
      Steps S S' → step S' i t mk inv rz pick = some S'' → Steps S S''

/-- no call and no resize in progress, in any lineage (iterators may be alive) -/
def quiescent (S : State) : Prop := ∀ b ∈ S.bins, BinN.quiescent b.n

/-- the history of the map: the calls of all lineages under the keys of the table -/
def mhist (S : State) : MHistory :=
  ((List.range S.bins.length).map fun i =>
    TableN.binCalls S.bins.length i (S.bins.getD i (BinNI.init 0)).n).flatten

/-- the abstract map: key `k` has the abstract state of local key `k / m` in lineage `k % m` -/
def absMap (S : State) : MSt :=
  fun k => BinNI.absOf (S.bins.getD (lineageOf S.bins.length k) (BinNI.init 0)) (localKey S.bins.length k)

/-- the clock of lineage `i` (all lineages of a reachable table show the same time: `clocks_agree`) -/
def clockAt (S : State) (i : Nat) : Nat := (S.bins.getD i (BinNI.init 0)).n.now

/-- a yield of lineage `i` under the key of the table -/
def rekey (m i : Nat) (y : BinNI.Yield) : BinNI.Yield := { y with key := globalKey m i y.key }

/-- everything yielded so far, by all lineages' iterators, under the keys of the table (lineage by lineage;
the order of the list carries no meaning, the times do) -/
def tyields (S : State) : List BinNI.Yield :=
  ((List.range S.bins.length).map fun i =>
    (S.bins.getD i (BinNI.init 0)).yields.map (rekey S.bins.length i)).flatten

/-- **a completed table iteration** of thread `t`: in every lineage `i` its iteration created at `c i` has
ended at `e i`; `τ0` is at most the earliest creation, `τ1` at least the latest end (in particular
`τ0 = min c`, `τ1 = max e`) -/
structure Completed (S : State) (t : Nat) (c e : Nat → Nat) (τ0 τ1 : Nat) : Prop where
  ends : ∀ (i : Nat) (b : BinNI.State), S.bins[i]? = some b → (t, c i, e i) ∈ b.ends
  lo : ∀ i, i < S.bins.length → τ0 ≤ c i
  hi : ∀ i, i < S.bins.length → e i ≤ τ1

/-- the yields of the table iteration `(t, c)`: a yield of key `k` belongs to it iff it is one of thread `t`'s
iteration of lineage `k % m` created at `c (k % m)` -/
def yieldsOf (S : State) (t : Nat) (c : Nat → Nat) (k : Nat) : List BinNI.Yield :=
  (tyields S).filter fun y => decide (y.tid = t ∧ y.t0 = c (lineageOf S.bins.length y.key) ∧ y.key = k)

/-- **a past state of the table, lineage by lineage**: every lineage of `S₁` is a reachable state of
`Proto/BinNI` from which the corresponding lineage of `S` is reached. This is the notion of "prefix state"
of `Props/C07BinNI*.lean` (there: `Reachable nt s₁ ∧ Steps s₁ s`), taken per lineage; every state of the
run of the table that leads to `S` is one (`Lemmas/TableNI.lean`: `before_of_steps`), at one common clock
value. The time of `S₁` as far as key `k` is concerned is `clockAt S₁ (k % m)`. -/
structure Before (nthreads : Nat) (S₁ S : State) : Prop where
  len : S₁.bins.length = S.bins.length
  lin : ∀ (i : Nat) (b₁ b : BinNI.State), S₁.bins[i]? = some b₁ → S.bins[i]? = some b →
    BinNI.Reachable (nthreads + 1) b₁ ∧ BinNI.Steps b₁ b

end Flurry.Proto.TableNI
