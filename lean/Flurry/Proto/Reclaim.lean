/-! # Proto/Reclaim: the ownership discipline on top of seize (C03, C04)

Objects (nodes, tree bins, tables, values) and threads. A thread may only pick up a pointer to an
object that is currently *linked* (reachable from the map's roots) and only while it holds a
guard; it drops all its pointers when it releases (or refreshes) the guard. A writer first
*unlinks* an object, then *retires* it through its own guard; the collector frees a retired
object only when every thread whose guard was active at the moment of retirement has released
it since (epoch/batch reclamation, abstractly). `unprotectedRetire` is what
`Guard::unprotected()` does: the object is freed at once.

What flurry has to guarantee for this to apply — pointers are obtained only under a guard
(signatures, C16), only linked objects can be reached, retire comes after unlink, every retire
goes through the map's own collector (C09) — is checked on the implementation's event stream
(`/verif/harness/src/life.rs`: [uaf], [early-free], [retire-reachable], [double-free], [drop]).

Definitions only; theorems in `Flurry/Lemmas/Reclaim.lean` and `Props/C03.lean`, `Props/C04.lean`. -/
namespace Flurry.Proto.Reclaim

inductive OSt where
  | fresh                         -- allocated, not yet published (owned by its creator)
  | linked                        -- reachable from the map
  | unlinked                      -- no longer reachable for threads that start looking now
  | retired (waitFor : List Nat)  -- handed to the collector; threads it still has to wait for
  | freed
deriving DecidableEq, Repr

structure Thread where
  /-- holds an active guard -/
  guarded : Bool := false
  /-- objects this thread holds raw pointers to -/
  holds : List Nat := []
deriving DecidableEq, Repr

structure State where
  objs : List OSt
  threads : List Thread
  /-- number of `free`s per object (C04: at most one) -/
  frees : List Nat
  /-- touches of an object that was already freed (C03: must stay `0`) -/
  badTouches : Nat := 0
deriving Repr

inductive Ev where
  | enter (t : Nat)
  /-- drop or refresh the guard: all pointers are given up -/
  | exit (t : Nat)
  | alloc (t : Nat)                 -- a new object, held by `t`
  | publish (t o : Nat)             -- a fresh object becomes reachable
  | acquire (t o : Nat)             -- `t` loads a pointer to `o` from shared memory
  | touch (t o : Nat)               -- `t` reads or writes through a pointer it holds
  | unlink (t o : Nat)
  | retire (t o : Nat)
  /-- the same through `Guard::unprotected()`: reclaimed immediately -/
  | unprotectedRetire (t o : Nat)
  | free (o : Nat)                  -- the collector reclaims `o`
deriving DecidableEq, Repr

def activeThreads (ts : List Thread) : List Nat :=
  (ts.zipIdx.filter (·.1.guarded)).map (·.2)

def setObj (s : State) (o : Nat) (st : OSt) : State := { s with objs := s.objs.set o st }
def setThr (s : State) (t : Nat) (th : Thread) : State := { s with threads := s.threads.set t th }

/-- after thread `t` released its guard the collector no longer waits for it -/
def dropWaiter (t : Nat) : OSt → OSt
  | .retired w => .retired (w.filter (· != t))
  | st => st

/-- the transition relation as a partial function: `none` = the event is not allowed by the
discipline (the trace checker reports it) -/
def step (s : State) : Ev → Option State
  | .enter t =>
    match s.threads[t]? with
    | some th => if th.guarded then none else some (setThr s t { th with guarded := true })
    | none => none
  | .exit t =>
    match s.threads[t]? with
    | some th =>
      if th.guarded then
        some { (setThr s t { guarded := false, holds := [] }) with objs := s.objs.map (dropWaiter t) }
      else none
    | none => none
  | .alloc t =>
    match s.threads[t]? with
    | some th =>
      some { (setThr s t { th with holds := s.objs.length :: th.holds }) with
               objs := s.objs ++ [.fresh], frees := s.frees ++ [0] }
    | none => none
  | .publish t o =>
    match s.threads[t]?, s.objs[o]? with
    | some th, some .fresh => if th.holds.contains o then some (setObj s o .linked) else none
    | _, _ => none
  | .acquire t o =>
    match s.threads[t]?, s.objs[o]? with
    | some th, some .linked =>
      if th.guarded then some (setThr s t { th with holds := o :: th.holds }) else none
    | _, _ => none
  | .touch t o =>
    match s.threads[t]?, s.objs[o]? with
    | some th, some st =>
      if th.holds.contains o then
        some (if st = .freed then { s with badTouches := s.badTouches + 1 } else s)
      else none
    | _, _ => none
  | .unlink t o =>
    match s.threads[t]?, s.objs[o]? with
    | some th, some .linked => if th.holds.contains o && th.guarded then some (setObj s o .unlinked) else none
    | _, _ => none
  | .retire t o =>
    match s.threads[t]?, s.objs[o]? with
    | some th, some .unlinked =>
      if th.guarded then some (setObj s o (.retired (activeThreads s.threads))) else none
    | _, _ => none
  | .unprotectedRetire t o =>
    match s.threads[t]?, s.objs[o]? with
    | some _, some .unlinked =>
      some { (setObj s o .freed) with frees := s.frees.set o (s.frees.getD o 0 + 1) }
    | _, _ => none
  | .free o =>
    match s.objs[o]? with
    | some (.retired []) => some { (setObj s o .freed) with frees := s.frees.set o (s.frees.getD o 0 + 1) }
    | _ => none

def init (nthreads : Nat) : State := { objs := [], threads := List.replicate nthreads {}, frees := [] }

def run (s : State) : List Ev → Option State
  | [] => some s
  | e :: es => match step s e with | some s' => run s' es | none => none

/-- the event list uses only protected guards -/
def Protected (es : List Ev) : Prop := ∀ e ∈ es, ∀ t o, e ≠ .unprotectedRetire t o

end Flurry.Proto.Reclaim
