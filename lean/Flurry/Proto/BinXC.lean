import Flurry.Lin
/-! # Proto/BinXC: `Proto/BinX` plus `clear()` and retirement (C01, C03, C04 at the bin level; finding F7)

Everything of `Proto/BinX` (a list bin while its one-bin table is resized to a two-bin table), and:

* **`clear()`** (`src/map.rs`): walks the bins of the table it loaded by index; an empty bin is
  skipped; a bin with a head `h` is emptied under `h`'s lock after the usual re-check (one store:
  the cell becomes empty) and its nodes are retired; a forwarding marker sends it to the next
  table, where it starts again at index 0 (low cell, then high cell).
  - `waitCommit = true` (the repaired code): before it continues in the next table it waits until
    the resize out of the table it is in has been committed (`cur = new`).
  - `waitCommit = false` (the original code, and the JDK's): it continues at once. The old table
    of this model has a single bin; "clear met a forwarding marker in *another* bin of the old
    table" is modelled by letting it leave the old table as soon as a resize is running.
  Per key, a `clear` is a removal whose result is ignored: it is recorded in the history as a
  `cipRm` call on every key (`hist` entries with key `none`).
* **retirement**: a writer that unlinks a node, `clear` when it empties a bin, and the transferring
  thread after forwarding (the copied nodes of the old list) hand nodes to the collector:
  `retired` (ghost). The reclamation rule (C03) requires a retired node to be unreachable for every
  thread that starts looking afterwards: not on the chain of any cell an operation can start from
  (`startCells`).

To be proved (`Lemmas/BinXC*.lean`) for `waitCommit = true`: linearizability of every key's history
(with `clear`), and `retired_unreachable`. For `waitCommit = false` both fail: finding F7. -/
namespace Flurry.Proto.BinXC
open Flurry.Lin

structure NodeS where
  key : Nat
  val : Nat × Nat
  next : Option Nat
  lock : Option Nat := none
deriving Repr, DecidableEq

inductive Cell where
  | empty
  | node (h : Nat)
  | moved
deriving Repr, DecidableEq

/-- which table: the old one-bin table or the new two-bin table -/
inductive Tab where | old | new
deriving Repr, DecidableEq

structure Pending where
  key : Nat
  op : KOp
  inv : Nat
deriving Repr, DecidableEq

inductive Pc where
  | idle
  /-- about to load the table pointer -/
  | rTable
  /-- reader: about to load the bin cell of its key in table `tab` -/
  | rCell (tab : Tab)
  | rNode (cur : Option Nat)
  | wTable
  | wCell (tab : Tab)
  /-- writer: about to CAS the (empty) cell of its key in `tab` to a new node -/
  | wCas (tab : Tab)
  | wLock (tab : Tab) (h : Nat)
  | wCheck (tab : Tab) (h : Nat)
  | wFind (tab : Tab) (h : Nat) (pred : Option Nat) (cur : Option Nat)
  | wStore (tab : Tab) (h : Nat) (pred : Option Nat) (hit : Option Nat) (hnext : Option Nat)
  /-- about to unlock node `h`; `retry`: the re-check failed, look at the cell of `tab` again -/
  | wUnlock (tab : Tab) (h : Nat) (res : KRes) (retry : Bool)
  -- clear ------------------------------------------------------------------------------
  /-- about to load the table pointer -/
  | cTable
  /-- about to load cell number `idx` of table `tab` (old: 0; new: 0 = low, 1 = high) -/
  | cCell (tab : Tab) (idx : Nat)
  /-- met a forwarding marker: waiting for the commit (`waitCommit`) before going to the next table -/
  | cWait
  | cLock (tab : Tab) (idx : Nat) (h : Nat)
  | cCheck (tab : Tab) (idx : Nat) (h : Nat)
  /-- holds the validated lock of the head of cell `idx`: about to store "empty" into the cell -/
  | cStore (tab : Tab) (idx : Nat) (h : Nat)
  | cUnlock (tab : Tab) (idx : Nat) (h : Nat) (retry : Bool)
  -- the resizing thread ------------------------------------------------------------------
  /-- about to load `cell0` -/
  | tCell
  /-- about to CAS `cell0: empty → moved` -/
  | tCasMoved
  | tLock (h : Nat)
  | tCheck (h : Nat)
  /-- holds the validated lock of `h`: about to split the list (reads under the lock, private allocation) -/
  | tBuild (h : Nat)
  | tStoreLow (h : Nat) (low high : Option Nat)
  | tStoreHigh (h : Nat) (high : Option Nat)
  | tStoreMoved (h : Nat)
  | tUnlock (h : Nat)
  /-- about to publish the new table -/
  | tCommit
deriving Repr, DecidableEq

structure Local where
  pc : Pc := .idle
  call : Option Pending := none
deriving Repr, DecidableEq

structure State where
  heap : List NodeS := []
  cell0 : Cell := .empty
  lowCell : Cell := .empty
  highCell : Cell := .empty
  /-- the table pointer -/
  cur : Tab := .old
  /-- a resize has been started (there is exactly one) -/
  resizing : Bool := false
  threads : List Local
  /-- completed calls with their key; key `none`: a `clear`, which concerns every key -/
  hist : List (Option Nat × Call) := []
  /-- ghost: nodes handed to the collector -/
  retired : List Nat := []
  now : Nat := 0
deriving Repr

def init (nthreads : Nat) : State := { threads := List.replicate nthreads {} }

def isReader : KOp → Bool
  | .get | .has => true
  | _ => false

/-- the split bit of a key -/
def hiBit (k : Nat) : Bool := k % 2 == 1

def dflt : NodeS := ⟨0, (0, 0), none, none⟩

def cellOf (s : State) (tab : Tab) (k : Nat) : Cell :=
  match tab with
  | .old => s.cell0
  | .new => if hiBit k then s.highCell else s.lowCell

def setCell (s : State) (tab : Tab) (k : Nat) (c : Cell) : State :=
  match tab with
  | .old => { s with cell0 := c }
  | .new => if hiBit k then { s with highCell := c } else { s with lowCell := c }

def chainFrom (heap : List NodeS) : Nat → Option Nat → List Nat
  | 0, _ => []
  | _, none => []
  | fuel + 1, some i =>
    match heap[i]? with
    | none => []
    | some n => i :: chainFrom heap fuel n.next

def cellHead : Cell → Option Nat
  | .node h => some h
  | _ => none

def chainOfCell (s : State) (c : Cell) : List Nat := chainFrom s.heap s.heap.length (cellHead c)

/-- the bin a lookup of `k` ends in: the old bin until it is forwarded, then the new one -/
def liveCell (s : State) (k : Nat) : Cell :=
  if s.cell0 == .moved then cellOf s .new k
  else if s.cur == .new then cellOf s .new k else s.cell0

def absOf (s : State) (k : Nat) : KSt :=
  match (chainOfCell s (liveCell s k)).find? (fun i => (s.heap.getD i dflt).key == k) with
  | some i => some (s.heap.getD i dflt).val
  | none => none

def setNode (s : State) (i : Nat) (f : NodeS → NodeS) : State := { s with heap := s.heap.modify i f }
def setT (s : State) (t : Nat) (l : Local) : State := { s with threads := s.threads.set t l }

def finish (s : State) (t : Nat) (p : Pending) (res : KRes) : State :=
  { (setT s t { pc := .idle, call := none }) with
      hist := (some p.key, { tid := t, op := p.op, res := res, inv := p.inv, resp := s.now }) :: s.hist }

/-- complete a `clear` (recorded as a `cipRm` on every key) -/
def finishClear (s : State) (t : Nat) (p : Pending) : State :=
  { (setT s t { pc := .idle, call := none }) with
      hist := (none, { tid := t, op := .cipRm, res := .none, inv := p.inv, resp := s.now }) :: s.hist }

/-- cell number `idx` of a table -/
def cellAt (s : State) (tab : Tab) (idx : Nat) : Cell :=
  match tab, idx with
  | .old, _ => s.cell0
  | .new, 0 => s.lowCell
  | .new, _ => s.highCell

def setCellAt (s : State) (tab : Tab) (idx : Nat) (c : Cell) : State :=
  match tab, idx with
  | .old, _ => { s with cell0 := c }
  | .new, 0 => { s with lowCell := c }
  | .new, _ => { s with highCell := c }

def tabLen : Tab → Nat
  | .old => 1
  | .new => 2

/-- the cells an operation that starts now can reach: the current table's, and the next table's
once the old cell forwards to it -/
def startCells (s : State) : List Cell :=
  match s.cur with
  | .new => [s.lowCell, s.highCell]
  | .old => if s.cell0 == .moved then [s.cell0, s.lowCell, s.highCell] else [s.cell0]

/-- every node reachable by an operation that starts now -/
def reachableNow (s : State) : List Nat := (startCells s).flatMap (chainOfCell s)

/-- the writer's single store with the positions remembered during its walk (as `Proto/BinW`),
in the bin of table `tab` -/
def storeAt (s : State) (tab : Tab) (p : Pending) (pred hit hnext : Option Nat) : State × KRes :=
  let append (v vi : Nat) : State :=
    let newIdx := s.heap.length
    let s1 := { s with heap := s.heap ++ [⟨p.key, (v, vi), none, none⟩] }
    match pred with
    | some l => setNode s1 l (fun n => { n with next := some newIdx })
    | none => setCell s1 tab p.key (.node newIdx)
  let unlink : State :=
    match pred with
    | some pr => setNode s pr (fun m => { m with next := hnext })
    | none => setCell s tab p.key (match hnext with | some x => .node x | none => .empty)
  match p.op, hit with
  | .ins v vi, some i => (setNode s i (fun n => { n with val := (v, vi) }), resOf (some (s.heap.getD i dflt).val))
  | .ins v vi, none => (append v vi, .none)
  | .tryIns _ _, some i => let x := (s.heap.getD i dflt).val; (s, .exists_ x.1 x.2)
  | .tryIns v vi, none => (append v vi, .none)
  | .rm, some i => (unlink, resOf (some (s.heap.getD i dflt).val))
  | .rm, none => (s, .none)
  | .cipInc nvi, some i =>
    let n := s.heap.getD i dflt
    (setNode s i (fun m => { m with val := (n.val.1 + 1, nvi) }), .some (n.val.1 + 1) nvi)
  | .cipInc _, none => (s, .none)
  | .cipRm, some _ => (unlink, .none)
  | .cipRm, none => (s, .none)
  | .get, _ => (s, .none)
  | .has, _ => (s, .none)

/-- the start of the last run of a chain: the longest suffix whose nodes all have the split bit of
the last node. Returns the index (into the chain) where it starts. -/
def lastRunStart (heap : List NodeS) (c : List Nat) : Nat :=
  let bits := c.map fun i => hiBit (heap.getD i dflt).key
  match bits.getLast? with
  | none => 0
  | some b => c.length - (bits.reverse.takeWhile (· == b)).length

/-- split the (locked, stable) old list: new heap, head of the low list, head of the high list.
The last run is re-used; the nodes before it are copied and prepended to their side. -/
def splitBin (heap : List NodeS) (c : List Nat) : List NodeS × Option Nat × Option Nat :=
  let k := lastRunStart heap c
  let run := c.drop k
  let runBit := match run.head? with | some i => hiBit (heap.getD i dflt).key | none => false
  let low0 : Option Nat := if runBit then none else run.head?
  let high0 : Option Nat := if runBit then run.head? else none
  (c.take k).foldl
    (fun (acc : List NodeS × Option Nat × Option Nat) i =>
      let (hp, lo, hg) := acc
      let n := hp.getD i dflt
      let idx := hp.length
      if hiBit n.key then (hp ++ [⟨n.key, n.val, hg, none⟩], lo, some idx)
      else (hp ++ [⟨n.key, n.val, lo, none⟩], some idx, hg))
    (heap, low0, high0)

def cellOfHead : Option Nat → Cell
  | some h => .node h
  | none => .empty

/-- One step of thread `t`. `inv`: the call an idle thread starts (`some (k, op)`), or
`resize = true`: an idle thread starts the (one) resize. -/
def stepG (recheck waitCommit : Bool) (s : State) (t : Nat) (inv : Option (Nat × KOp)) (resize clear : Bool) : Option State :=
  match s.threads[t]? with
  | none => none
  | some l =>
    let s := { s with now := s.now + 1 }
    let upd (pc : Pc) : State := setT s t { l with pc := pc }
    match l.pc, l.call with
    | .idle, _ =>
      if resize then
        if s.resizing then some s else some { (upd .tCell) with resizing := true }
      else if clear then
        some (setT s t { pc := .cTable, call := some ⟨0, .cipRm, s.now⟩ })
      else
        match inv with
        | none => some s
        | some (k, op) =>
          some (setT s t { pc := if isReader op then .rTable else .wTable, call := some ⟨k, op, s.now⟩ })
    -- readers
    | .rTable, some _ => some (upd (.rCell s.cur))
    | .rCell tab, some p =>
      match cellOf s tab p.key with
      | .empty => some (finish s t p (match p.op with | .has => .bool false | _ => .none))
      | .moved => some (upd (.rCell .new))
      | .node h => some (upd (.rNode (some h)))
    | .rNode none, some p =>
      some (finish s t p (match p.op with | .has => .bool false | _ => .none))
    | .rNode (some c), some p =>
      match s.heap[c]? with
      | none => none
      | some n =>
        if n.key == p.key then
          some (finish s t p (match p.op with | .has => .bool true | _ => .some n.val.1 n.val.2))
        else some (upd (.rNode n.next))
    -- writers
    | .wTable, some _ => some (upd (.wCell s.cur))
    | .wCell tab, some p =>
      match cellOf s tab p.key with
      | .empty =>
        match p.op with
        | .ins _ _ | .tryIns _ _ => some (upd (.wCas tab))
        | _ => some (finish s t p .none)
      | .moved => some (upd (.wCell .new))          -- help_transfer: continue in the next table
      | .node h => some (upd (.wLock tab h))
    | .wCas tab, some p =>
      match cellOf s tab p.key, p.op with
      | .empty, .ins v vi | .empty, .tryIns v vi =>
        let newIdx := s.heap.length
        some (finish (setCell { s with heap := s.heap ++ [⟨p.key, (v, vi), none, none⟩] } tab p.key (.node newIdx)) t p .none)
      | _, _ => some (upd (.wCell tab))
    | .wLock tab h, some _ =>
      match s.heap[h]? with
      | none => none
      | some n =>
        if n.lock.isSome then none
        else some (setT (setNode s h (fun m => { m with lock := some t })) t { l with pc := .wCheck tab h })
    | .wCheck tab h, some p =>
      if !recheck || cellOf s tab p.key == .node h then some (upd (.wFind tab h none (some h)))
      else some (upd (.wUnlock tab h .none true))
    | .wFind tab h pred cur, some p =>
      match cur with
      | none => some (upd (.wStore tab h pred none none))
      | some c =>
        match s.heap[c]? with
        | none => none
        | some n =>
          if n.key == p.key then some (upd (.wStore tab h pred (some c) n.next))
          else some (upd (.wFind tab h (some c) n.next))
    | .wStore tab h pred hit hnext, some p =>
      let (s', res) := storeAt s tab p pred hit hnext
      -- a removal retires the node it unlinked
      let s' := match p.op, hit with
        | .rm, some i | .cipRm, some i => { s' with retired := i :: s'.retired }
        | _, _ => s'
      some (setT s' t { l with pc := .wUnlock tab h res false })
    | .wUnlock tab h res retry, some p =>
      let s1 := setNode s h (fun m => { m with lock := none })
      -- `continue`: the loop looks at the bin of the same table variable again
      if retry then some (setT s1 t { l with pc := .wCell tab }) else some (finish s1 t p res)
    -- clear
    | .cTable, some _ => some (upd (.cCell s.cur 0))
    | .cCell tab idx, some p =>
      if idx ≥ tabLen tab then some (finishClear s t p)
      else if !waitCommit && tab == .old && s.resizing && s.cell0 != .moved then
        -- (original code) a forwarding marker in another bin of the old table: on to the next table
        some (upd (.cCell .new 0))
      else
        match cellAt s tab idx with
        | .empty => some (upd (.cCell tab (idx + 1)))
        | .moved => if waitCommit then some (upd .cWait) else some (upd (.cCell .new 0))
        | .node h => some (upd (.cLock tab idx h))
    | .cWait, some _ =>
      -- `while self.table == prev { yield }`
      if s.cur == .new then some (upd (.cCell .new 0)) else some (upd .cWait)
    | .cLock tab idx h, some _ =>
      match s.heap[h]? with
      | none => none
      | some n =>
        if n.lock.isSome then none
        else some (setT (setNode s h (fun m => { m with lock := some t })) t { l with pc := .cCheck tab idx h })
    | .cCheck tab idx h, some _ =>
      if !recheck || cellAt s tab idx == .node h then some (upd (.cStore tab idx h))
      else some (upd (.cUnlock tab idx h true))
    | .cStore tab idx h, some _ =>
      -- unlink the whole bin, then (outside the lock in the code) retire its nodes
      let c := chainFrom s.heap s.heap.length (some h)
      let s1 := setCellAt s tab idx .empty
      some (setT { s1 with retired := c ++ s1.retired } t { l with pc := .cUnlock tab idx h false })
    | .cUnlock tab idx h retry, some _ =>
      let s1 := setNode s h (fun m => { m with lock := none })
      some (setT s1 t { l with pc := .cCell tab (if retry then idx else idx + 1) })
    -- the resizing thread (it has no call in flight)
    | .tCell, none =>
      match s.cell0 with
      | .empty => some (upd .tCasMoved)
      | .node h => some (upd (.tLock h))
      | .moved => some (upd .tCommit)
    | .tCasMoved, none =>
      if s.cell0 == .empty then some { (upd .tCommit) with cell0 := .moved } else some (upd .tCell)
    | .tLock h, none =>
      match s.heap[h]? with
      | none => none
      | some n =>
        if n.lock.isSome then none
        else some (setT (setNode s h (fun m => { m with lock := some t })) t { l with pc := .tCheck h })
    | .tCheck h, none =>
      if !recheck || s.cell0 == .node h then some (upd (.tBuild h))
      else some (setT (setNode s h (fun m => { m with lock := none })) t { l with pc := .tCell })
    | .tBuild h, none =>
      let c := chainFrom s.heap s.heap.length (some h)
      let (hp, lo, hg) := splitBin s.heap c
      some (setT { s with heap := hp } t { l with pc := .tStoreLow h lo hg })
    | .tStoreLow h lo hg, none =>
      some { (upd (.tStoreHigh h hg)) with lowCell := cellOfHead lo }
    | .tStoreHigh h hg, none =>
      some { (upd (.tStoreMoved h)) with highCell := cellOfHead hg }
    | .tStoreMoved h, none =>
      -- forward, then retire the old nodes that were copied (the re-used run lives on)
      let c := chainFrom s.heap s.heap.length (some h)
      let copied := c.take (lastRunStart s.heap c)
      some { (upd (.tUnlock h)) with cell0 := .moved, retired := copied ++ s.retired }
    | .tUnlock h, none =>
      some (setT (setNode s h (fun m => { m with lock := none })) t { l with pc := .tCommit })
    | .tCommit, none => some { (upd .idle) with cur := .new }
    | _, _ => none

/-- the model: with the re-checks, `clear` waits for the commit (the repaired code) -/
def step (s : State) (t : Nat) (inv : Option (Nat × KOp)) (resize clear : Bool) : Option State :=
  stepG true true s t inv resize clear

/-- the original `clear` (finding F7): it enters the next table without waiting -/
def stepNoWait (s : State) (t : Nat) (inv : Option (Nat × KOp)) (resize clear : Bool) : Option State :=
  stepG true false s t inv resize clear

inductive Reachable (nthreads : Nat) : State → Prop
  | init : Reachable nthreads (init nthreads)
  | step {s s' : State} (t : Nat) (inv : Option (Nat × KOp)) (resize clear : Bool) :
      Reachable nthreads s → step s t inv resize clear = some s' → Reachable nthreads s'

inductive ReachableNoWait (nthreads : Nat) : State → Prop
  | init : ReachableNoWait nthreads (init nthreads)
  | step {s s' : State} (t : Nat) (inv : Option (Nat × KOp)) (resize clear : Bool) :
      ReachableNoWait nthreads s → stepNoWait s t inv resize clear = some s' → ReachableNoWait nthreads s'

def callsOn (s : State) (k : Nat) : History :=
  (s.hist.filter (fun e => e.1 == some k || e.1 == none)).reverse.map (·.2)

/-- C03 at the bin level: nothing that has been retired can be reached by an operation that starts now -/
def retiredUnreachable (s : State) : Prop := ∀ i ∈ s.retired, i ∉ reachableNow s

def quiescent (s : State) : Prop := ∀ l ∈ s.threads, l.pc = .idle

end Flurry.Proto.BinXC
