import Flurry.Proto.BinGN
import Flurry.Proto.TableN
import Flurry.LinMap
/-! # Proto/TableGN: a whole table with list AND tree bins through ANY NUMBER of resizes — many lineages,
many keys, one history (C01)

The construction of `Proto/TableN` over `Proto/BinGN` lineages. `m` bin *lineages*, each a `Proto/BinGN`
lineage: bin `i` of the initial table (length `m`) and everything it is split into, resize after resize, each
cell being empty, a list bin, a tree bin (`TreeBin` object with its mutex, its read-write lock and WAITER) or a
forwarding marker; treeify, untreeify, tree writers, lock-protocol readers, list readers / iterators; the
transfer of an empty, a list and a tree bin (the old `TreeBin` object re-used when one side is empty). Lineage
`i` at generation `g` has the cells `(g, j)`, `j < 2^g`; cell `(g, j)` of lineage `i` is bin `i + m * j` of the
table of length `m * 2^g`. The model takes the hash to be the key. Key `k` lives in lineage `k % m`
(`TableN.lineageOf`) and is known inside its lineage by the quotient `k / m` (`TableN.localKey`): `Proto/BinGN`
puts local key `q` of generation `g` in cell `(g, q % 2^g)`, so key `k` is in bin `k % m + m * ((k / m) % 2^g)`
of the table of length `m * 2^g` — which is `k % (m * 2^g)`, and for `m = 2^a` it is `k % 2^(a+g)`, the index the
code computes (`TableN.bin_index_eq`, `TableN.binIndex_eq_mod`: pure arithmetic, re-used by import); the split bit
of generation `g` inside the lineage (`BinGN.bitAt g (k / m)`) is then bit `a + g` of `k`. `m` need not be a power
of two for anything proved here. Every natural number `q` is a local key of every lineage
(`TableN.globalKey m i q = i + m * q` is the key of the table it stands for), so there is no "keys of this
lineage" invariant to maintain: a call on key `k` of the table IS the call on local key `k / m` in lineage
`k % m` (`step` translates the key), and the history of the map records the ORIGINAL key (`binCalls` translates
back, `globalKey m (k % m) (k / m) = k`).

**The treeify key is translated like the invocation key.** `BinGN.step` takes `maint = some q`: an idle thread
starts the treeify of the cell of (local) key `q`. `TableGN.step` takes the key `k` of the TABLE (`mt = some k`):
it must be a key of the lineage the thread acts in (`k % m = i`, otherwise the step is refused) and is handed to
the lineage under its local name `k / m` (`localMt`) — so the treeify of "the bin of key `k`" treeifies cell
`(g, (k / m) % 2^g)` of lineage `k % m`, i.e. bin `k % (m * 2^g)` of the table, the very bin in which the calls on
key `k` work.

Any number of threads; a thread is inside at most one lineage at a time (an operation on key `k` — a call or a
treeify — touches the cells of lineage `k % m` only). One transition of the table is one `BinGN.step` of one
thread in one lineage; all lineages share one clock (every other lineage `tick`s), so invocation and response
times of calls in different lineages are comparable. A thread can act in a lineage only while it is idle in
every other one; the thread that resizes a lineage is not idle there from the allocation of the next generation
(`xNext`) to the commit (`xCommit` → `idle`), so it is inside that lineage for the whole resize of that lineage;
likewise a treeify thread from `kTable` to `kUnlock` → `idle`.

**The table pointer / generation counter is modelled per lineage** (`BinGN.State.cur`, `BinGN.State.resizing`,
`BinGN.State.tabs`): every lineage allocates "its part" of the next table, forwards its `2^cur` cells and commits
its own `cur := cur + 1`, lineage by lineage, each by whichever thread starts it (the same thread for several
lineages one after the other, or different threads — helpers — for different lineages at the same time).
Therefore, in the model, the lineages may be at DIFFERENT generations — lineage 0 may be resized while lineage 1
still is at generation 0 (`Lemmas/TableGNExamples.lean` does exactly that). In the code there is one table
pointer: generation `g + 1` is allocated as ONE array, all bins of generation `g` are forwarded, then the single
store `table := next` publishes it, and only after that store can the resize to generation `g + 2` start; so in
the code all lineages are, at any time, at generation `g` or in the transfer `g → g + 1` for the same `g`. This
gives the model MORE executions than the code, not fewer. How an execution of the code corresponds to one of the
model (stated here, NOT proved — the theorems are about the model's executions): take the allocation of the next
array as the allocation step (`idle → xNext`) of every lineage, one after the other (they touch disjoint, still
unreachable memory; in the model they take consecutive clock ticks, and nothing reads a cell of the next
generation before a forwarding marker points to it); the transfer of bin `i + m * j` of generation `g` by
whichever helper does it is the transfer of cell `(g, j)` of lineage `i` by that thread; the single
`table := next` is the commit `cur := cur + 1` of every lineage, consecutively. (Inherited restriction of
`Proto/BinGN`: ONE resizing thread per lineage and generation, which transfers the cells of the lineage one at a
time. Helpers that work on different lineages at the same time are in the model; for `g ≥ 1` a code execution in
which two helpers are at the same moment in the middle of the transfers of two bins `i + m * j`, `i + m * j'` of
the SAME lineage has no counterpart with these very steps — the cells are disjoint and the two transfers
commute, but that is not proved here.) An operation of the code that starts in lineage `i` after all cells of
lineage `i` are forwarded and before the real publication loads the old table pointer, then the forwarding
marker, then continues in the next table; in the model — if lineage `i` has already committed — it may load the
next-generation pointer directly. The two differ by two reads of cells that never change again (a `moved` cell of
an old generation is final: `tableGN_old_generations_forwarded`) and concern no other thread: the operation then
works on the same cell of the next generation, and the model's thread may simply take its (fewer) steps at the
times of the corresponding steps of the code — the model's idle steps stutter —, so invocation time, response
time and result are the same. Conversely the extra executions of the model (lineages at different generations)
are harmless because no operation ever reads two lineages: an operation on key `k` sees lineage `k % m` only, and
there the model's lineage is exactly a `Proto/BinGN` lineage. The heap of nodes and the table of `TreeBin`
objects are per lineage as well (`BinGN.State.heap`, `BinGN.State.tbins`): a node or a `TreeBin` is only ever
reachable from cells of one lineage (a transfer splits a bin into two bins of the SAME lineage), so one heap
split into `m` disjoint parts is the same thing.

The history of the table is the history of the *map*: calls on all keys together. Proved
(`Lemmas/TableGN.lean`, `Props/C01TableGN.lean`): at quiescence it is `LinMap.MapLinearizable` — ONE sequential
order of all calls on all keys, respecting real time, each call answering what a sequential map answers — from
the empty map to the map whose key `k` has the abstract state of local key `k / m` in lineage `k % m`. This is
the per-lineage theorem (`binGN_linearizable_quiescent`, `Props/C01BinGNLin.lean`) composed with locality
(`C01.locality`); a `tick` of a lineage is the `BinGN` step of a thread that is idle there and starts nothing (no
call, no treeify, no resize), so every lineage of a reachable table is `BinGN.Reachable`. -/
namespace Flurry.Proto.TableGN
open Flurry.Lin Flurry.LinMap
open Flurry.Proto.TableN (lineageOf localKey globalKey inLineage localInv)

structure State where
  bins : List BinGN.State
deriving Repr

def init (m nthreads : Nat) : State := { bins := List.replicate m (BinGN.init nthreads) }

/-- the clock of a lineage advances although nothing happens in it -/
def tick (b : BinGN.State) : BinGN.State := { b with now := b.now + 1 }

/-- is thread `t` idle in lineage `b` -/
def idleIn (b : BinGN.State) (t : Nat) : Bool :=
  match b.threads[t]? with
  | some l => l.pc == .idle
  | none => false

/-- the treeify key as the lineage sees it: the bin of key `k` is the bin of local key `k / m` there -/
def localMt (m : Nat) (mt : Option Nat) : Option Nat := mt.map (localKey m)

/-- One step of thread `t` in lineage `i` (`inv`, `lo`, `mt`, `resize`, `sm`, `sm2`, `pick` are the arguments of
`BinGN.step`; `inv` and `mt` with the key of the TABLE). A thread can act in lineage `i` only while it is idle in
every other lineage; a call it starts there must be on a key of that lineage (`k % m = i`) and is started in the
lineage under the local name `k / m`; a treeify it starts there must be for the bin of a key of that lineage and
is started under the local name of that key. Every other lineage ticks. -/
def step (S : State) (i t : Nat) (inv : Option (Nat × KOp)) (lo : Bool) (mt : Option Nat)
    (resize sm sm2 : Bool) (pick : Nat) : Option State :=
  let m := S.bins.length
  match S.bins[i]? with
  | none => none
  | some b =>
    if !((List.range m).all fun j => j == i || idleIn (S.bins.getD j (BinGN.init 0)) t) then none
    else if !inLineage m i (inv.map (·.1)) then none
    else if !inLineage m i mt then none
    else
      match BinGN.step b t (localInv m inv) lo (localMt m mt) resize sm sm2 pick with
      | none => none
      | some b' => some { bins := (S.bins.map tick).set i b' }

inductive Reachable (m nthreads : Nat) : State → Prop
  | init : Reachable m nthreads (init m nthreads)
  | step {S S' : State} (i t : Nat) (inv : Option (Nat × KOp)) (lo : Bool) (mt : Option Nat)
      (resize sm sm2 : Bool) (pick : Nat) :
      Reachable m nthreads S → step S i t inv lo mt resize sm sm2 pick = some S' → Reachable m nthreads S'

def quiescent (S : State) : Prop := ∀ b ∈ S.bins, BinGN.quiescent b

/-- the completed calls of lineage `i` as calls of the map, oldest first, under the keys of the table -/
def binCalls (m i : Nat) (b : BinGN.State) : MHistory := b.hist.reverse.map fun e => ⟨globalKey m i e.1, e.2⟩

/-- the history of the map: the calls of all lineages (lineage by lineage; the order of the list carries no
meaning, the times do) -/
def mhist (S : State) : MHistory :=
  ((List.range S.bins.length).map fun i => binCalls S.bins.length i (S.bins.getD i (BinGN.init 0))).flatten

/-- the abstract map: key `k` has the abstract state of local key `k / m` in lineage `k % m` -/
def absMap (S : State) : MSt :=
  fun k => BinGN.absOf (S.bins.getD (lineageOf S.bins.length k) (BinGN.init 0)) (localKey S.bins.length k)

end Flurry.Proto.TableGN
