import Flurry.Proto.BinN
/-! # Proto/BinNI: `Proto/BinN` plus ITERATOR threads — the traverser running CONCURRENTLY with writers
and resizers (C07)

`Seq/Iter.lean` is the traverser (`NodeIter` with its `TableStack`) on a *frozen* chain of tables. Here it
runs while the lineage of `Proto/BinN` is written and resized — any number of times — under it:

* the shared memory (`heap`, `tabs`, `cur`, `resizing`, the clock, the per-key history), the readers, the
  writers and the resizing thread are LITERALLY those of `Proto/BinN`: the state is `n : BinN.State` plus,
  per thread, the *iterator part* `its[t] : Option Iter`, plus two ghost logs (`yields`, `ends`). Every
  transition of a thread that is not iterating is `BinN.step` on `s.n`; every transition of an iterating
  thread is, on `s.n`, the no-op step of an idle thread (the clock ticks) — so `s.n` is a reachable state
  of `Proto/BinN` and all its invariants apply verbatim.
* an idle thread may **create an iterator** (`mk = true`; it is not a call of the per-key history): it
  loads the table pointer once — its root generation `g0 = cur` — and then has to visit the cells
  `(g0, 0), (g0, 1), …, (g0, 2^g0 − 1)` in this order. `todo` is the list of cells still to be visited:
  the pending frames of the traverser's `TableStack` (innermost first) followed by the remaining cells of
  the root generation.
* one shared-memory access per transition:
  - `ptr = none`, `todo = (g, j) :: rest`: load cell `(g, j)`: `empty` → `todo := rest`; `node h` →
    `ptr := some h`, `todo := rest`; `moved` → **descend**: `todo := (g+1, j) :: (g+1, j + 2^g) :: rest`
    (visit the low child, then the high child, then come back — the `TableStack` discipline);
  - `ptr = some c`: load node `c` (as `BinN`'s readers do: key, value and `next` in one access), **yield**
    `(key, val)`, `ptr := next`;
  - `ptr = none`, `todo = []`: the iteration ends (no access): the thread is idle again.
* ghost logs: `yields` = `(thread, creation time, key, value, time of the yield)`, `ends` = `(thread,
  creation time, end time)`; an iteration is identified by its thread and its creation time.

An iterator takes no lock and writes nothing. -/
namespace Flurry.Proto.BinNI
open Flurry.Lin
open Flurry.Proto.BinX (NodeS Cell Pending isReader dflt chainFrom cellHead cellOfHead)
open Flurry.Proto.BinN (cellAt)

/-- the iterator part of a thread -/
structure Iter where
  /-- creation time -/
  t0 : Nat
  /-- root generation: the table pointer loaded at creation -/
  g0 : Nat
  /-- the node it is about to load (`none`: about to load the next cell) -/
  ptr : Option Nat := none
  /-- cells still to be visited: pending frames (innermost first), then the rest of generation `g0` -/
  todo : List (Nat × Nat)
deriving Repr, DecidableEq

structure Yield where
  tid : Nat
  t0 : Nat
  key : Nat
  val : Nat × Nat
  time : Nat
deriving Repr, DecidableEq

structure State where
  /-- shared memory, readers, writers, resizing thread: exactly `Proto/BinN` -/
  n : BinN.State
  /-- per thread: `some it` iff it is iterating -/
  its : List (Option Iter)
  /-- ghost: everything yielded so far (latest first) -/
  yields : List Yield := []
  /-- ghost: completed iterations `(thread, creation time, end time)` -/
  ends : List (Nat × Nat × Nat) := []
deriving Repr

def init (nthreads : Nat) : State := { n := BinN.init nthreads, its := List.replicate nthreads none }

/-- all cells of generation `g`, in index order -/
def rootCells (g : Nat) : List (Nat × Nat) := (List.range (2 ^ g)).map fun j => (g, j)

/-- one step of the iterator `it` of thread `t`; `n'` = the shared state with the clock advanced -/
def iterStep (s : State) (t : Nat) (it : Iter) (n' : BinN.State) : Option State :=
  match it.ptr with
  | some c =>
    match n'.heap[c]? with
    | none => none
    | some nd =>
      some { s with n := n', its := s.its.set t (some { it with ptr := nd.next }),
                    yields := ⟨t, it.t0, nd.key, nd.val, n'.now⟩ :: s.yields }
  | none =>
    match it.todo with
    | [] => some { s with n := n', its := s.its.set t none, ends := (t, it.t0, n'.now) :: s.ends }
    | (g, j) :: rest =>
      match cellAt n' g j with
      | .empty => some { s with n := n', its := s.its.set t (some { it with todo := rest }) }
      | .node h => some { s with n := n', its := s.its.set t (some { it with ptr := some h, todo := rest }) }
      | .moved =>
        some { s with n := n', its := s.its.set t (some { it with todo := (g + 1, j) :: (g + 1, j + 2 ^ g) :: rest }) }

/-- One step of thread `t`. `mk = true`: an idle thread creates an iterator. Otherwise `inv`, `resize`,
`pick` as in `BinN.step`. -/
def step (s : State) (t : Nat) (mk : Bool) (inv : Option (Nat × KOp)) (resize : Bool) (pick : Nat) :
    Option State :=
  match s.its[t]? with
  | none => none
  | some (some it) =>
    -- on the shared state: the no-op of an idle thread (the clock ticks)
    match BinN.step s.n t none false 0 with
    | none => none
    | some n' => iterStep s t it n'
  | some none =>
    if mk then
      match s.n.threads[t]? with
      | none => none
      | some l =>
        if l.pc = .idle then
          match BinN.step s.n t none false 0 with
          | none => none
          | some n' => some { s with n := n', its := s.its.set t (some ⟨n'.now, n'.cur, none, rootCells n'.cur⟩) }
        else none
    else (BinN.step s.n t inv resize pick).map fun n' => { s with n := n' }

inductive Reachable (nthreads : Nat) : State → Prop
  | init : Reachable nthreads (init nthreads)
  | step {s s' : State} (t : Nat) (mk : Bool) (inv : Option (Nat × KOp)) (resize : Bool) (pick : Nat) :
      Reachable nthreads s → step s t mk inv resize pick = some s' → Reachable nthreads s'

/-- `s'` is reached from `s` by zero or more transitions -/
inductive Steps : State → State → Prop
  | refl (s : State) : Steps s s
  | tail {s s' s'' : State} (t : Nat) (mk : Bool) (inv : Option (Nat × KOp)) (resize : Bool) (pick : Nat) :
      Steps s s' → step s' t mk inv resize pick = some s'' → Steps s s''

def absOf (s : State) (k : Nat) : KSt := BinN.absOf s.n k

end Flurry.Proto.BinNI
