import Flurry.Lin
/-! # Proto/BinT: one tree bin, any number of threads (C01, C08, C11/C12 at the bin level)

A small-step model of what `get_node` → `TreeBin::find`, `put` → `find_or_put_tree_val`,
`replace_node` / `compute_if_present` → `remove_tree_node` do to one **tree bin** that stays a tree
bin (no resize, no untreeify) — `src/node.rs`. One transition = one shared-memory access.

A tree bin keeps its nodes in two structures at once:
* a singly linked **list** `first → next → …` in which a new node is *prepended* and from which a
  removed node is unlinked (`pred.next := next` / `first := next`);
* a red-black **tree** over the same nodes. The shape of the tree is abstracted to the *set* of
  nodes it contains (`inTree`): under the read lock the shape cannot change except for a new leaf
  being linked, so a search of the tree for key `k` answers with the membership of `k` at the
  moment it reads the last link on the (fixed) path to `k` — one atomic step `rTree` at some time
  while the read lock is held.

Synchronisation:
* writers are serialised by the bin's mutex (`TreeBin::lock`); it is an object of the bin, not of
  its first node, and in this model the bin cell never changes, so there is no re-check step;
* the tree has its own read-write lock `lock_state` = (`writer`, `waiter`, `readers`):
  - a reader looks at `lock_state` **for every list element it stands on**: if a writer holds or
    waits for the lock it takes one *linear* step (compare the key of the current element, else
    load `next`); otherwise it tries to CAS itself in as a reader and, if that works, searches the
    *tree* (`rTree`), releases the read lock and returns; a failed CAS repeats the iteration;
  - a writer that has to restructure (`lock_root`): CAS `0 → WRITER`; if that fails, loop: when no
    reader and no writer is left, CAS to `WRITER`; else set `WAITER` (once) and park. Parking and
    waking are abstracted: the waiting step is simply not enabled while readers remain (that the
    wake-up is never lost is the subject of `Proto/RwLock`).
* the order of a writer's stores (this is what the model is about):
  - **insert of a new key**: allocate the node with `next = first`; `first := node` (list);
    link it as a leaf (tree); then, only if its parent is red, `lock_root`, rebalance, `unlock_root`
    (`bal` says which — the model allows either);
  - **removal**: unlink from the list; `lock_root`; take the node out of the tree; `unlock_root`;
  - **replace / compute**: one value store, no tree lock.
  Values are read by `get` *after* `find` returned the node (a separate access).

**Finding F8.** `lockFirst = false` is the order of the original code (and of the JDK): removal
unlinks from the list and takes the write lock afterwards. `Props/C01BinT.lean` contains a
kernel-checked schedule (41 steps, 3 threads) after which a `get` has answered "absent" and a
later `get` "present" with no insert in between: between the unlink and the lock the list no
longer contains the node, the tree still does, and the lock word is clear, so a reader that still
walks the list because of the *previous* writer misses the node while a reader arriving later
finds it in the tree. The schedule was replayed on the real code (scenario
`tree-stale-linear-reader`) and the code was repaired: the write lock is taken first
(`lockFirst = true`, the model proper: `step`).

`hist` records completed calls as in `Proto/Bin`. To be proved (`Lemmas/BinT*.lean`): for every
reachable quiescent state and key, the calls on that key are `Lin.Linearizable` from "absent" to
the key's abstract state. -/
namespace Flurry.Proto.BinT
open Flurry.Lin

structure NodeS where
  key : Nat
  val : Nat × Nat
  next : Option Nat
  /-- is the node linked into the tree -/
  inTree : Bool := false
deriving Repr, DecidableEq

structure Pending where
  key : Nat
  op : KOp
  inv : Nat
deriving Repr, DecidableEq

inductive Pc where
  | idle
  /-- reader: about to load `first` -/
  | rFirst
  /-- reader standing on list element `cur`: about to load `lock_state` -/
  | rState (cur : Option Nat)
  /-- reader: saw a writer holding / waiting: about to compare `cur`'s key and load its `next` -/
  | rLin (cur : Nat)
  /-- reader: saw `(readers = r)` and no writer / waiter: about to CAS `readers: r → r + 1` -/
  | rCas (cur : Nat) (r : Nat)
  /-- reader: holds the read lock, about to search the tree -/
  | rTree
  /-- reader: about to release the read lock and return / go on to the value -/
  | rRelease (hit : Option Nat)
  /-- reader (`get`): about to load the value cell of node `i` -/
  | rVal (i : Nat)
  /-- writer: about to lock the bin's mutex -/
  | wMutex
  /-- writer: holds the mutex, about to search (the structure is stable: one step) -/
  | wFind
  /-- writer: about to store the value cell of `i` -/
  | wVal (i : Nat) (v : Nat × Nat) (res : KRes)
  /-- writer: about to store `first := new node` (allocated with `next = first`) -/
  | wPrepend
  /-- writer: about to link node `x` into the tree as a leaf -/
  | wTreeLink (x : Nat)
  /-- writer: about to unlink node `i` from the list -/
  | wListUnlink (i : Nat) (res : KRes)
  /-- removal with the write lock already held: about to unlink node `i` from the list -/
  | wUnlinkLocked (i : Nat) (res : KRes)
  /-- `lock_root`: the first CAS `0 → WRITER`; afterwards `thenRemove = some i`: take `i` out of the tree -/
  | lrTry (thenRemove : Option Nat) (res : KRes)
  /-- `contended_lock` loop -/
  | lrLoop (thenRemove : Option Nat) (res : KRes)
  /-- holds the write lock: about to restructure (remove `i` from the tree / rebalance) -/
  | wRestructure (thenRemove : Option Nat) (res : KRes)
  /-- about to `unlock_root` -/
  | wUnlockRoot (res : KRes)
  /-- about to unlock the mutex and return -/
  | wUnlockM (res : KRes)
deriving Repr, DecidableEq

structure Local where
  pc : Pc := .idle
  call : Option Pending := none
deriving Repr, DecidableEq

structure State where
  heap : List NodeS := []
  first : Option Nat := none
  mutex : Option Nat := none
  writer : Bool := false
  waiter : Bool := false
  readers : Nat := 0
  threads : List Local
  hist : List (Nat × Call) := []
  now : Nat := 0
deriving Repr

def init (nthreads : Nat) : State := { threads := List.replicate nthreads {} }

def isReader : KOp → Bool
  | .get | .has => true
  | _ => false

def dflt : NodeS := ⟨0, (0, 0), none, false⟩

/-- the node of the tree with key `k` (keys in the tree are distinct: invariant) -/
def treeFind (s : State) (k : Nat) : Option Nat :=
  (List.range s.heap.length).find? fun i => (s.heap.getD i dflt).inTree && (s.heap.getD i dflt).key == k

/-- abstract content: membership in the tree -/
def absOf (s : State) (k : Nat) : KSt :=
  match treeFind s k with
  | some i => some (s.heap.getD i dflt).val
  | none => none

def setNode (s : State) (i : Nat) (f : NodeS → NodeS) : State := { s with heap := s.heap.modify i f }
def setT (s : State) (t : Nat) (l : Local) : State := { s with threads := s.threads.set t l }

def finish (s : State) (t : Nat) (p : Pending) (res : KRes) : State :=
  { (setT s t { pc := .idle, call := none }) with
      hist := (p.key, { tid := t, op := p.op, res := res, inv := p.inv, resp := s.now }) :: s.hist }

/-- the nodes reachable from `start` along `next`, in list order (fuel = heap size) -/
def chainFrom (heap : List NodeS) : Nat → Option Nat → List Nat
  | 0, _ => []
  | _, none => []
  | fuel + 1, some i =>
    match heap[i]? with
    | none => []
    | some n => i :: chainFrom heap fuel n.next

def chain (s : State) : List Nat := chainFrom s.heap s.heap.length s.first

/-- the predecessor of `i` on the live list (`prev` in the code; `none` = `i` is the first node) -/
def predOf (c : List Nat) (i : Nat) : Option Nat :=
  match c with
  | a :: b :: rest => if b == i then some a else predOf (b :: rest) i
  | _ => none

/-- One step of thread `t`. `inv`: the call an idle thread starts; `bal`: whether an insert has to
rebalance under the write lock (its parent is red). `none` = not enabled. -/
def stepG (lockFirst : Bool) (s : State) (t : Nat) (inv : Option (Nat × KOp)) (bal : Bool) : Option State :=
  match s.threads[t]? with
  | none => none
  | some l =>
    let s := { s with now := s.now + 1 }
    let upd (pc : Pc) : State := setT s t { l with pc := pc }
    match l.pc, l.call with
    | .idle, _ =>
      match inv with
      | none => some s
      | some (k, op) =>
        some (setT s t { pc := if isReader op then .rFirst else .wMutex, call := some ⟨k, op, s.now⟩ })
    -- readers ---------------------------------------------------------------------------
    | .rFirst, some _ => some (upd (.rState s.first))
    | .rState none, some p =>
      some (finish s t p (match p.op with | .has => .bool false | _ => .none))
    | .rState (some c), some _ =>
      if s.writer || s.waiter then some (upd (.rLin c)) else some (upd (.rCas c s.readers))
    | .rLin c, some p =>
      match s.heap[c]? with
      | none => none
      | some n =>
        if n.key == p.key then
          match p.op with
          | .has => some (finish s t p (.bool true))
          | _ => some (upd (.rVal c))
        else some (upd (.rState n.next))
    | .rCas c r, some _ =>
      if !s.writer && !s.waiter && s.readers == r then
        some { (upd .rTree) with readers := s.readers + 1 }
      else some (upd (.rState (some c)))
    | .rTree, some p => some (upd (.rRelease (treeFind s p.key)))
    | .rRelease hit, some p =>
      let s1 := { s with readers := s.readers - 1 }
      match hit, p.op with
      | none, .has => some (finish s1 t p (.bool false))
      | none, _ => some (finish s1 t p .none)
      | some _, .has => some (finish s1 t p (.bool true))
      | some i, _ => some (setT s1 t { l with pc := .rVal i })
    | .rVal i, some p =>
      match s.heap[i]? with
      | none => none
      | some n => some (finish s t p (.some n.val.1 n.val.2))
    -- writers ---------------------------------------------------------------------------
    | .wMutex, some _ =>
      if s.mutex.isSome then none else some { (upd .wFind) with mutex := some t }
    | .wFind, some p =>
      match p.op, treeFind s p.key with
      | .ins v vi, some i => some (upd (.wVal i (v, vi) (resOf (some (s.heap.getD i dflt).val))))
      | .ins _ _, none => some (upd .wPrepend)
      | .tryIns _ _, some i => let x := (s.heap.getD i dflt).val; some (upd (.wUnlockM (.exists_ x.1 x.2)))
      | .tryIns _ _, none => some (upd .wPrepend)
      | .rm, some i =>
        let res := resOf (some (s.heap.getD i dflt).val)
        if lockFirst then some (upd (.lrTry (some i) res)) else some (upd (.wListUnlink i res))
      | .rm, none => some (upd (.wUnlockM .none))
      | .cipInc nvi, some i =>
        let x := (s.heap.getD i dflt).val
        some (upd (.wVal i (x.1 + 1, nvi) (.some (x.1 + 1) nvi)))
      | .cipInc _, none => some (upd (.wUnlockM .none))
      | .cipRm, some i => if lockFirst then some (upd (.lrTry (some i) .none)) else some (upd (.wListUnlink i .none))
      | .cipRm, none => some (upd (.wUnlockM .none))
      | .get, _ => none
      | .has, _ => none
    | .wVal i v res, some _ => some (setT (setNode s i (fun n => { n with val := v })) t { l with pc := .wUnlockM res })
    | .wPrepend, some p =>
      match p.op with
      | .ins v vi | .tryIns v vi =>
        let x := s.heap.length
        some (setT { s with heap := s.heap ++ [⟨p.key, (v, vi), s.first, false⟩], first := some x } t
                { l with pc := .wTreeLink x })
      | _ => none
    | .wTreeLink x, some _ =>
      let s1 := setNode s x (fun n => { n with inTree := true })
      if bal then some (setT s1 t { l with pc := .lrTry none .none })
      else some (setT s1 t { l with pc := .wUnlockM .none })
    | .wListUnlink i res, some _ =>
      let n := s.heap.getD i dflt
      let s1 := match predOf (chain s) i with
        | some pr => setNode s pr (fun m => { m with next := n.next })
        | none => { s with first := n.next }
      some (setT s1 t { l with pc := .lrTry (some i) res })
    | .wUnlinkLocked i res, some _ =>
      let n := s.heap.getD i dflt
      let s1 := match predOf (chain s) i with
        | some pr => setNode s pr (fun m => { m with next := n.next })
        | none => { s with first := n.next }
      some (setT s1 t { l with pc := .wRestructure (some i) res })
    | .lrTry rmv res, some _ =>
      if !s.writer && !s.waiter && s.readers == 0 then
        some { (upd (match lockFirst, rmv with | true, some i => .wUnlinkLocked i res | _, _ => .wRestructure rmv res)) with writer := true }
      else some (upd (.lrLoop rmv res))
    | .lrLoop rmv res, some _ =>
      if !s.writer && s.readers == 0 then
        some { (upd (match lockFirst, rmv with | true, some i => .wUnlinkLocked i res | _, _ => .wRestructure rmv res)) with writer := true, waiter := false }
      else if !s.waiter then some { (upd (.lrLoop rmv res)) with waiter := true }
      else none                                   -- parked until the last reader leaves
    | .wRestructure rmv res, some _ =>
      match rmv with
      | some i => some (setT (setNode s i (fun n => { n with inTree := false })) t { l with pc := .wUnlockRoot res })
      | none => some (upd (.wUnlockRoot res))
    | .wUnlockRoot res, some _ => some { (upd (.wUnlockM res)) with writer := false, waiter := false }
    | .wUnlockM res, some p => some (finish { s with mutex := none } t p res)
    | _, none => none

/-- the model: removal takes the write lock before it unlinks the node from the list (the repaired code) -/
def step (s : State) (t : Nat) (inv : Option (Nat × KOp)) (bal : Bool) : Option State := stepG true s t inv bal

/-- the original order (and the JDK's): unlink from the list, then take the write lock -/
def stepOld (s : State) (t : Nat) (inv : Option (Nat × KOp)) (bal : Bool) : Option State := stepG false s t inv bal

inductive Reachable (nthreads : Nat) : State → Prop
  | init : Reachable nthreads (init nthreads)
  | step {s s' : State} (t : Nat) (inv : Option (Nat × KOp)) (bal : Bool) :
      Reachable nthreads s → step s t inv bal = some s' → Reachable nthreads s'

inductive ReachableOld (nthreads : Nat) : State → Prop
  | init : ReachableOld nthreads (init nthreads)
  | step {s s' : State} (t : Nat) (inv : Option (Nat × KOp)) (bal : Bool) :
      ReachableOld nthreads s → stepOld s t inv bal = some s' → ReachableOld nthreads s'

def callsOn (s : State) (k : Nat) : History :=
  (s.hist.filter (·.1 == k)).reverse.map (·.2)

def quiescent (s : State) : Prop := ∀ l ∈ s.threads, l.pc = .idle

end Flurry.Proto.BinT
