/-! # Proto/Resize: cooperative resizing (`src/map.rs`: `transfer`, `help_transfer`, the resize
parts of `add_count` and `try_presize`)

Any number of threads; one transition = one shared access of the Rust code (at the granularity
of the verification hooks), except that moving one bin (lock, re-validate, split, the three
stores `next[i]`, `next[i+n]`, `table[i] = Moved`, unlock) is a single atomic transition: every
thread that wants to move the same bin needs the same bin lock (or the same CAS on an empty bin).

`size_ctl` is modelled structurally instead of bit-wise: `idle thr` (a non-negative threshold) or
`resizing gen cnt` standing for the word `rs(gen) + cnt`; `Props/C10Arith.lean` proves what makes
this faithful: stamps of different table lengths differ, `rs` is negative, and adding up to
`MAX_RESIZERS` participants never carries into the stamp. `cnt = 1 + number of participants`
(`rs + 2` at initiation, `+1` per joiner, `-1` per leaver); the thread that sees `cnt - 2 = 0`
participants left (`sc - 2 == rs`) becomes the finisher.

NOTE on fidelity: after a successful claim the Rust code sets `i = next_index` (the JDK sets
`nextIndex - 1`). The model follows the Rust code: the first claimer of a generation gets `i = n`,
immediately takes the "done" branch and leaves (or becomes the finisher), and later claimers
start one bin above their range. Strides can therefore be skipped or overlap by one bin; what
makes this harmless is the finisher's re-sweep, which is part of the model.

Definitions only; theorems are in `Flurry/Lemmas/Resize*.lean` and `Props/C10.lean`. -/
namespace Flurry.Proto.Resize

inductive SC where
  | idle (thr : Nat)
  | resizing (gen : Nat) (cnt : Nat)
deriving DecidableEq, Repr

/-- program counter of a thread inside the resize machinery -/
inductive Pc where
  | idle
  /-- add_count / try_presize: loaded `sc` (idle), about to CAS `sc → rs + 2` -/
  | casInit (sc : SC)
  /-- transfer(table, null): about to `next_table.swap(new table)` -/
  | swapNext
  /-- about to `transfer_index.store(n)` -/
  | storeIndex
  /-- help_transfer / add_count: loaded a resizing `sc`, about to check + CAS `sc → sc + 1` -/
  | casJoin (sc : SC)
  /-- top of the claim loop (`while advance`): about to load `transfer_index` -/
  | claimLoad
  /-- about to CAS `transfer_index: nextIndex → max(nextIndex - stride, 0)` -/
  | claimCas (nextIndex : Int)
  /-- after the claim loop: decide between "done" and "process bin i" (no shared access) -/
  | dispatch
  /-- about to look at / move bin `i` -/
  | processBin
  /-- "done" branch, not finishing: about to load `size_ctl` -/
  | leaveLoad
  /-- about to CAS `sc → sc - 1` -/
  | leaveCas (sc : SC)
  /-- finishing: about to `next_table.store(null)` -/
  | pubClearNext
  /-- about to `table.swap(next)` -/
  | pubSwapTable
  /-- about to `size_ctl.store(1.5 n)` -/
  | pubStoreCtl
deriving DecidableEq, Repr

structure Local where
  pc : Pc := .idle
  i : Int := 0
  bound : Int := 0
  advance : Bool := true
  finishing : Bool := false
deriving Repr

structure State where
  /-- generation of the current table; its length is `n` -/
  gen : Nat := 0
  n : Nat
  sizeCtl : SC
  transferIndex : Int := 0
  /-- `next_table` is non-null -/
  nextTable : Bool := false
  /-- per bin of the current table: has it been replaced by the forwarding marker? -/
  moved : List Bool
  /-- per bin: how many times it was migrated in this generation -/
  migrations : List Nat
  /-- publications per generation (index = generation that was published *from*) -/
  published : List Nat := []
  threads : List Local
  stride : Nat := 16
deriving Repr

def threshold (n : Nat) : Nat := n - n / 4

def init (n nthreads stride : Nat) : State :=
  { n := n, sizeCtl := .idle (threshold n), moved := List.replicate n false,
    migrations := List.replicate n 0, threads := List.replicate nthreads {}, stride := stride }

def setT (s : State) (t : Nat) (l : Local) : State := { s with threads := s.threads.set t l }

def bumpPublished (p : List Nat) (g : Nat) : List Nat :=
  if g < p.length then p.set g (p.getD g 0 + 1) else p ++ List.replicate (g - p.length) 0 ++ [1]

/-- one step of thread `t`. `choice` resolves the nondeterminism of an idle thread:
`0` = stay idle, `1` = try to initiate a resize (it "saw" `count ≥ size_ctl` or wants to presize),
`2` = try to help. Returns `none` if `t` is not a thread. -/
def step (s : State) (t : Nat) (choice : Nat) : Option State :=
  match s.threads[t]? with
  | none => none
  | some l =>
    let upd (l' : Local) : State := setT s t l'
    match l.pc with
    | .idle =>
      match choice, s.sizeCtl with
      | 1, .idle thr => some (upd { l with pc := .casInit (.idle thr) })
      | 2, .resizing g c =>
        -- joiners refuse when the word says "finishing" (cnt = 1), when no next table is
        -- visible, or when nothing is left to claim
        if g == s.gen && c != 1 && s.nextTable && s.transferIndex > 0
        then some (upd { l with pc := .casJoin (.resizing g c) })
        else some s
      | _, _ => some s
    | .casInit sc =>
      if s.sizeCtl == sc then
        some { (upd { l with pc := .swapNext }) with sizeCtl := .resizing s.gen 2 }
      else some (upd { l with pc := .idle })
    | .swapNext =>
      some { (upd { l with pc := .storeIndex }) with nextTable := true }
    | .storeIndex =>
      some { (upd { l with pc := .claimLoad, advance := true, finishing := false, i := 0, bound := 0 })
               with transferIndex := s.n }
    | .casJoin sc =>
      if s.sizeCtl == sc then
        match sc with
        | .resizing g c =>
          some { (upd { l with pc := .claimLoad, advance := true, finishing := false, i := 0, bound := 0 })
                   with sizeCtl := .resizing g (c + 1) }
        | .idle _ => some (upd { l with pc := .idle })
      else some (upd { l with pc := .idle })
    | .claimLoad =>
      -- `while advance { i -= 1; if i >= bound || finishing { break } ; load transfer_index .. }`
      if !l.advance then some (upd { l with pc := .dispatch })
      else
        let i' := l.i - 1
        if i' >= l.bound || l.finishing then some (upd { l with i := i', advance := false, pc := .dispatch })
        else if s.transferIndex <= 0 then some (upd { l with i := -1, advance := false, pc := .dispatch })
        else some (upd { l with i := i', pc := .claimCas s.transferIndex })
    | .claimCas ni =>
      let nb : Int := if ni > s.stride then ni - s.stride else 0
      if s.transferIndex == ni then
        some { (upd { l with bound := nb, i := ni, advance := false, pc := .dispatch }) with transferIndex := nb }
      else some (upd { l with pc := .claimLoad })        -- retry the loop body (`i -= 1` again)
    | .dispatch =>
      if l.i < 0 || l.i >= s.n then
        if l.finishing then some (upd { l with pc := .pubClearNext })
        else some (upd { l with pc := .leaveLoad })
      else some (upd { l with pc := .processBin })
    | .processBin =>
      let idx := l.i.toNat
      if s.moved.getD idx true then
        some (upd { l with advance := true, pc := .claimLoad })
      else
        some { (upd { l with advance := true, pc := .claimLoad }) with
                 moved := s.moved.set idx true,
                 migrations := s.migrations.set idx (s.migrations.getD idx 0 + 1) }
    | .leaveLoad => some (upd { l with pc := .leaveCas s.sizeCtl })
    | .leaveCas sc =>
      if s.sizeCtl == sc then
        match sc with
        | .resizing g c =>
          if c == 2 then
            -- `(sc - 2) == rs`: we are the last one: finish. `i = n`, `advance = true`
            some { (upd { l with finishing := true, advance := true, i := s.n, pc := .claimLoad })
                     with sizeCtl := .resizing g (c - 1) }
          else some { (upd { l with pc := .idle }) with sizeCtl := .resizing g (c - 1) }
        | .idle _ => some (upd { l with pc := .idle })      -- cannot happen (see invariants)
      else some (upd { l with pc := .dispatch })             -- CAS failed: `continue`
    | .pubClearNext => some { (upd { l with pc := .pubSwapTable }) with nextTable := false }
    | .pubSwapTable =>
      some { (upd { l with pc := .pubStoreCtl }) with
               gen := s.gen + 1, n := 2 * s.n,
               moved := List.replicate (2 * s.n) false,
               migrations := List.replicate (2 * s.n) 0,
               published := bumpPublished s.published s.gen }
    | .pubStoreCtl =>
      -- `(n << 1) - (n >> 1)` with the *old* n = three quarters of the new length
      some { (upd { l with pc := .idle, finishing := false }) with sizeCtl := .idle (threshold s.n) }

inductive Reachable (n nthreads stride : Nat) : State → Prop
  | init : Reachable n nthreads stride (init n nthreads stride)
  | step {s s' : State} (t choice : Nat) :
      Reachable n nthreads stride s → step s t choice = some s' → Reachable n nthreads stride s'

/-- threads counted as participants of the current resize -/
def participating (l : Local) : Bool :=
  match l.pc with
  | .swapNext | .storeIndex | .claimLoad | .claimCas _ | .dispatch | .processBin | .leaveLoad | .leaveCas _ => !l.finishing
  | _ => false

def numParticipants (s : State) : Nat := (s.threads.filter participating).length

/-- the finisher (after its successful leave-CAS, until it has stored the new threshold) -/
def isFinisher (l : Local) : Bool :=
  l.finishing || match l.pc with | .pubClearNext | .pubSwapTable | .pubStoreCtl => true | _ => false

def allIdle (s : State) : Prop := ∀ l ∈ s.threads, l.pc = .idle

end Flurry.Proto.Resize
