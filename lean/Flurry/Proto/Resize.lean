/-! # Proto/Resize: cooperative resizing (`src/map.rs`: `transfer`, `help_transfer`, the resize
parts of `add_count` and `try_presize`)

Any number of threads; one transition = one shared access of the Rust code (at the granularity
of the verification hooks), except that moving one bin (lock, re-validate, split, the three
stores `next[i]`, `next[i+n]`, `table[i] = Moved`, unlock) is a single atomic transition: every
thread that wants to move the same bin needs the same bin lock (or the same CAS on an empty bin).

`size_ctl` is modelled structurally instead of bit-wise: `idle thr` (a non-negative threshold) or
`resizing gen cnt` standing for the word `rs(gen) + cnt`; `Props/C10Arith.lean` proves what makes
this faithful: stamps of different table lengths differ, `rs` is negative, and adding up to
`MAX_RESIZERS` participants never carries into the stamp. `cnt = 1 + number of participants`
(`rs + 2` at initiation, `+1` per joiner, `-1` per leaver); the thread that sees `cnt - 2 = 0`
participants left (`sc - 2 == rs`) becomes the finisher.

NOTE on fidelity: after a successful claim the Rust code sets `i = next_index` (the JDK sets
`nextIndex - 1`). The model follows the Rust code: the first claimer of a generation gets `i = n`,
immediately takes the "done" branch and leaves (or becomes the finisher), and later claimers
start one bin above their range. Strides can therefore be skipped or overlap by one bin; what
makes this harmless is the finisher's re-sweep, which is part of the model.

NOTE on joining (finding F6): the two ways of joining a running resize are modelled access by
access, because the order of their loads matters.
* `help_transfer` holds `(table, next_table)` of the generation in which it met a forwarding
  marker (`heldGen`), *validates* them against `self.table` / `self.next_table`, and only then
  loads `size_ctl`. Its refusal test compares the loaded word with the stamp of `heldGen`.
  `checkGen` says whether that test contains the comparison of the generation stamps
  (`Props/C10Arith.help_refuses_other_generation` proves that the code's test does); without it
  a word of another generation is refused only by accident (`cnt` is neither 1 nor `maxResizers`
  *of the same generation*), and the helper joins a resize it holds no tables of.
* `add_count` loads `size_ctl` first, then `self.table` (`heldGen` = the generation of the table
  it got), `next_table`, `transfer_index`, and CASes on the word it loaded first.
A join with `heldGen ≠ gen` is counted in `staleJoins` and the thread is dropped from the model
(what it does next is outside the protocol); `Lemmas/Resize*` prove `staleJoins = 0` for
`checkGen = true`, and `Lemmas/ResizeExamples` exhibit the stale join for `checkGen = false`.

Definitions only; theorems are in `Flurry/Lemmas/Resize*.lean` and `Props/C10.lean`. -/
namespace Flurry.Proto.Resize

inductive SC where
  | idle (thr : Nat)
  | resizing (gen : Nat) (cnt : Nat)
deriving DecidableEq, Repr

/-- program counter of a thread inside the resize machinery -/
inductive Pc where
  | idle
  /-- add_count / try_presize: loaded `sc` (idle), about to CAS `sc → rs + 2` -/
  | casInit (sc : SC)
  /-- transfer(table, null): about to `next_table.swap(new table)` -/
  | swapNext
  /-- about to `transfer_index.store(n)` -/
  | storeIndex
  /-- help_transfer: holds a table (generation `heldGen`) with a forwarded bin and that table's
  next table; about to load `self.next_table` and compare -/
  | helpCheckNext
  /-- help_transfer: `next_table == self.next_table` held; about to load `self.table` and compare -/
  | helpCheckTable
  /-- help_transfer: validated `(table, next_table)`, about to load `size_ctl` -/
  | helpLoadSc
  /-- help_transfer: loaded `sc`, passed the refusal test, about to load `transfer_index` -/
  | helpLoadIndex (sc : SC)
  /-- add_count: loaded a resizing `sc`, about to load `self.table` -/
  | acLoadTable (sc : SC)
  /-- add_count: loaded the table (`heldGen`), passed the refusal test, about to load `next_table` -/
  | acLoadNext (sc : SC)
  /-- add_count: about to load `transfer_index` -/
  | acLoadIndex (sc : SC)
  /-- help_transfer / add_count: about to CAS `sc → sc + 1` -/
  | casJoin (sc : SC)
  /-- top of the claim loop (`while advance`): about to load `transfer_index` -/
  | claimLoad
  /-- about to CAS `transfer_index: nextIndex → max(nextIndex - stride, 0)` -/
  | claimCas (nextIndex : Int)
  /-- after the claim loop: decide between "done" and "process bin i" (no shared access) -/
  | dispatch
  /-- about to look at / move bin `i` -/
  | processBin
  /-- "done" branch, not finishing: about to load `size_ctl` -/
  | leaveLoad
  /-- about to CAS `sc → sc - 1` -/
  | leaveCas (sc : SC)
  /-- finishing: about to `next_table.store(null)` -/
  | pubClearNext
  /-- about to `table.swap(next)` -/
  | pubSwapTable
  /-- about to `size_ctl.store(1.5 n)` -/
  | pubStoreCtl
deriving DecidableEq, Repr

structure Local where
  pc : Pc := .idle
  i : Int := 0
  bound : Int := 0
  advance : Bool := true
  finishing : Bool := false
  /-- generation of the table this thread holds while it tries to join -/
  heldGen : Nat := 0
deriving Repr

structure State where
  /-- generation of the current table; its length is `n` -/
  gen : Nat := 0
  n : Nat
  sizeCtl : SC
  transferIndex : Int := 0
  /-- `next_table` is non-null -/
  nextTable : Bool := false
  /-- per bin of the current table: has it been replaced by the forwarding marker? -/
  moved : List Bool
  /-- per bin: how many times it was migrated in this generation -/
  migrations : List Nat
  /-- publications per generation (index = generation that was published *from*) -/
  published : List Nat := []
  threads : List Local
  stride : Nat := 16
  /-- does `help_transfer` compare the generation stamps? (from the code, see the NOTE above) -/
  checkGen : Bool := true
  /-- `MAX_RESIZERS` -/
  maxResizers : Nat := 2 ^ 32 - 1
  /-- joins of a resize by a thread holding the tables of another generation -/
  staleJoins : Nat := 0
deriving Repr

def threshold (n : Nat) : Nat := n - n / 4

def init (n nthreads stride : Nat) (checkGen : Bool := true) : State :=
  { n := n, sizeCtl := .idle (threshold n), moved := List.replicate n false,
    migrations := List.replicate n 0, threads := List.replicate nthreads {}, stride := stride,
    checkGen := checkGen }

/-- the refusal test of `help_transfer` on a loaded word, for a helper holding generation `held`:
`(sc >> SHIFT) != (rs >> SHIFT) || sc == rs + MAX_RESIZERS || sc == rs + 1`, where the
generation comparison is present iff `checkGen` -/
def helpRefuses (checkGen : Bool) (maxR : Nat) (g c held : Nat) : Bool :=
  (checkGen && g != held) || (g == held && (c == maxR || c == 1))

/-- the refusal test of `add_count`: `sc == rs + MAX_RESIZERS || sc == rs + 1` with `rs` of the
table it loaded -/
def acRefuses (maxR : Nat) (g c held : Nat) : Bool := g == held && (c == maxR || c == 1)

def setT (s : State) (t : Nat) (l : Local) : State := { s with threads := s.threads.set t l }

def bumpPublished (p : List Nat) (g : Nat) : List Nat :=
  if g < p.length then p.set g (p.getD g 0 + 1) else p ++ List.replicate (g - p.length) 0 ++ [1]

/-- one step of thread `t`. `choice` resolves the nondeterminism of an idle thread:
`0` = stay idle, `1` = try to initiate a resize (it "saw" `count ≥ size_ctl` or wants to presize),
`2` = `add_count` sees a resizing word and tries to join, `3` = `help_transfer` (the thread met a
forwarding marker of the current table). Returns `none` if `t` is not a thread. -/
def step (s : State) (t : Nat) (choice : Nat) : Option State :=
  match s.threads[t]? with
  | none => none
  | some l =>
    let upd (l' : Local) : State := setT s t l'
    match l.pc with
    | .idle =>
      match choice, s.sizeCtl with
      | 1, .idle thr => some (upd { l with pc := .casInit (.idle thr) })
      | 2, .resizing g c => some (upd { l with pc := .acLoadTable (.resizing g c) })
      | 3, _ =>
        -- the thread holds the current table, met a forwarding marker in it (so its resize has
        -- installed the next table) and took the next table from there
        if s.nextTable then some (upd { l with pc := .helpCheckNext, heldGen := s.gen }) else some s
      | _, _ => some s
    | .casInit sc =>
      if s.sizeCtl == sc then
        some { (upd { l with pc := .swapNext }) with sizeCtl := .resizing s.gen 2 }
      else some (upd { l with pc := .idle })
    | .swapNext =>
      some { (upd { l with pc := .storeIndex }) with nextTable := true }
    | .storeIndex =>
      some { (upd { l with pc := .claimLoad, advance := true, finishing := false, i := 0, bound := 0 })
               with transferIndex := s.n }
    | .helpCheckNext =>
      -- `next_table == self.next_table`: true iff the resize of the held table is still running
      -- and has not cleared `next_table` yet
      if s.nextTable && l.heldGen == s.gen then some (upd { l with pc := .helpCheckTable })
      else some (upd { l with pc := .idle })
    | .helpCheckTable =>
      -- `table == self.table`
      if l.heldGen == s.gen then some (upd { l with pc := .helpLoadSc }) else some (upd { l with pc := .idle })
    | .helpLoadSc =>
      match s.sizeCtl with
      | .idle _ => some (upd { l with pc := .idle })                      -- `sc >= 0`
      | .resizing g c =>
        if helpRefuses s.checkGen s.maxResizers g c l.heldGen then some (upd { l with pc := .idle })
        else some (upd { l with pc := .helpLoadIndex (.resizing g c) })
    | .helpLoadIndex sc =>
      if s.transferIndex <= 0 then some (upd { l with pc := .idle })
      else some (upd { l with pc := .casJoin sc })
    | .acLoadTable sc =>
      match sc with
      | .idle _ => some (upd { l with pc := .idle })
      | .resizing g c =>
        if acRefuses s.maxResizers g c s.gen then some (upd { l with pc := .idle, heldGen := s.gen })
        else some (upd { l with pc := .acLoadNext sc, heldGen := s.gen })
    | .acLoadNext sc =>
      if s.nextTable then some (upd { l with pc := .acLoadIndex sc }) else some (upd { l with pc := .idle })
    | .acLoadIndex sc =>
      if s.transferIndex <= 0 then some (upd { l with pc := .idle })
      else some (upd { l with pc := .casJoin sc })
    | .casJoin sc =>
      if s.sizeCtl == sc then
        match sc with
        | .resizing g c =>
          if l.heldGen == s.gen then
            some { (upd { l with pc := .claimLoad, advance := true, finishing := false, i := 0, bound := 0 })
                     with sizeCtl := .resizing g (c + 1) }
          else
            -- a thread holding the tables of another generation has been admitted (F6): the
            -- word is incremented on behalf of nobody the protocol knows
            some { (upd { l with pc := .idle }) with sizeCtl := .resizing g (c + 1), staleJoins := s.staleJoins + 1 }
        | .idle _ => some (upd { l with pc := .idle })
      else some (upd { l with pc := .idle })
    | .claimLoad =>
      -- `while advance { i -= 1; if i >= bound || finishing { break } ; load transfer_index .. }`
      if !l.advance then some (upd { l with pc := .dispatch })
      else
        let i' := l.i - 1
        if i' >= l.bound || l.finishing then some (upd { l with i := i', advance := false, pc := .dispatch })
        else if s.transferIndex <= 0 then some (upd { l with i := -1, advance := false, pc := .dispatch })
        else some (upd { l with i := i', pc := .claimCas s.transferIndex })
    | .claimCas ni =>
      let nb : Int := if ni > s.stride then ni - s.stride else 0
      if s.transferIndex == ni then
        some { (upd { l with bound := nb, i := ni, advance := false, pc := .dispatch }) with transferIndex := nb }
      else some (upd { l with pc := .claimLoad })        -- retry the loop body (`i -= 1` again)
    | .dispatch =>
      if l.i < 0 || l.i >= s.n then
        if l.finishing then some (upd { l with pc := .pubClearNext })
        else some (upd { l with pc := .leaveLoad })
      else some (upd { l with pc := .processBin })
    | .processBin =>
      let idx := l.i.toNat
      if s.moved.getD idx true then
        some (upd { l with advance := true, pc := .claimLoad })
      else
        some { (upd { l with advance := true, pc := .claimLoad }) with
                 moved := s.moved.set idx true,
                 migrations := s.migrations.set idx (s.migrations.getD idx 0 + 1) }
    | .leaveLoad => some (upd { l with pc := .leaveCas s.sizeCtl })
    | .leaveCas sc =>
      if s.sizeCtl == sc then
        match sc with
        | .resizing g c =>
          if c == 2 then
            -- `(sc - 2) == rs`: we are the last one: finish. `i = n`, `advance = true`
            some { (upd { l with finishing := true, advance := true, i := s.n, pc := .claimLoad })
                     with sizeCtl := .resizing g (c - 1) }
          else some { (upd { l with pc := .idle }) with sizeCtl := .resizing g (c - 1) }
        | .idle _ => some (upd { l with pc := .idle })      -- cannot happen (see invariants)
      else some (upd { l with pc := .dispatch })             -- CAS failed: `continue`
    | .pubClearNext => some { (upd { l with pc := .pubSwapTable }) with nextTable := false }
    | .pubSwapTable =>
      some { (upd { l with pc := .pubStoreCtl }) with
               gen := s.gen + 1, n := 2 * s.n,
               moved := List.replicate (2 * s.n) false,
               migrations := List.replicate (2 * s.n) 0,
               published := bumpPublished s.published s.gen }
    | .pubStoreCtl =>
      -- `(n << 1) - (n >> 1)` with the *old* n = three quarters of the new length
      some { (upd { l with pc := .idle, finishing := false }) with sizeCtl := .idle (threshold s.n) }

/-- reachable with the generation comparison in place (the code as it is) -/
inductive Reachable (n nthreads stride : Nat) : State → Prop
  | init : Reachable n nthreads stride (init n nthreads stride true)
  | step {s s' : State} (t choice : Nat) :
      Reachable n nthreads stride s → step s t choice = some s' → Reachable n nthreads stride s'

/-- threads counted as participants of the current resize -/
def participating (l : Local) : Bool :=
  match l.pc with
  | .swapNext | .storeIndex | .claimLoad | .claimCas _ | .dispatch | .processBin | .leaveLoad | .leaveCas _ => !l.finishing
  | _ => false

def numParticipants (s : State) : Nat := (s.threads.filter participating).length

/-- the finisher (after its successful leave-CAS, until it has stored the new threshold) -/
def isFinisher (l : Local) : Bool :=
  l.finishing || match l.pc with | .pubClearNext | .pubSwapTable | .pubStoreCtl => true | _ => false

def allIdle (s : State) : Prop := ∀ l ∈ s.threads, l.pc = .idle

end Flurry.Proto.Resize
