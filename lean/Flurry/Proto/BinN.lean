import Flurry.Proto.BinX
/-! # Proto/BinN: a list-bin lineage through ANY NUMBER of successive resizes (C01, C08, C10)

`Proto/BinX` has exactly one resize (three cells). Here the table is resized again and again:

* generations `0, 1, 2, …`; the lineage's cells of generation `g` are `(g, j)`, `j < 2^g`
  (`tabs[g][j]`); key `k` belongs to cell `(g, k % 2^g)`; a cell is `empty`, `node h` (a list whose
  first node is `h`, the lock is inside `h`) or `moved` — forwarded to its two children
  `(g+1, j)` (low) and `(g+1, j + 2^g)` (high); a key goes high iff its bit `g` is set (`bitAt g k`).
* `cur` = generation of the table pointer; `resizing` = generation `cur + 1` is allocated and being
  filled. Any idle thread may start a resize when none is running (generations do not overlap): it
  allocates generation `cur + 1` (all `empty`), transfers the cells `(cur, j)` one at a time **in any
  order** (`pick`; per cell exactly `Proto/BinX`'s transfer: empty → CAS to `moved`; list → lock the
  head, re-check, split by bit `cur` of the keys with the re-used last run and the copied prefix,
  store low, store high, THEN store `moved`, unlock) and, when all `2^cur` cells are `moved`, commits
  `cur := cur + 1`. One resizing thread per generation (no helpers).
* readers and writers exactly as in `Proto/BinX` (lock in the first node, re-check of the cell after
  locking, lock-free readers, lock-free CAS into an empty cell, `wFind`/`wStore` walk), except that
  they load `cur`, then the cell of their key in that generation, and on `moved` go on to generation
  `g + 1` — again and again: a thread that loaded generation 0 long ago follows marker after marker
  until it reaches the current table or the one being filled. A writer whose re-check fails looks at
  the cell of the same table variable again (`continue` in `put`), as in `Proto/BinX`.

A table of an older generation is never freed here (all its cells are `moved`, for ever).

Definitions of the nodes, `chainFrom`, … are those of `Proto/BinX`; `splitBinB` is `BinX.splitBin`
with the split bit as a parameter (`splitBinB_hiBit`). -/
namespace Flurry.Proto.BinN
open Flurry.Lin
open Flurry.Proto.BinX (NodeS Cell Pending isReader dflt chainFrom cellHead cellOfHead)

inductive Pc where
  | idle
  /-- about to load the table pointer -/
  | rTable
  /-- reader: about to load the cell of its key in generation `g` -/
  | rCell (g : Nat)
  | rNode (cur : Option Nat)
  | wTable
  | wCell (g : Nat)
  /-- writer: about to CAS the (empty) cell of its key in generation `g` to a new node -/
  | wCas (g : Nat)
  | wLock (g : Nat) (h : Nat)
  | wCheck (g : Nat) (h : Nat)
  | wFind (g : Nat) (h : Nat) (pred : Option Nat) (cur : Option Nat)
  | wStore (g : Nat) (h : Nat) (pred : Option Nat) (hit : Option Nat) (hnext : Option Nat)
  /-- about to unlock node `h`; `retry`: the re-check failed, look at the cell of generation `g` again -/
  | wUnlock (g : Nat) (h : Nat) (res : KRes) (retry : Bool)
  -- the resizing thread of generation `cur` ---------------------------------------------------------
  /-- about to choose the next cell to transfer (or to commit when all are forwarded) -/
  | tNext
  /-- about to load cell `(cur, j)` -/
  | tCell (j : Nat)
  /-- about to CAS `(cur, j): empty → moved` -/
  | tCasMoved (j : Nat)
  | tLock (j : Nat) (h : Nat)
  | tCheck (j : Nat) (h : Nat)
  /-- holds the validated lock of `h`: about to split the list (reads under the lock, private allocation) -/
  | tBuild (j : Nat) (h : Nat)
  | tStoreLow (j : Nat) (h : Nat) (low high : Option Nat)
  | tStoreHigh (j : Nat) (h : Nat) (high : Option Nat)
  | tStoreMoved (j : Nat) (h : Nat)
  | tUnlock (j : Nat) (h : Nat)
  /-- about to publish the next table -/
  | tCommit
deriving Repr, DecidableEq

structure Local where
  pc : Pc := .idle
  call : Option Pending := none
deriving Repr, DecidableEq

structure State where
  heap : List NodeS := []
  /-- `tabs[g]` = the cells of generation `g` (there are `2^g`) -/
  tabs : List (List Cell) := [[.empty]]
  /-- the generation of the table pointer -/
  cur : Nat := 0
  /-- generation `cur + 1` is allocated and being filled -/
  resizing : Bool := false
  threads : List Local
  hist : List (Nat × Call) := []
  now : Nat := 0
deriving Repr

def init (nthreads : Nat) : State := { threads := List.replicate nthreads {} }

/-- the split bit of generation `g` -/
def bitAt (g k : Nat) : Bool := (k / 2 ^ g) % 2 == 1

/-- cell `(g, j)`; a cell that does not exist reads as `empty` -/
def cellAt (s : State) (g j : Nat) : Cell := (s.tabs.getD g []).getD j .empty

/-- the cell of key `k` in generation `g` -/
def cellOf (s : State) (g k : Nat) : Cell := cellAt s g (k % 2 ^ g)

def putCell (s : State) (g j : Nat) (c : Cell) : State :=
  { s with tabs := s.tabs.modify g (fun row => row.set j c) }

def setCell (s : State) (g k : Nat) (c : Cell) : State := putCell s g (k % 2 ^ g) c

def chainOfCell (s : State) (c : Cell) : List Nat := chainFrom s.heap s.heap.length (cellHead c)

/-- follow the forwarding markers from generation `g` -/
def liveFrom (s : State) (k : Nat) : Nat → Nat → Cell
  | 0, g => cellOf s g k
  | fuel + 1, g =>
    match cellOf s g k with
    | .moved => liveFrom s k fuel (g + 1)
    | c => c

/-- the cell a lookup of `k` started now ends in -/
def liveCell (s : State) (k : Nat) : Cell := liveFrom s k s.tabs.length s.cur

def absOf (s : State) (k : Nat) : KSt :=
  match (chainOfCell s (liveCell s k)).find? (fun i => (s.heap.getD i dflt).key == k) with
  | some i => some (s.heap.getD i dflt).val
  | none => none

def setNode (s : State) (i : Nat) (f : NodeS → NodeS) : State := { s with heap := s.heap.modify i f }
def setT (s : State) (t : Nat) (l : Local) : State := { s with threads := s.threads.set t l }

def finish (s : State) (t : Nat) (p : Pending) (res : KRes) : State :=
  { (setT s t { pc := .idle, call := none }) with
      hist := (p.key, { tid := t, op := p.op, res := res, inv := p.inv, resp := s.now }) :: s.hist }

/-- the writer's single store with the positions remembered during its walk (as `Proto/BinX`),
in the cell of generation `g` -/
def storeAt (s : State) (g : Nat) (p : Pending) (pred hit hnext : Option Nat) : State × KRes :=
  let append (v vi : Nat) : State :=
    let newIdx := s.heap.length
    let s1 := { s with heap := s.heap ++ [⟨p.key, (v, vi), none, none⟩] }
    match pred with
    | some l => setNode s1 l (fun n => { n with next := some newIdx })
    | none => setCell s1 g p.key (.node newIdx)
  let unlink : State :=
    match pred with
    | some pr => setNode s pr (fun m => { m with next := hnext })
    | none => setCell s g p.key (match hnext with | some x => .node x | none => .empty)
  match p.op, hit with
  | .ins v vi, some i => (setNode s i (fun n => { n with val := (v, vi) }), resOf (some (s.heap.getD i dflt).val))
  | .ins v vi, none => (append v vi, .none)
  | .tryIns _ _, some i => let x := (s.heap.getD i dflt).val; (s, .exists_ x.1 x.2)
  | .tryIns v vi, none => (append v vi, .none)
  | .rm, some i => (unlink, resOf (some (s.heap.getD i dflt).val))
  | .rm, none => (s, .none)
  | .cipInc nvi, some i =>
    let n := s.heap.getD i dflt
    (setNode s i (fun m => { m with val := (n.val.1 + 1, nvi) }), .some (n.val.1 + 1) nvi)
  | .cipInc _, none => (s, .none)
  | .cipRm, some _ => (unlink, .none)
  | .cipRm, none => (s, .none)
  | .get, _ => (s, .none)
  | .has, _ => (s, .none)

/-- `BinX.lastRunStart` with the split bit as a parameter -/
def lastRunStartB (bit : Nat → Bool) (heap : List NodeS) (c : List Nat) : Nat :=
  let bits := c.map fun i => bit (heap.getD i dflt).key
  match bits.getLast? with
  | none => 0
  | some b => c.length - (bits.reverse.takeWhile (· == b)).length

/-- `BinX.splitBin` with the split bit as a parameter: new heap, head of the low list, head of the
high list. The last run is re-used; the nodes before it are copied and prepended to their side. -/
def splitBinB (bit : Nat → Bool) (heap : List NodeS) (c : List Nat) : List NodeS × Option Nat × Option Nat :=
  let k := lastRunStartB bit heap c
  let run := c.drop k
  let runBit := match run.head? with | some i => bit (heap.getD i dflt).key | none => false
  let low0 : Option Nat := if runBit then none else run.head?
  let high0 : Option Nat := if runBit then run.head? else none
  (c.take k).foldl
    (fun (acc : List NodeS × Option Nat × Option Nat) i =>
      let (hp, lo, hg) := acc
      let n := hp.getD i dflt
      let idx := hp.length
      if bit n.key then (hp ++ [⟨n.key, n.val, hg, none⟩], lo, some idx)
      else (hp ++ [⟨n.key, n.val, lo, none⟩], some idx, hg))
    (heap, low0, high0)

theorem splitBinB_hiBit (heap : List NodeS) (c : List Nat) :
    splitBinB BinX.hiBit heap c = BinX.splitBin heap c := rfl

/-- every cell of generation `g` is forwarded -/
def allMoved (s : State) (g : Nat) : Bool := (s.tabs.getD g []).all (· == .moved)

/-- One step of thread `t`. `inv`: the call an idle thread starts (`some (k, op)`); `resize = true`:
an idle thread starts a resize (if none is running); `pick`: the cell the resizing thread turns to. -/
def stepG (recheck : Bool) (s : State) (t : Nat) (inv : Option (Nat × KOp)) (resize : Bool) (pick : Nat) :
    Option State :=
  match s.threads[t]? with
  | none => none
  | some l =>
    let s := { s with now := s.now + 1 }
    let upd (pc : Pc) : State := setT s t { l with pc := pc }
    match l.pc, l.call with
    | .idle, _ =>
      if resize then
        if s.resizing then some s
        else some { (upd .tNext) with resizing := true, tabs := s.tabs ++ [List.replicate (2 ^ (s.cur + 1)) .empty] }
      else
        match inv with
        | none => some s
        | some (k, op) =>
          some (setT s t { pc := if isReader op then .rTable else .wTable, call := some ⟨k, op, s.now⟩ })
    -- readers
    | .rTable, some _ => some (upd (.rCell s.cur))
    | .rCell g, some p =>
      match cellOf s g p.key with
      | .empty => some (finish s t p (match p.op with | .has => .bool false | _ => .none))
      | .moved => some (upd (.rCell (g + 1)))
      | .node h => some (upd (.rNode (some h)))
    | .rNode none, some p =>
      some (finish s t p (match p.op with | .has => .bool false | _ => .none))
    | .rNode (some c), some p =>
      match s.heap[c]? with
      | none => none
      | some n =>
        if n.key == p.key then
          some (finish s t p (match p.op with | .has => .bool true | _ => .some n.val.1 n.val.2))
        else some (upd (.rNode n.next))
    -- writers
    | .wTable, some _ => some (upd (.wCell s.cur))
    | .wCell g, some p =>
      match cellOf s g p.key with
      | .empty =>
        match p.op with
        | .ins _ _ | .tryIns _ _ => some (upd (.wCas g))
        | _ => some (finish s t p .none)
      | .moved => some (upd (.wCell (g + 1)))          -- help_transfer: continue in the next table
      | .node h => some (upd (.wLock g h))
    | .wCas g, some p =>
      match cellOf s g p.key, p.op with
      | .empty, .ins v vi | .empty, .tryIns v vi =>
        let newIdx := s.heap.length
        some (finish (setCell { s with heap := s.heap ++ [⟨p.key, (v, vi), none, none⟩] } g p.key (.node newIdx)) t p .none)
      | _, _ => some (upd (.wCell g))
    | .wLock g h, some _ =>
      match s.heap[h]? with
      | none => none
      | some n =>
        if n.lock.isSome then none
        else some (setT (setNode s h (fun m => { m with lock := some t })) t { l with pc := .wCheck g h })
    | .wCheck g h, some p =>
      if !recheck || cellOf s g p.key == .node h then some (upd (.wFind g h none (some h)))
      else some (upd (.wUnlock g h .none true))
    | .wFind g h pred cur, some p =>
      match cur with
      | none => some (upd (.wStore g h pred none none))
      | some c =>
        match s.heap[c]? with
        | none => none
        | some n =>
          if n.key == p.key then some (upd (.wStore g h pred (some c) n.next))
          else some (upd (.wFind g h (some c) n.next))
    | .wStore g h pred hit hnext, some p =>
      let (s', res) := storeAt s g p pred hit hnext
      some (setT s' t { l with pc := .wUnlock g h res false })
    | .wUnlock g h res retry, some p =>
      let s1 := setNode s h (fun m => { m with lock := none })
      -- `continue`: the loop looks at the cell of the same table variable again
      if retry then some (setT s1 t { l with pc := .wCell g }) else some (finish s1 t p res)
    -- the resizing thread of generation `cur` (it has no call in flight)
    | .tNext, none =>
      -- its own progress: only the resizing thread writes `moved` into generation `cur`
      if allMoved s s.cur then some (upd .tCommit) else some (upd (.tCell (pick % 2 ^ s.cur)))
    | .tCell j, none =>
      match cellAt s s.cur j with
      | .empty => some (upd (.tCasMoved j))
      | .node h => some (upd (.tLock j h))
      | .moved => some (upd .tNext)
    | .tCasMoved j, none =>
      if cellAt s s.cur j == .empty then some (putCell (upd .tNext) s.cur j .moved) else some (upd (.tCell j))
    | .tLock j h, none =>
      match s.heap[h]? with
      | none => none
      | some n =>
        if n.lock.isSome then none
        else some (setT (setNode s h (fun m => { m with lock := some t })) t { l with pc := .tCheck j h })
    | .tCheck j h, none =>
      if !recheck || cellAt s s.cur j == .node h then some (upd (.tBuild j h))
      else some (setT (setNode s h (fun m => { m with lock := none })) t { l with pc := .tCell j })
    | .tBuild j h, none =>
      let c := chainFrom s.heap s.heap.length (some h)
      let (hp, lo, hg) := splitBinB (bitAt s.cur) s.heap c
      some (setT { s with heap := hp } t { l with pc := .tStoreLow j h lo hg })
    | .tStoreLow j h lo hg, none =>
      some (putCell (upd (.tStoreHigh j h hg)) (s.cur + 1) j (cellOfHead lo))
    | .tStoreHigh j h hg, none =>
      some (putCell (upd (.tStoreMoved j h)) (s.cur + 1) (j + 2 ^ s.cur) (cellOfHead hg))
    | .tStoreMoved j h, none => some (putCell (upd (.tUnlock j h)) s.cur j .moved)
    | .tUnlock _ h, none =>
      some (setT (setNode s h (fun m => { m with lock := none })) t { l with pc := .tNext })
    | .tCommit, none => some { (upd .idle) with cur := s.cur + 1, resizing := false }
    | _, _ => none

def step (s : State) (t : Nat) (inv : Option (Nat × KOp)) (resize : Bool) (pick : Nat) : Option State :=
  stepG true s t inv resize pick

inductive Reachable (nthreads : Nat) : State → Prop
  | init : Reachable nthreads (init nthreads)
  | step {s s' : State} (t : Nat) (inv : Option (Nat × KOp)) (resize : Bool) (pick : Nat) :
      Reachable nthreads s → step s t inv resize pick = some s' → Reachable nthreads s'

def callsOn (s : State) (k : Nat) : History :=
  (s.hist.filter (·.1 == k)).reverse.map (·.2)

def quiescent (s : State) : Prop := ∀ l ∈ s.threads, l.pc = .idle

end Flurry.Proto.BinN
