import Flurry.Proto.BinK
/-! # Proto/BinG: one bin lineage through kind changes AND a resize (C01, C05, C07, C08, C10)

The union of `Proto/BinK` (a bin cell that is empty, a list bin or a tree bin, with treeify and
untreeify) and `Proto/BinX` (the smallest table that can grow: an old table with one cell `cell0`,
a next table with two cells `lowCell` / `highCell`; a key goes to the high cell iff `hiBit k`):

* every operation loads the table pointer `cur`, then the cell of its key in that table; a cell is
  `empty`, `list h`, `tree b` or `moved` (the forwarding marker, only in the old table); on `moved`
  readers and writers continue in the next table;
* `transfer` of the old cell by the thread that performs the (single) resize:
  - empty: CAS `empty → moved`;
  - **list bin** (as `Proto/BinX`): lock the head, re-check, split with the last run re-used and the
    nodes before it copied and prepended, store low, store high, store `moved`, unlock;
  - **tree bin** (`transfer`, the `BinEntry::Tree` arm): lock the bin's mutex, re-check, copy every
    node of the (stable) list into a fresh node of its side, in list order; per side: nothing →
    `empty`; few nodes (`small`, over-approximating `≤ UNTREEIFY_THRESHOLD`) → a plain list of fresh
    nodes; else, if the other side is empty → **the old `TreeBin` object itself is re-used** in the
    new table; else → a fresh `TreeBin` over the fresh nodes. Then store low, store high, store
    `moved`, unlock the mutex;
  - publish: `cur := new`;
* treeify / untreeify (`Proto/BinK`) may happen in any cell that holds a list / tree bin, before or
  after the resize.

Threads that loaded a cell before it was replaced or forwarded go on with what they loaded:
readers finish there (old structures are never written again, except a re-used last run / a re-used
`TreeBin`, which are live in the new table); writers notice at their re-check and start over.

To be proved (`Lemmas/BinG*.lean`): for every reachable quiescent state and key the completed
calls on that key are `Lin.Linearizable` from "absent" to the key's abstract state. -/
namespace Flurry.Proto.BinG
open Flurry.Lin

/-! Nodes, `TreeBin` objects, pending calls and the list primitives are those of `Proto/BinK`
(`NodeS`, `TBin`, `Pending`, `After`, `isReader`, `dflt`, `dfltB`, `chainFrom`, `copyChain`, `predOf`,
`absentRes`), re-used verbatim so that the lemmas about them (`Lemmas/BinKChain.lean`,
`Lemmas/BinKBasic.lean`) apply. -/
export Flurry.Proto.BinK (NodeS TBin Pending After isReader dflt dfltB chainFrom copyChain predOf absentRes)

inductive Cell where
  | empty
  | list (h : Nat)
  | tree (b : Nat)
  /-- the forwarding marker (old table only) -/
  | moved
deriving Repr, DecidableEq

/-- which table: the old one-cell table or the new two-cell table -/
inductive Tab where | old | new
deriving Repr, DecidableEq

inductive Pc where
  | idle
  -- readers ------------------------------------------------------------------------------
  /-- about to load the table pointer (`listOnly`: an iterator) -/
  | rTable (listOnly : Bool)
  /-- about to load the cell of its key in table `tab` -/
  | rCell (listOnly : Bool) (tab : Tab)
  | rNode (cur : Option Nat)
  | rFirst (b : Nat)
  | rState (b : Nat) (cur : Option Nat)
  | rLin (b : Nat) (cur : Nat)
  | rCas (b : Nat) (cur : Nat) (r : Nat)
  | rTree (b : Nat)
  | rRelease (b : Nat) (hit : Option Nat)
  | rVal (i : Nat)
  | lFirst (b : Nat)
  | lNode (cur : Option Nat)
  -- writers, list form ---------------------------------------------------------------------
  | wTable
  | wCell (tab : Tab)
  | wCas (tab : Tab)
  | wLock (tab : Tab) (h : Nat)
  | wCheck (tab : Tab) (h : Nat)
  | wFind (tab : Tab) (h : Nat) (pred : Option Nat) (cur : Option Nat)
  | wStore (tab : Tab) (h : Nat) (pred : Option Nat) (hit : Option Nat) (hnext : Option Nat)
  | wUnlock (tab : Tab) (h : Nat) (res : KRes) (retry : Bool)
  -- writers, tree form ---------------------------------------------------------------------
  | tMutex (tab : Tab) (b : Nat)
  | tCheck (tab : Tab) (b : Nat)
  | tFind (tab : Tab) (b : Nat)
  | tVal (tab : Tab) (b : Nat) (i : Nat) (v : Nat × Nat) (res : KRes)
  | lrTry (tab : Tab) (b : Nat) (k : After) (res : KRes)
  | lrLoop (tab : Tab) (b : Nat) (k : After) (res : KRes)
  | tPrependLocked (tab : Tab) (b : Nat)
  | tTreeLinkLocked (tab : Tab) (b : Nat) (x : Nat)
  | tUnlinkLocked (tab : Tab) (b : Nat) (i : Nat) (res : KRes)
  | tRestructure (tab : Tab) (b : Nat) (i : Nat) (res : KRes)
  | tUnlockRoot (tab : Tab) (b : Nat) (res : KRes)
  | tUntreeify (tab : Tab) (b : Nat) (res : KRes)
  | tUnlockM (tab : Tab) (b : Nat) (res : KRes) (retry : Bool)
  -- treeify of the cell of key `k` in table `tab` (a thread without a call in flight) ---------
  | kTable (k : Nat)
  | kCell (tab : Tab) (k : Nat)
  | kLock (tab : Tab) (k : Nat) (h : Nat)
  | kCheck (tab : Tab) (k : Nat) (h : Nat)
  | kBuild (tab : Tab) (k : Nat) (h : Nat)
  | kStore (tab : Tab) (k : Nat) (h : Nat) (b : Nat)
  | kUnlock (h : Nat)
  -- the resizing thread (no call in flight) -------------------------------------------------
  /-- about to load `cell0` -/
  | xCell
  | xCasMoved
  /-- list bin: as `Proto/BinX` -/
  | xLock (h : Nat)
  | xCheck (h : Nat)
  | xBuild (h : Nat)
  /-- tree bin -/
  | yMutex (b : Nat)
  | yCheck (b : Nat)
  | yBuild (b : Nat)
  /-- about to store the low cell of the next table; `unl`: what to unlock at the end
  (`inl h`: the head lock of list node `h`, `inr b`: the mutex of tree bin `b`) -/
  | xStoreLow (unl : Nat ⊕ Nat) (low high : Cell)
  | xStoreHigh (unl : Nat ⊕ Nat) (high : Cell)
  | xStoreMoved (unl : Nat ⊕ Nat)
  | xUnlock (unl : Nat ⊕ Nat)
  | xCommit
deriving Repr, DecidableEq

structure Local where
  pc : Pc := .idle
  call : Option Pending := none
deriving Repr, DecidableEq

structure State where
  heap : List NodeS := []
  tbins : List TBin := []
  cell0 : Cell := .empty
  lowCell : Cell := .empty
  highCell : Cell := .empty
  /-- the table pointer -/
  cur : Tab := .old
  /-- a resize has been started (there is exactly one) -/
  resizing : Bool := false
  threads : List Local
  hist : List (Nat × Call) := []
  now : Nat := 0
deriving Repr

def init (nthreads : Nat) : State := { threads := List.replicate nthreads {} }

/-- the split bit of a key -/
def hiBit (k : Nat) : Bool := k % 2 == 1

def cellOf (s : State) (tab : Tab) (k : Nat) : Cell :=
  match tab with
  | .old => s.cell0
  | .new => if hiBit k then s.highCell else s.lowCell

def setCell (s : State) (tab : Tab) (k : Nat) (c : Cell) : State :=
  match tab with
  | .old => { s with cell0 := c }
  | .new => if hiBit k then { s with highCell := c } else { s with lowCell := c }

/-- the list of tree bin `b` -/
def chainOfBin (s : State) (b : Nat) : List Nat := chainFrom s.heap s.heap.length (s.tbins.getD b dfltB).first

/-- the list of the structure a cell holds -/
def chainOfCell (s : State) (c : Cell) : List Nat :=
  match c with
  | .list h => chainFrom s.heap s.heap.length (some h)
  | .tree b => chainOfBin s b
  | _ => []

/-- the cell a lookup of `k` ends in: the old cell until it is forwarded, then the new one -/
def liveCell (s : State) (k : Nat) : Cell :=
  if s.cell0 == .moved then cellOf s .new k
  else if s.cur == .new then cellOf s .new k else s.cell0

/-- abstract content: the first node with the key on the live list -/
def absOf (s : State) (k : Nat) : KSt :=
  match (chainOfCell s (liveCell s k)).find? (fun i => (s.heap.getD i dflt).key == k) with
  | some i => some (s.heap.getD i dflt).val
  | none => none

/-- the node of tree bin `b`'s tree with key `k` -/
def treeFind (s : State) (b : Nat) (k : Nat) : Option Nat :=
  (List.range s.heap.length).find? fun i =>
    let n := s.heap.getD i dflt
    n.owner == some b && n.inTree && n.key == k

def setNode (s : State) (i : Nat) (f : NodeS → NodeS) : State := { s with heap := s.heap.modify i f }
def setBin (s : State) (b : Nat) (f : TBin → TBin) : State := { s with tbins := s.tbins.modify b f }
def setT (s : State) (t : Nat) (l : Local) : State := { s with threads := s.threads.set t l }

def finish (s : State) (t : Nat) (p : Pending) (res : KRes) : State :=
  { (setT s t { pc := .idle, call := none }) with
      hist := (p.key, { tid := t, op := p.op, res := res, inv := p.inv, resp := s.now }) :: s.hist }

/-- the single store of a list-bin writer in the cell of its key in table `tab` -/
def storeAt (s : State) (tab : Tab) (p : Pending) (pred hit hnext : Option Nat) : State × KRes :=
  let append (v vi : Nat) : State :=
    let newIdx := s.heap.length
    let s1 := { s with heap := s.heap ++ [⟨p.key, (v, vi), none, none, false, none⟩] }
    match pred with
    | some l => setNode s1 l (fun n => { n with next := some newIdx })
    | none => setCell s1 tab p.key (.list newIdx)
  let unlink : State :=
    match pred with
    | some pr => setNode s pr (fun m => { m with next := hnext })
    | none => setCell s tab p.key (match hnext with | some x => .list x | none => .empty)
  match p.op, hit with
  | .ins v vi, some i => (setNode s i (fun n => { n with val := (v, vi) }), resOf (some (s.heap.getD i dflt).val))
  | .ins v vi, none => (append v vi, .none)
  | .tryIns _ _, some i => let x := (s.heap.getD i dflt).val; (s, .exists_ x.1 x.2)
  | .tryIns v vi, none => (append v vi, .none)
  | .rm, some i => (unlink, resOf (some (s.heap.getD i dflt).val))
  | .rm, none => (s, .none)
  | .cipInc nvi, some i =>
    let n := s.heap.getD i dflt
    (setNode s i (fun m => { m with val := (n.val.1 + 1, nvi) }), .some (n.val.1 + 1) nvi)
  | .cipInc _, none => (s, .none)
  | .cipRm, some _ => (unlink, .none)
  | .cipRm, none => (s, .none)
  | .get, _ => (s, .none)
  | .has, _ => (s, .none)

/-- the start of the last run of a chain (as `Proto/BinX`) -/
def lastRunStart (heap : List NodeS) (c : List Nat) : Nat :=
  let bits := c.map fun i => hiBit (heap.getD i dflt).key
  match bits.getLast? with
  | none => 0
  | some b => c.length - (bits.reverse.takeWhile (· == b)).length

/-- split a (locked, stable) list bin: new heap, head of the low list, head of the high list; the
last run is re-used, the nodes before it are copied and prepended to their side (as `Proto/BinX`) -/
def splitBin (heap : List NodeS) (c : List Nat) : List NodeS × Option Nat × Option Nat :=
  let k := lastRunStart heap c
  let run := c.drop k
  let runBit := match run.head? with | some i => hiBit (heap.getD i dflt).key | none => false
  let low0 : Option Nat := if runBit then none else run.head?
  let high0 : Option Nat := if runBit then run.head? else none
  (c.take k).foldl
    (fun (acc : List NodeS × Option Nat × Option Nat) i =>
      let (hp, lo, hg) := acc
      let n := hp.getD i dflt
      let idx := hp.length
      if hiBit n.key then (hp ++ [⟨n.key, n.val, hg, none, false, none⟩], lo, some idx)
      else (hp ++ [⟨n.key, n.val, lo, none, false, none⟩], some idx, hg))
    (heap, low0, high0)

def cellOfHead : Option Nat → Cell
  | some h => .list h
  | none => .empty

/-- one side of the split of tree bin `b`: the nodes `c` of that side (in list order) become
nothing, a plain list of fresh nodes (`small`), the old bin itself (`reuse`), or a fresh `TreeBin` -/
def splitSide (s : State) (b : Nat) (c : List Nat) (small reuse : Bool) : State × Cell :=
  if c.isEmpty then (s, .empty)
  else if small then
    let (hp, h) := copyChain s.heap c (fun src nx => ⟨src.key, src.val, nx, none, false, none⟩)
    ({ s with heap := hp }, cellOfHead h)
  else if reuse then (s, .tree b)
  else
    let b' := s.tbins.length
    let (hp, f) := copyChain s.heap c (fun src nx => ⟨src.key, src.val, nx, none, true, some b'⟩)
    ({ s with heap := hp, tbins := s.tbins ++ [{ first := f }] }, .tree b')

def afterLock (tab : Tab) (b : Nat) (k : After) (res : KRes) : Pc :=
  match k with
  | .remove i => .tUnlinkLocked tab b i res
  | .insert => .tPrependLocked tab b

/-- One step of thread `t`. `inv`: the call an idle thread starts; `listOnly`: that call is an
iterator's read; `maint = some k`: an idle thread starts a treeify of the cell of key `k`;
`resize`: an idle thread starts the (one) resize; `small`, `small2`: size decisions
(untreeify after a removal; list-or-tree for the low / high side of a tree-bin split).
`none` = not enabled. -/
def stepG (recheck : Bool) (s : State) (t : Nat) (inv : Option (Nat × KOp)) (listOnly : Bool)
    (maint : Option Nat) (resize small small2 : Bool) : Option State :=
  match s.threads[t]? with
  | none => none
  | some l =>
    let s := { s with now := s.now + 1 }
    let upd (pc : Pc) : State := setT s t { l with pc := pc }
    let bin (b : Nat) : TBin := s.tbins.getD b dfltB
    match l.pc, l.call with
    | .idle, _ =>
      if resize then
        if s.resizing then some s else some { (upd .xCell) with resizing := true }
      else
        match maint with
        | some k => some (upd (.kTable k))
        | none =>
          match inv with
          | none => some s
          | some (k, op) =>
            some (setT s t { pc := if isReader op then .rTable listOnly else .wTable, call := some ⟨k, op, s.now⟩ })
    -- readers: table, cell, dispatch on the kind of bin -------------------------------------
    | .rTable lo, some _ => some (upd (.rCell lo s.cur))
    | .rCell lo tab, some p =>
      match cellOf s tab p.key with
      | .empty => some (finish s t p (absentRes p.op))
      | .moved => some (upd (.rCell lo .new))
      | .list h => some (upd (.rNode (some h)))
      | .tree b => some (upd (if lo then .lFirst b else .rFirst b))
    | .rNode none, some p => some (finish s t p (absentRes p.op))
    | .rNode (some c), some p =>
      match s.heap[c]? with
      | none => none
      | some n =>
        if n.key == p.key then
          some (finish s t p (match p.op with | .has => .bool true | _ => .some n.val.1 n.val.2))
        else some (upd (.rNode n.next))
    | .rFirst b, some _ => some (upd (.rState b (bin b).first))
    | .rState _ none, some p => some (finish s t p (absentRes p.op))
    | .rState b (some c), some _ =>
      if (bin b).writer || (bin b).waiter then some (upd (.rLin b c)) else some (upd (.rCas b c (bin b).readers))
    | .rLin b c, some p =>
      match s.heap[c]? with
      | none => none
      | some n =>
        if n.key == p.key then
          match p.op with
          | .has => some (finish s t p (.bool true))
          | _ => some (upd (.rVal c))
        else some (upd (.rState b n.next))
    | .rCas b c r, some _ =>
      if !(bin b).writer && !(bin b).waiter && (bin b).readers == r then
        some (setT (setBin s b (fun x => { x with readers := x.readers + 1 })) t { l with pc := .rTree b })
      else some (upd (.rState b (some c)))
    | .rTree b, some p => some (upd (.rRelease b (treeFind s b p.key)))
    | .rRelease b hit, some p =>
      let s1 := setBin s b (fun x => { x with readers := x.readers - 1 })
      match hit, p.op with
      | none, _ => some (finish s1 t p (absentRes p.op))
      | some _, .has => some (finish s1 t p (.bool true))
      | some i, _ => some (setT s1 t { l with pc := .rVal i })
    | .rVal i, some p =>
      match s.heap[i]? with
      | none => none
      | some n => some (finish s t p (.some n.val.1 n.val.2))
    | .lFirst b, some _ => some (upd (.lNode (bin b).first))
    | .lNode none, some p => some (finish s t p (absentRes p.op))
    | .lNode (some c), some p =>
      match s.heap[c]? with
      | none => none
      | some n =>
        if n.key == p.key then
          match p.op with
          | .has => some (finish s t p (.bool true))
          | _ => some (upd (.rVal c))
        else some (upd (.lNode n.next))
    -- writers: table, cell, dispatch ---------------------------------------------------------
    | .wTable, some _ => some (upd (.wCell s.cur))
    | .wCell tab, some p =>
      match cellOf s tab p.key with
      | .empty =>
        match p.op with
        | .ins _ _ | .tryIns _ _ => some (upd (.wCas tab))
        | _ => some (finish s t p .none)
      | .moved => some (upd (.wCell .new))          -- help_transfer: continue in the next table
      | .list h => some (upd (.wLock tab h))
      | .tree b => some (upd (.tMutex tab b))
    | .wCas tab, some p =>
      match cellOf s tab p.key, p.op with
      | .empty, .ins v vi | .empty, .tryIns v vi =>
        let newIdx := s.heap.length
        some (finish (setCell { s with heap := s.heap ++ [⟨p.key, (v, vi), none, none, false, none⟩] } tab p.key (.list newIdx)) t p .none)
      | _, _ => some (upd (.wCell tab))
    | .wLock tab h, some _ =>
      match s.heap[h]? with
      | none => none
      | some n =>
        if n.lock.isSome then none
        else some (setT (setNode s h (fun m => { m with lock := some t })) t { l with pc := .wCheck tab h })
    | .wCheck tab h, some p =>
      if !recheck || cellOf s tab p.key == .list h then some (upd (.wFind tab h none (some h)))
      else some (upd (.wUnlock tab h .none true))
    | .wFind tab h pred cur, some p =>
      match cur with
      | none => some (upd (.wStore tab h pred none none))
      | some c =>
        match s.heap[c]? with
        | none => none
        | some n =>
          if n.key == p.key then some (upd (.wStore tab h pred (some c) n.next))
          else some (upd (.wFind tab h (some c) n.next))
    | .wStore tab h pred hit hnext, some p =>
      let (s', res) := storeAt s tab p pred hit hnext
      some (setT s' t { l with pc := .wUnlock tab h res false })
    | .wUnlock tab h res retry, some p =>
      let s1 := setNode s h (fun m => { m with lock := none })
      if retry then some (setT s1 t { l with pc := .wCell tab }) else some (finish s1 t p res)
    -- tree form
    | .tMutex tab b, some _ =>
      if (bin b).mutex.isSome then none
      else some (setT (setBin s b (fun x => { x with mutex := some t })) t { l with pc := .tCheck tab b })
    | .tCheck tab b, some p =>
      if !recheck || cellOf s tab p.key == .tree b then some (upd (.tFind tab b))
      else some (upd (.tUnlockM tab b .none true))
    | .tFind tab b, some p =>
      match p.op, treeFind s b p.key with
      | .ins v vi, some i => some (upd (.tVal tab b i (v, vi) (resOf (some (s.heap.getD i dflt).val))))
      | .ins _ _, none => some (upd (.lrTry tab b .insert .none))
      | .tryIns _ _, some i => let x := (s.heap.getD i dflt).val; some (upd (.tUnlockM tab b (.exists_ x.1 x.2) false))
      | .tryIns _ _, none => some (upd (.lrTry tab b .insert .none))
      | .rm, some i => some (upd (.lrTry tab b (.remove i) (resOf (some (s.heap.getD i dflt).val))))
      | .rm, none => some (upd (.tUnlockM tab b .none false))
      | .cipInc nvi, some i =>
        let x := (s.heap.getD i dflt).val
        some (upd (.tVal tab b i (x.1 + 1, nvi) (.some (x.1 + 1) nvi)))
      | .cipInc _, none => some (upd (.tUnlockM tab b .none false))
      | .cipRm, some i => some (upd (.lrTry tab b (.remove i) .none))
      | .cipRm, none => some (upd (.tUnlockM tab b .none false))
      | .get, _ => none
      | .has, _ => none
    | .tVal tab b i v res, some _ =>
      some (setT (setNode s i (fun n => { n with val := v })) t { l with pc := .tUnlockM tab b res false })
    | .lrTry tab b k res, some _ =>
      if !(bin b).writer && !(bin b).waiter && (bin b).readers == 0 then
        some (setT (setBin s b (fun x => { x with writer := true })) t { l with pc := afterLock tab b k res })
      else some (upd (.lrLoop tab b k res))
    | .lrLoop tab b k res, some _ =>
      if !(bin b).writer && (bin b).readers == 0 then
        some (setT (setBin s b (fun x => { x with writer := true, waiter := false })) t { l with pc := afterLock tab b k res })
      else if !(bin b).waiter then some (setT (setBin s b (fun x => { x with waiter := true })) t { l with pc := .lrLoop tab b k res })
      else none
    | .tPrependLocked tab b, some p =>
      match p.op with
      | .ins v vi | .tryIns v vi =>
        let x := s.heap.length
        let s1 := { s with heap := s.heap ++ [⟨p.key, (v, vi), (bin b).first, none, false, some b⟩] }
        some (setT (setBin s1 b (fun y => { y with first := some x })) t { l with pc := .tTreeLinkLocked tab b x })
      | _ => none
    | .tTreeLinkLocked tab b x, some _ =>
      some (setT (setNode s x (fun n => { n with inTree := true })) t { l with pc := .tUnlockRoot tab b .none })
    | .tUnlinkLocked tab b i res, some _ =>
      let n := s.heap.getD i dflt
      let s1 := match predOf (chainOfBin s b) i with
        | some pr => setNode s pr (fun m => { m with next := n.next })
        | none => setBin s b (fun y => { y with first := n.next })
      some (setT s1 t { l with pc := if small then .tUntreeify tab b res else .tRestructure tab b i res })
    | .tRestructure tab b i res, some _ =>
      some (setT (setNode s i (fun n => { n with inTree := false })) t { l with pc := .tUnlockRoot tab b res })
    | .tUnlockRoot tab b res, some _ =>
      some (setT (setBin s b (fun x => { x with writer := false, waiter := false })) t { l with pc := .tUnlockM tab b res false })
    | .tUntreeify tab b res, some p =>
      let (hp, h') := copyChain s.heap (chainOfBin s b) (fun src nx => ⟨src.key, src.val, nx, none, false, none⟩)
      some (setT (setCell { s with heap := hp } tab p.key (cellOfHead h')) t { l with pc := .tUnlockM tab b res false })
    | .tUnlockM tab b res retry, some p =>
      let s1 := setBin s b (fun x => { x with mutex := none })
      if retry then some (setT s1 t { l with pc := .wCell tab }) else some (finish s1 t p res)
    -- treeify of the cell of key `k` (no call in flight) ----------------------------------------
    | .kTable k, none => some (upd (.kCell s.cur k))
    | .kCell tab k, none =>
      match cellOf s tab k with
      | .list h => some (upd (.kLock tab k h))
      | .moved => some (upd (.kCell .new k))
      | _ => some (upd .idle)
    | .kLock tab k h, none =>
      match s.heap[h]? with
      | none => none
      | some n =>
        if n.lock.isSome then none
        else some (setT (setNode s h (fun m => { m with lock := some t })) t { l with pc := .kCheck tab k h })
    | .kCheck tab k h, none =>
      if !recheck || cellOf s tab k == .list h then some (upd (.kBuild tab k h))
      else some (upd (.kUnlock h))
    | .kBuild tab k h, none =>
      let b := s.tbins.length
      let (hp, f) := copyChain s.heap (chainFrom s.heap s.heap.length (some h))
        (fun src nx => ⟨src.key, src.val, nx, none, true, some b⟩)
      some (setT { s with heap := hp, tbins := s.tbins ++ [{ first := f }] } t { l with pc := .kStore tab k h b })
    | .kStore tab k h b, none => some (setT (setCell s tab k (.tree b)) t { l with pc := .kUnlock h })
    | .kUnlock h, none =>
      some (setT (setNode s h (fun m => { m with lock := none })) t { l with pc := .idle })
    -- the resizing thread ---------------------------------------------------------------------
    | .xCell, none =>
      match s.cell0 with
      | .empty => some (upd .xCasMoved)
      | .list h => some (upd (.xLock h))
      | .tree b => some (upd (.yMutex b))
      | .moved => some (upd .xCommit)
    | .xCasMoved, none =>
      if s.cell0 == .empty then some { (upd .xCommit) with cell0 := .moved } else some (upd .xCell)
    | .xLock h, none =>
      match s.heap[h]? with
      | none => none
      | some n =>
        if n.lock.isSome then none
        else some (setT (setNode s h (fun m => { m with lock := some t })) t { l with pc := .xCheck h })
    | .xCheck h, none =>
      if !recheck || s.cell0 == .list h then some (upd (.xBuild h))
      else some (setT (setNode s h (fun m => { m with lock := none })) t { l with pc := .xCell })
    | .xBuild h, none =>
      let c := chainFrom s.heap s.heap.length (some h)
      let (hp, lo, hg) := splitBin s.heap c
      some (setT { s with heap := hp } t { l with pc := .xStoreLow (.inl h) (cellOfHead lo) (cellOfHead hg) })
    | .yMutex b, none =>
      if (bin b).mutex.isSome then none
      else some (setT (setBin s b (fun x => { x with mutex := some t })) t { l with pc := .yCheck b })
    | .yCheck b, none =>
      if !recheck || s.cell0 == .tree b then some (upd (.yBuild b))
      else some (setT (setBin s b (fun x => { x with mutex := none })) t { l with pc := .xCell })
    | .yBuild b, none =>
      let c := chainOfBin s b
      let cLo := c.filter fun i => !hiBit (s.heap.getD i dflt).key
      let cHi := c.filter fun i => hiBit (s.heap.getD i dflt).key
      let (s1, lo) := splitSide s b cLo small cHi.isEmpty
      let (s2, hi) := splitSide s1 b cHi small2 cLo.isEmpty
      some (setT s2 t { l with pc := .xStoreLow (.inr b) lo hi })
    | .xStoreLow unl lo hi, none => some { (upd (.xStoreHigh unl hi)) with lowCell := lo }
    | .xStoreHigh unl hi, none => some { (upd (.xStoreMoved unl)) with highCell := hi }
    | .xStoreMoved unl, none => some { (upd (.xUnlock unl)) with cell0 := .moved }
    | .xUnlock unl, none =>
      match unl with
      | .inl h => some (setT (setNode s h (fun m => { m with lock := none })) t { l with pc := .xCommit })
      | .inr b => some (setT (setBin s b (fun x => { x with mutex := none })) t { l with pc := .xCommit })
    | .xCommit, none => some { (upd .idle) with cur := .new }
    | _, _ => none

def step (s : State) (t : Nat) (inv : Option (Nat × KOp)) (listOnly : Bool) (maint : Option Nat)
    (resize small small2 : Bool) : Option State :=
  stepG true s t inv listOnly maint resize small small2

/-- writers, treeify and transfer that trust the lock they took without re-reading the cell -/
def stepNoCheck (s : State) (t : Nat) (inv : Option (Nat × KOp)) (listOnly : Bool) (maint : Option Nat)
    (resize small small2 : Bool) : Option State :=
  stepG false s t inv listOnly maint resize small small2

inductive Reachable (nthreads : Nat) : State → Prop
  | init : Reachable nthreads (init nthreads)
  | step {s s' : State} (t : Nat) (inv : Option (Nat × KOp)) (listOnly : Bool) (maint : Option Nat)
      (resize small small2 : Bool) :
      Reachable nthreads s → step s t inv listOnly maint resize small small2 = some s' → Reachable nthreads s'

inductive ReachableNoCheck (nthreads : Nat) : State → Prop
  | init : ReachableNoCheck nthreads (init nthreads)
  | step {s s' : State} (t : Nat) (inv : Option (Nat × KOp)) (listOnly : Bool) (maint : Option Nat)
      (resize small small2 : Bool) :
      ReachableNoCheck nthreads s → stepNoCheck s t inv listOnly maint resize small small2 = some s' →
      ReachableNoCheck nthreads s'

def callsOn (s : State) (k : Nat) : History :=
  (s.hist.filter (·.1 == k)).reverse.map (·.2)

def quiescent (s : State) : Prop := ∀ l ∈ s.threads, l.pc = .idle

end Flurry.Proto.BinG
