import Flurry.Proto.RwLock
/-! # Proto/RwLockMonitor: real `lock_state` access streams replayed as runs of `Proto/RwLock`

The harness projects the event stream of a scheduled run of the real map onto the accesses that
concern **one tree bin's lock**: the `lock_state` word (loads, compare-exchanges, the reader's
announced CAS, `fetch_add(-READER)`, the `store(0)` of `unlock_root`), the `waiter` cell (the
writer's two swaps, the last reader's load), and `park` / `unpark`. `accept` replays such a stream
as a run of the model `Proto/RwLock` — the model whose every reachable state satisfies the
theorems of `Props/C11.lean` / `Props/C12.lean` — and reports the first access at which the real
code does something the model cannot do:

* the value the access found differs from the model's lock word (a change the model does not
  have, or a model change the code does not make);
* the access is not the one the model's thread performs next (a CAS with other operands, an
  `unlock_root` by a thread that does not hold the write lock, a `fetch_add` by a thread that holds
  no read lock, a last reader that does not look at `waiter`, …);
* **two threads are inside `lock_root .. unlock_root` of the same bin at once** — the model has
  one writer because the bin mutex serialises writers; the monitor checks that assumption on the
  real run.

Steps of the model that touch no shared cell (`idle → tryFast`, `decide`, `tree → release`,
`slow → load`) are taken silently. One deviation is tolerated and counted: `park` returning
without a token of this bin (std allows spurious wake-ups, and a token of an earlier wait on
another bin may still be pending); the code re-reads the word in that case, and so does the
replay. -/
namespace Flurry.Proto.RwLockMonitor
open Flurry.Proto.RwLock Flurry.Gen

inductive K where | ld | cas | y | st | fa | wld | wsw | park | unpark
deriving DecidableEq, Repr

structure Ev where
  tid : Nat
  k : K
  a : Int
  b : Int
  seen : Int
deriving Repr

/-- a model state that carries the proof that it is reachable — unless `sp > 0` spurious
wake-ups (which are not model steps) were replayed on the way -/
abbrev RSt (n sp : Nat) := {s : State // sp = 0 → Reachable n s}

structure M (n : Nat) where
  /-- spurious wake-ups replayed so far -/
  spurious : Nat := 0
  s : RSt n spurious
  /-- the thread inside `lock_root .. unlock_root` -/
  wtid : Option Nat := none
  wlocks : Nat := 0
  waits : Nat := 0
  rlocks : Nat := 0
  slow : Nat := 0
  wakes : Nat := 0

def wpcName : WPc → String
  | .idle => "idle" | .tryFast => "tryFast" | .load => "load" | .decide st => s!"decide({st})"
  | .casWriter st => s!"casWriter({st})" | .swapOut => "swapOut" | .casWaiter st => s!"casWaiter({st})"
  | .publish => "publish" | .park => "park" | .hold => "hold"

def rpcName : RPc → String
  | .idle => "idle" | .load => "load" | .decide s => s!"decide({s})" | .slow => "slow"
  | .cas s => s!"cas({s})" | .tree => "tree" | .release => "release" | .loadWaiter => "loadWaiter"
  | .unpark => "unpark"

def kName : K → String
  | .ld => "load" | .cas => "compare_exchange" | .y => "reader-CAS" | .st => "store"
  | .fa => "fetch_add" | .wld => "waiter.load" | .wsw => "waiter.swap" | .park => "park" | .unpark => "unpark"

/-- a writer step that must be enabled -/
def wStep {n sp : Nat} (s : RSt n sp) : Except String (RSt n sp) :=
  match hs : stepWriter s.1 with
  | some s' => .ok ⟨s', fun h => .step .writer false (s.2 h) hs⟩
  | none => .error s!"the model's writer is blocked at {wpcName s.1.wpc}"

def rStep {n sp : Nat} (s : RSt n sp) (i : Nat) (more : Bool) : Except String (RSt n sp) :=
  match hs : stepReader s.1 i more with
  | some s' => .ok ⟨s', fun h => .step (.reader i) more (s.2 h) hs⟩
  | none => .error s!"thread {i} is not a reader of the model"

def seenOk (e : Ev) (s : State) : Except String Unit :=
  if e.seen == s.lockState then .ok ()
  else .error s!"thread {e.tid}'s {kName e.k} finds lock_state = {e.seen}, the model's word is {s.lockState}"

/-- an access of the thread that is (or becomes) the model's writer -/
def writerEv {n : Nat} (m : M n) (e : Ev) : Except String (M n) := do
  -- `decide` touches no shared cell
  let s ← match m.s.1.wpc with
    | .decide _ => wStep m.s
    | _ => pure m.s
  match s.1.wpc, e.k with
  | .idle, .cas =>
    if !(e.a == 0 && e.b == WRITER) then throw s!"lock_root's first CAS is {e.a} -> {e.b}, not 0 -> WRITER"
    seenOk e s.1
    let s1 ← wStep s
    let s2 ← wStep s1
    return { m with s := s2, wtid := some e.tid, wlocks := m.wlocks + (if s2.1.wpc == .hold then 1 else 0) }
  | .load, .ld =>
    seenOk e s.1
    return { m with s := ← wStep s }
  | .casWriter st, .cas =>
    if !(e.a == st && e.b == WRITER) then throw s!"contended_lock's CAS is {e.a} -> {e.b}, the model's is {st} -> WRITER"
    seenOk e s.1
    let s' ← wStep s
    return { m with s := s', wlocks := m.wlocks + (if s'.1.wpc == .hold || s'.1.wpc == .swapOut then 1 else 0) }
  | .casWaiter st, .cas =>
    if !(e.a == st && e.b == st + WAITER) then throw s!"contended_lock's CAS is {e.a} -> {e.b}, the model's is {st} -> {st + WAITER}"
    seenOk e s.1
    let s' ← wStep s
    return { m with s := s', waits := m.waits + (if s'.1.wpc == .publish then 1 else 0) }
  | .swapOut, .wsw =>
    if e.a != 0 then throw "the writer that acquired the lock after waiting swaps a non-null handle into `waiter`"
    return { m with s := ← wStep s }
  | .publish, .wsw =>
    if e.a == 0 then throw "the waiting writer swaps null into `waiter` instead of its handle"
    if (e.seen != 0) != s.1.waiterSet then throw s!"`waiter` holds {e.seen} when the waiting writer publishes its handle, the model has waiterSet = {s.1.waiterSet}"
    return { m with s := ← wStep s }
  | .park, .park =>
    if s.1.token then return { m with s := ← wStep s }
    else
      -- not a model step: the proof of reachability is given up from here on
      return { m with spurious := m.spurious + 1,
                      s := ⟨{ s.1 with wpc := .load }, fun h => absurd h (Nat.succ_ne_zero _)⟩ }
  | .hold, .st =>
    if e.a != 0 then throw s!"unlock_root stores {e.a}"
    seenOk e s.1
    return { m with s := ← wStep s, wtid := none }
  | pc, k => throw s!"writer thread {e.tid} performs {kName k} while the model's writer is at {wpcName pc}"

/-- an access of a reader thread -/
def readerEv {n : Nat} (m : M n) (e : Ev) : Except String (M n) := do
  let t := e.tid
  let pc := (m.s.1.readers[t]?).getD .idle
  match e.k, pc with
  | .ld, .idle =>
    let s1 ← rStep m.s t false
    seenOk e s1.1
    return { m with s := ← rStep s1 t false }
  | .ld, .slow =>
    let s1 ← rStep m.s t true
    seenOk e s1.1
    return { m with s := ← rStep s1 t false }
  | .ld, .load =>                      -- after a failed CAS
    seenOk e m.s.1
    return { m with s := ← rStep m.s t false }
  | .y, .decide st =>
    if e.a != st then throw s!"reader {t} announces a CAS from {e.a}, it loaded {st}"
    if e.b != st + READER then throw s!"reader {t} announces a CAS to {e.b}, not {st} + READER"
    let s1 ← rStep m.s t false
    match (s1.1.readers[t]?).getD .idle with
    | .cas _ =>
      seenOk e s1.1
      let s2 ← rStep s1 t false
      let got := (s2.1.readers[t]?).getD .idle == .tree
      return { m with s := s2, rlocks := m.rlocks + (if got then 1 else 0) }
    | _ => return { m with s := s1, slow := m.slow + 1 }
  | .fa, .tree =>
    if e.a != -READER then throw s!"reader {t} releases with fetch_add({e.a})"
    let s1 ← rStep m.s t false
    seenOk e s1.1
    return { m with s := ← rStep s1 t false }
  | .wld, .loadWaiter =>
    if (e.seen != 0) != m.s.1.waiterSet then throw s!"the last reader finds waiter = {e.seen}, the model has waiterSet = {m.s.1.waiterSet}"
    return { m with s := ← rStep m.s t false }
  | .unpark, .unpark =>
    return { m with s := ← rStep m.s t false, wakes := m.wakes + 1 }
  | k, pc => throw s!"thread {t} performs {kName k} while the model has it at reader pc {rpcName pc}"

def step {n : Nat} (m : M n) (e : Ev) : Except String (M n) :=
  let isW := m.wtid == some e.tid
  let startsW := e.k == .cas
  if isW then writerEv m e
  else if startsW then
    if m.s.1.wpc != .idle then
      .error s!"thread {e.tid} enters lock_root while thread {m.wtid} is at {wpcName m.s.1.wpc}: two writers inside one tree bin (the bin mutex does not serialise them)"
    else writerEv m e
  else match e.k with
    | .st => .error s!"thread {e.tid} stores {e.a} into lock_state without holding the write lock (holder: {m.wtid})"
    | .wsw => .error s!"thread {e.tid} swaps `waiter` without being the waiting writer"
    | .park => .error s!"thread {e.tid} parks without being the waiting writer"
    | _ => readerEv m e

def run {n : Nat} (m : M n) : List Ev → Nat → Except (Nat × String) (M n)
  | [], _ => .ok m
  | e :: es, i =>
    match step m e with
    | .ok m' => run m' es (i + 1)
    | .error msg => .error (i, msg)

def start (n : Nat) : M n := { s := ⟨init n, fun _ => .init⟩ }

/-- **Soundness of acceptance.** Whatever stream was replayed, the state the monitor holds is a
reachable state of `Proto/RwLock` with `n` readers (so every theorem of `Props/C11.lean` /
`Props/C12.lean` applies to it), provided no spurious wake-up was replayed. The proof is carried
by the monitor's state itself: every update of `M.s` is a `stepWriter` / `stepReader` of the
model. -/
theorem accepted_is_reachable {n : Nat} (evs : List Ev) (m : M n)
    (_ : run (start n) evs 0 = .ok m) (hs : m.spurious = 0) : Reachable n m.s.1 :=
  m.s.2 hs

def quietR : RPc → Bool
  | .idle | .slow => true
  | _ => false

def finalCheck {n : Nat} (m : M n) : Except String Unit := do
  let s := m.s.1
  if !(s.wpc == .idle || s.wpc == .hold) then throw s!"at quiescence the writer is at {wpcName s.wpc}"
  if !s.readers.all quietR then throw s!"at quiescence a reader is still inside find ({s.readers.map rpcName})"
  if !(s.lockState == 0 || s.lockState == WRITER) then throw s!"at quiescence lock_state = {s.lockState}"

def accept (nthreads : Nat) (quiescent : Bool) (evs : List Ev) : String :=
  match run (start nthreads) evs 0 with
  | .error (i, msg) => s!"bad@{i}: {msg}"
  | .ok m =>
    let tail := s!"wlocks={m.wlocks} waits={m.waits} rlocks={m.rlocks} slow={m.slow} wakes={m.wakes} spurious={m.spurious}"
    if quiescent then
      match finalCheck m with
      | .ok _ => "ok " ++ tail
      | .error msg => s!"bad@end: {msg}"
    else "ok " ++ tail

end Flurry.Proto.RwLockMonitor
