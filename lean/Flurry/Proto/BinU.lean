import Flurry.Lin
/-! # Proto/BinU: one tree bin after the repairs of F8 and F9, with list readers (C01, C07, C08)

`Proto/BinT` revised (it stays as the model of the lock-protocol readers and of finding F8; this
file is the model of the code as it is now). Differences:

* **insertion of a new key takes the tree's write lock first** (`find_or_put_tree_val` since the
  repair of finding F9): `lock_root`; `first := node` (list); link the node as a leaf (tree);
  rebalance if needed; `unlock_root`. `insLockFirst = false` is the original order (and the JDK's
  `putTreeVal`): `first := node`; link; then lock only to rebalance;
* **list readers**: a reader that never looks at `lock_state` and walks `first → next → …` only.
  This is what an iterator (`NodeIter`), `transfer` and `clear` do with a tree bin. A `get`/`has`
  invoked with `listOnly = true` stands for "the iterator yields key `k`" (or not): a read of the
  key somewhere between the iterator's creation and the yield, exactly the pseudo-operation
  `iterator-yield k` of the harness;
* removal takes the write lock before the list unlink (`rmLockFirst`, the repair of F8), as in
  `Proto/BinT.step`.

With both locks first, list and tree differ only while the write lock is held, and then every
reader that follows the lock protocol is confined to the list: **the list is the truth** — every
writer takes effect at its store to a list cell (or value cell), tree readers hold the read lock,
hence no writer is inside, hence the tree equals the list. To be proved (`Lemmas/BinU*.lean`): for
every reachable quiescent state and key, the calls on that key — lock-protocol readers, list
readers and writers together — are `Lin.Linearizable` from "absent" to the key's abstract state
(`binu_linearizable_quiescent`). With `insLockFirst = false` this is false: `Props/C01BinU.lean`
has a kernel-checked schedule in which a list reader (iterator) finds a key and a `get` invoked
after it returned does not (finding F9). -/
namespace Flurry.Proto.BinU
open Flurry.Lin

structure NodeS where
  key : Nat
  val : Nat × Nat
  next : Option Nat
  /-- is the node linked into the tree -/
  inTree : Bool := false
deriving Repr, DecidableEq

structure Pending where
  key : Nat
  op : KOp
  inv : Nat
deriving Repr, DecidableEq

/-- what a writer does once it holds the tree's write lock -/
inductive After where
  /-- take node `i` out: (if the lock was taken first) unlink it from the list, then from the tree -/
  | remove (i : Nat)
  /-- (lock taken first) publish the new node on the list, link it into the tree, rebalance -/
  | insert
  /-- (original insertion order) the node is already linked: rebalance only -/
  | rebalance
deriving Repr, DecidableEq

inductive Pc where
  | idle
  /-- reader: about to load `first` -/
  | rFirst
  /-- reader standing on list element `cur`: about to load `lock_state` -/
  | rState (cur : Option Nat)
  /-- reader: saw a writer holding / waiting: about to compare `cur`'s key and load its `next` -/
  | rLin (cur : Nat)
  /-- reader: saw `(readers = r)` and no writer / waiter: about to CAS `readers: r → r + 1` -/
  | rCas (cur : Nat) (r : Nat)
  /-- reader: holds the read lock, about to search the tree -/
  | rTree
  /-- reader: about to release the read lock and return / go on to the value -/
  | rRelease (hit : Option Nat)
  /-- reader (`get`): about to load the value cell of node `i` -/
  | rVal (i : Nat)
  /-- list reader: about to load `first` -/
  | lFirst
  /-- list reader standing on element `cur`: about to compare its key and load its `next` -/
  | lNode (cur : Option Nat)
  /-- writer: about to lock the bin's mutex -/
  | wMutex
  /-- writer: holds the mutex, about to search (the structure is stable: one step) -/
  | wFind
  /-- writer: about to store the value cell of `i` -/
  | wVal (i : Nat) (v : Nat × Nat) (res : KRes)
  /-- writer: about to store `first := new node` (allocated with `next = first`) -/
  | wPrepend
  /-- insertion with the write lock already held: about to store `first := new node` -/
  | wPrependLocked
  /-- writer: about to link node `x` into the tree as a leaf -/
  | wTreeLink (x : Nat)
  /-- insertion with the write lock held: about to link node `x` into the tree as a leaf; the
  rebalancing (if any) follows under the same lock -/
  | wTreeLinkLocked (x : Nat)
  /-- writer: about to unlink node `i` from the list -/
  | wListUnlink (i : Nat) (res : KRes)
  /-- removal with the write lock already held: about to unlink node `i` from the list -/
  | wUnlinkLocked (i : Nat) (res : KRes)
  /-- `lock_root`: the first CAS `0 → WRITER`; `k` says what follows under the lock -/
  | lrTry (k : After) (res : KRes)
  /-- `contended_lock` loop -/
  | lrLoop (k : After) (res : KRes)
  /-- holds the write lock: about to restructure the tree (take `some i` out of it / rebalance) -/
  | wRestructure (thenRemove : Option Nat) (res : KRes)
  /-- about to `unlock_root` -/
  | wUnlockRoot (res : KRes)
  /-- about to unlock the mutex and return -/
  | wUnlockM (res : KRes)
deriving Repr, DecidableEq

structure Local where
  pc : Pc := .idle
  call : Option Pending := none
deriving Repr, DecidableEq

structure State where
  heap : List NodeS := []
  first : Option Nat := none
  mutex : Option Nat := none
  writer : Bool := false
  waiter : Bool := false
  readers : Nat := 0
  threads : List Local
  hist : List (Nat × Call) := []
  now : Nat := 0
deriving Repr

def init (nthreads : Nat) : State := { threads := List.replicate nthreads {} }

def isReader : KOp → Bool
  | .get | .has => true
  | _ => false

def dflt : NodeS := ⟨0, (0, 0), none, false⟩

/-- the node of the tree with key `k` (keys in the tree are distinct: invariant) -/
def treeFind (s : State) (k : Nat) : Option Nat :=
  (List.range s.heap.length).find? fun i => (s.heap.getD i dflt).inTree && (s.heap.getD i dflt).key == k

/-- abstract content as the tree sees it -/
def absTree (s : State) (k : Nat) : KSt :=
  match treeFind s k with
  | some i => some (s.heap.getD i dflt).val
  | none => none

def setNode (s : State) (i : Nat) (f : NodeS → NodeS) : State := { s with heap := s.heap.modify i f }
def setT (s : State) (t : Nat) (l : Local) : State := { s with threads := s.threads.set t l }

def finish (s : State) (t : Nat) (p : Pending) (res : KRes) : State :=
  { (setT s t { pc := .idle, call := none }) with
      hist := (p.key, { tid := t, op := p.op, res := res, inv := p.inv, resp := s.now }) :: s.hist }

/-- the nodes reachable from `start` along `next`, in list order (fuel = heap size) -/
def chainFrom (heap : List NodeS) : Nat → Option Nat → List Nat
  | 0, _ => []
  | _, none => []
  | fuel + 1, some i =>
    match heap[i]? with
    | none => []
    | some n => i :: chainFrom heap fuel n.next

def chain (s : State) : List Nat := chainFrom s.heap s.heap.length s.first

/-- abstract content: membership in the **list** (the tree holds the same nodes whenever nobody
holds the write lock: invariant) -/
def absOf (s : State) (k : Nat) : KSt :=
  match (chain s).find? (fun i => (s.heap.getD i dflt).key == k) with
  | some i => some (s.heap.getD i dflt).val
  | none => none

/-- the predecessor of `i` on the live list (`prev` in the code; `none` = `i` is the first node) -/
def predOf (c : List Nat) (i : Nat) : Option Nat :=
  match c with
  | a :: b :: rest => if b == i then some a else predOf (b :: rest) i
  | _ => none

/-- the first action under the write lock -/
def afterLock (rmLockFirst : Bool) (k : After) (res : KRes) : Pc :=
  match k with
  | .remove i => if rmLockFirst then .wUnlinkLocked i res else .wRestructure (some i) res
  | .insert => .wPrependLocked
  | .rebalance => .wRestructure none res

/-- One step of thread `t`. `inv`: the call an idle thread starts; `listOnly`: a read that walks
the list without looking at the lock (iterator); `bal`: whether an insert has to rebalance (its
parent is red) — with the lock taken first this changes nothing visible. `none` = not enabled. -/
def stepG (rmLockFirst insLockFirst : Bool) (s : State) (t : Nat) (inv : Option (Nat × KOp)) (bal : Bool)
    (listOnly : Bool) : Option State :=
  match s.threads[t]? with
  | none => none
  | some l =>
    let s := { s with now := s.now + 1 }
    let upd (pc : Pc) : State := setT s t { l with pc := pc }
    match l.pc, l.call with
    | .idle, _ =>
      match inv with
      | none => some s
      | some (k, op) =>
        some (setT s t { pc := if isReader op then (if listOnly then .lFirst else .rFirst) else .wMutex,
                         call := some ⟨k, op, s.now⟩ })
    -- readers that follow the lock protocol (`TreeBin::find`) --------------------------------
    | .rFirst, some _ => some (upd (.rState s.first))
    | .rState none, some p =>
      some (finish s t p (match p.op with | .has => .bool false | _ => .none))
    | .rState (some c), some _ =>
      if s.writer || s.waiter then some (upd (.rLin c)) else some (upd (.rCas c s.readers))
    | .rLin c, some p =>
      match s.heap[c]? with
      | none => none
      | some n =>
        if n.key == p.key then
          match p.op with
          | .has => some (finish s t p (.bool true))
          | _ => some (upd (.rVal c))
        else some (upd (.rState n.next))
    | .rCas c r, some _ =>
      if !s.writer && !s.waiter && s.readers == r then
        some { (upd .rTree) with readers := s.readers + 1 }
      else some (upd (.rState (some c)))
    | .rTree, some p => some (upd (.rRelease (treeFind s p.key)))
    | .rRelease hit, some p =>
      let s1 := { s with readers := s.readers - 1 }
      match hit, p.op with
      | none, .has => some (finish s1 t p (.bool false))
      | none, _ => some (finish s1 t p .none)
      | some _, .has => some (finish s1 t p (.bool true))
      | some i, _ => some (setT s1 t { l with pc := .rVal i })
    | .rVal i, some p =>
      match s.heap[i]? with
      | none => none
      | some n => some (finish s t p (.some n.val.1 n.val.2))
    -- list readers (iterators): `first`, then `next` by `next`, never the lock ----------------
    | .lFirst, some _ => some (upd (.lNode s.first))
    | .lNode none, some p =>
      some (finish s t p (match p.op with | .has => .bool false | _ => .none))
    | .lNode (some c), some p =>
      match s.heap[c]? with
      | none => none
      | some n =>
        if n.key == p.key then
          match p.op with
          | .has => some (finish s t p (.bool true))
          | _ => some (upd (.rVal c))
        else some (upd (.lNode n.next))
    -- writers ---------------------------------------------------------------------------
    | .wMutex, some _ =>
      if s.mutex.isSome then none else some { (upd .wFind) with mutex := some t }
    | .wFind, some p =>
      let ins : Pc := if insLockFirst then .lrTry .insert .none else .wPrepend
      match p.op, treeFind s p.key with
      | .ins v vi, some i => some (upd (.wVal i (v, vi) (resOf (some (s.heap.getD i dflt).val))))
      | .ins _ _, none => some (upd ins)
      | .tryIns _ _, some i => let x := (s.heap.getD i dflt).val; some (upd (.wUnlockM (.exists_ x.1 x.2)))
      | .tryIns _ _, none => some (upd ins)
      | .rm, some i =>
        let res := resOf (some (s.heap.getD i dflt).val)
        if rmLockFirst then some (upd (.lrTry (.remove i) res)) else some (upd (.wListUnlink i res))
      | .rm, none => some (upd (.wUnlockM .none))
      | .cipInc nvi, some i =>
        let x := (s.heap.getD i dflt).val
        some (upd (.wVal i (x.1 + 1, nvi) (.some (x.1 + 1) nvi)))
      | .cipInc _, none => some (upd (.wUnlockM .none))
      | .cipRm, some i =>
        if rmLockFirst then some (upd (.lrTry (.remove i) .none)) else some (upd (.wListUnlink i .none))
      | .cipRm, none => some (upd (.wUnlockM .none))
      | .get, _ => none
      | .has, _ => none
    | .wVal i v res, some _ => some (setT (setNode s i (fun n => { n with val := v })) t { l with pc := .wUnlockM res })
    -- original insertion order: list, tree, then (only to rebalance) the lock
    | .wPrepend, some p =>
      match p.op with
      | .ins v vi | .tryIns v vi =>
        let x := s.heap.length
        some (setT { s with heap := s.heap ++ [⟨p.key, (v, vi), s.first, false⟩], first := some x } t
                { l with pc := .wTreeLink x })
      | _ => none
    | .wTreeLink x, some _ =>
      let s1 := setNode s x (fun n => { n with inTree := true })
      if bal then some (setT s1 t { l with pc := .lrTry .rebalance .none })
      else some (setT s1 t { l with pc := .wUnlockM .none })
    -- repaired insertion order: the lock is held
    | .wPrependLocked, some p =>
      match p.op with
      | .ins v vi | .tryIns v vi =>
        let x := s.heap.length
        some (setT { s with heap := s.heap ++ [⟨p.key, (v, vi), s.first, false⟩], first := some x } t
                { l with pc := .wTreeLinkLocked x })
      | _ => none
    | .wTreeLinkLocked x, some _ =>
      let s1 := setNode s x (fun n => { n with inTree := true })
      -- `red := true` or `balance_insertion`: tree-internal, nothing a reader of this model sees
      some (setT s1 t { l with pc := .wUnlockRoot .none })
    | .wListUnlink i res, some _ =>
      let n := s.heap.getD i dflt
      let s1 := match predOf (chain s) i with
        | some pr => setNode s pr (fun m => { m with next := n.next })
        | none => { s with first := n.next }
      some (setT s1 t { l with pc := .lrTry (.remove i) res })
    | .wUnlinkLocked i res, some _ =>
      let n := s.heap.getD i dflt
      let s1 := match predOf (chain s) i with
        | some pr => setNode s pr (fun m => { m with next := n.next })
        | none => { s with first := n.next }
      some (setT s1 t { l with pc := .wRestructure (some i) res })
    | .lrTry k res, some _ =>
      if !s.writer && !s.waiter && s.readers == 0 then
        some { (upd (afterLock rmLockFirst k res)) with writer := true }
      else some (upd (.lrLoop k res))
    | .lrLoop k res, some _ =>
      if !s.writer && s.readers == 0 then
        some { (upd (afterLock rmLockFirst k res)) with writer := true, waiter := false }
      else if !s.waiter then some { (upd (.lrLoop k res)) with waiter := true }
      else none                                   -- parked until the last reader leaves
    | .wRestructure rmv res, some _ =>
      match rmv with
      | some i => some (setT (setNode s i (fun n => { n with inTree := false })) t { l with pc := .wUnlockRoot res })
      | none => some (upd (.wUnlockRoot res))
    | .wUnlockRoot res, some _ => some { (upd (.wUnlockM res)) with writer := false, waiter := false }
    | .wUnlockM res, some p => some (finish { s with mutex := none } t p res)
    | _, none => none

/-- the model: both writers take the write lock before their first store to a list cell (the code
after the repairs of F8 and F9) -/
def step (s : State) (t : Nat) (inv : Option (Nat × KOp)) (bal listOnly : Bool) : Option State :=
  stepG true true s t inv bal listOnly

/-- the insertion order before the repair of F9 (and the JDK's `putTreeVal`): the new node is on
the list before it is in the tree, and no lock is held in between -/
def stepF8 (s : State) (t : Nat) (inv : Option (Nat × KOp)) (bal listOnly : Bool) : Option State :=
  stepG true false s t inv bal listOnly

inductive Reachable (nthreads : Nat) : State → Prop
  | init : Reachable nthreads (init nthreads)
  | step {s s' : State} (t : Nat) (inv : Option (Nat × KOp)) (bal listOnly : Bool) :
      Reachable nthreads s → step s t inv bal listOnly = some s' → Reachable nthreads s'

inductive ReachableF8 (nthreads : Nat) : State → Prop
  | init : ReachableF8 nthreads (init nthreads)
  | step {s s' : State} (t : Nat) (inv : Option (Nat × KOp)) (bal listOnly : Bool) :
      ReachableF8 nthreads s → stepF8 s t inv bal listOnly = some s' → ReachableF8 nthreads s'

def callsOn (s : State) (k : Nat) : History :=
  (s.hist.filter (·.1 == k)).reverse.map (·.2)

def quiescent (s : State) : Prop := ∀ l ∈ s.threads, l.pc = .idle

end Flurry.Proto.BinU
