import Flurry.Proto.BinG
/-! # Proto/BinGN: one bin lineage with list AND tree bins through ANY NUMBER of successive resizes
(C01, C05, C07, C08, C10)

The union of `Proto/BinG` (per cell: empty / list bin / tree bin / forwarding marker; treeify,
untreeify, tree writers with the bin mutex + write lock + WAITER / park, lock-protocol readers, list
readers / iterators; the transfer of an empty, a list and a tree bin) and `Proto/BinN` (the generation
structure: the cells of generation `g` are `(g, j)`, `j < 2^g`; key `k` belongs to `(g, k % 2^g)`; the
children of `(g, j)` are `(g+1, j)` (low) and `(g+1, j + 2^g)` (high); a key goes high iff its bit `g`
is set; one resizing thread per generation, the cells in any order, commit when all are forwarded):

* every operation loads the table pointer `cur` (a generation), then the cell of its key in that
  generation; on `moved` readers, writers and treeify go on to generation `g + 1` — again and again;
* an idle thread may start a resize when none is running: it allocates generation `cur + 1` (all
  `empty`), then transfers the cells `(cur, j)` one at a time in any order (`pick`), per cell exactly
  `Proto/BinG`'s transfer with the split bit `bitAt cur`:
  - empty: CAS `empty → moved`;
  - list bin: lock the head, re-check, split with the last run re-used and the nodes before it copied
    and prepended, store low, store high, store `moved`, unlock;
  - tree bin: lock the bin's mutex, re-check, copy every node of the (stable) list into a fresh node of
    its side; per side: nothing → `empty`; `small` → a plain list of fresh nodes; else, if the other
    side is empty → **the old `TreeBin` object itself is re-used** (it may be re-used again by the
    next resize, and again …); else → a fresh `TreeBin`; store low, store high, store `moved`,
    unlock the mutex;
  when all `2^cur` cells are `moved`: commit `cur := cur + 1`, `resizing := false`.

Nodes, `TreeBin` objects, pending calls and the list primitives are those of `Proto/BinK` (as in
`Proto/BinG`); `Cell` is `BinG.Cell`. -/
namespace Flurry.Proto.BinGN
open Flurry.Lin
export Flurry.Proto.BinK (NodeS TBin Pending After isReader dflt dfltB chainFrom copyChain predOf absentRes)
export Flurry.Proto.BinG (Cell cellOfHead)

inductive Pc where
  | idle
  -- readers ------------------------------------------------------------------------------
  | rTable (listOnly : Bool)
  /-- about to load the cell of its key in generation `g` -/
  | rCell (listOnly : Bool) (g : Nat)
  | rNode (cur : Option Nat)
  | rFirst (b : Nat)
  | rState (b : Nat) (cur : Option Nat)
  | rLin (b : Nat) (cur : Nat)
  | rCas (b : Nat) (cur : Nat) (r : Nat)
  | rTree (b : Nat)
  | rRelease (b : Nat) (hit : Option Nat)
  | rVal (i : Nat)
  | lFirst (b : Nat)
  | lNode (cur : Option Nat)
  -- writers, list form ---------------------------------------------------------------------
  | wTable
  | wCell (g : Nat)
  | wCas (g : Nat)
  | wLock (g : Nat) (h : Nat)
  | wCheck (g : Nat) (h : Nat)
  | wFind (g : Nat) (h : Nat) (pred : Option Nat) (cur : Option Nat)
  | wStore (g : Nat) (h : Nat) (pred : Option Nat) (hit : Option Nat) (hnext : Option Nat)
  | wUnlock (g : Nat) (h : Nat) (res : KRes) (retry : Bool)
  -- writers, tree form ---------------------------------------------------------------------
  | tMutex (g : Nat) (b : Nat)
  | tCheck (g : Nat) (b : Nat)
  | tFind (g : Nat) (b : Nat)
  | tVal (g : Nat) (b : Nat) (i : Nat) (v : Nat × Nat) (res : KRes)
  | lrTry (g : Nat) (b : Nat) (k : After) (res : KRes)
  | lrLoop (g : Nat) (b : Nat) (k : After) (res : KRes)
  | tPrependLocked (g : Nat) (b : Nat)
  | tTreeLinkLocked (g : Nat) (b : Nat) (x : Nat)
  | tUnlinkLocked (g : Nat) (b : Nat) (i : Nat) (res : KRes)
  | tRestructure (g : Nat) (b : Nat) (i : Nat) (res : KRes)
  | tUnlockRoot (g : Nat) (b : Nat) (res : KRes)
  | tUntreeify (g : Nat) (b : Nat) (res : KRes)
  | tUnlockM (g : Nat) (b : Nat) (res : KRes) (retry : Bool)
  -- treeify of the cell of key `k` in generation `g` (a thread without a call in flight) -------
  | kTable (k : Nat)
  | kCell (g : Nat) (k : Nat)
  | kLock (g : Nat) (k : Nat) (h : Nat)
  | kCheck (g : Nat) (k : Nat) (h : Nat)
  | kBuild (g : Nat) (k : Nat) (h : Nat)
  | kStore (g : Nat) (k : Nat) (h : Nat) (b : Nat)
  | kUnlock (h : Nat)
  -- the resizing thread of generation `cur` (no call in flight) --------------------------------
  /-- about to choose the next cell to transfer (or to commit when all are forwarded) -/
  | xNext
  /-- about to load cell `(cur, j)` -/
  | xCell (j : Nat)
  | xCasMoved (j : Nat)
  | xLock (j : Nat) (h : Nat)
  | xCheck (j : Nat) (h : Nat)
  | xBuild (j : Nat) (h : Nat)
  | yMutex (j : Nat) (b : Nat)
  | yCheck (j : Nat) (b : Nat)
  | yBuild (j : Nat) (b : Nat)
  /-- about to store the low child `(cur+1, j)`; `unl`: what to unlock at the end
  (`inl h`: the head lock of list node `h`, `inr b`: the mutex of tree bin `b`) -/
  | xStoreLow (j : Nat) (unl : Nat ⊕ Nat) (low high : Cell)
  | xStoreHigh (j : Nat) (unl : Nat ⊕ Nat) (high : Cell)
  | xStoreMoved (j : Nat) (unl : Nat ⊕ Nat)
  | xUnlock (unl : Nat ⊕ Nat)
  | xCommit
deriving Repr, DecidableEq

structure Local where
  pc : Pc := .idle
  call : Option Pending := none
deriving Repr, DecidableEq

structure State where
  heap : List NodeS := []
  tbins : List TBin := []
  /-- `tabs[g]` = the cells of generation `g` (there are `2^g`) -/
  tabs : List (List Cell) := [[.empty]]
  /-- the generation of the table pointer -/
  cur : Nat := 0
  /-- generation `cur + 1` is allocated and being filled -/
  resizing : Bool := false
  threads : List Local
  hist : List (Nat × Call) := []
  now : Nat := 0
deriving Repr

def init (nthreads : Nat) : State := { threads := List.replicate nthreads {} }

/-- the split bit of generation `g` -/
def bitAt (g k : Nat) : Bool := (k / 2 ^ g) % 2 == 1

/-- cell `(g, j)`; a cell that does not exist reads as `empty` -/
def cellAt (s : State) (g j : Nat) : Cell := (s.tabs.getD g []).getD j .empty

/-- the cell of key `k` in generation `g` -/
def cellOf (s : State) (g k : Nat) : Cell := cellAt s g (k % 2 ^ g)

def putCell (s : State) (g j : Nat) (c : Cell) : State :=
  { s with tabs := s.tabs.modify g (fun row => row.set j c) }

def setCell (s : State) (g k : Nat) (c : Cell) : State := putCell s g (k % 2 ^ g) c

/-- the list of tree bin `b` -/
def chainOfBin (s : State) (b : Nat) : List Nat := chainFrom s.heap s.heap.length (s.tbins.getD b dfltB).first

/-- the list of the structure a cell holds -/
def chainOfCell (s : State) (c : Cell) : List Nat :=
  match c with
  | .list h => chainFrom s.heap s.heap.length (some h)
  | .tree b => chainOfBin s b
  | _ => []

/-- follow the forwarding markers from generation `g` -/
def liveFrom (s : State) (k : Nat) : Nat → Nat → Cell
  | 0, g => cellOf s g k
  | fuel + 1, g =>
    match cellOf s g k with
    | .moved => liveFrom s k fuel (g + 1)
    | c => c

/-- the cell a lookup of `k` started now ends in -/
def liveCell (s : State) (k : Nat) : Cell := liveFrom s k s.tabs.length s.cur

/-- abstract content: the first node with the key on the live list -/
def absOf (s : State) (k : Nat) : KSt :=
  match (chainOfCell s (liveCell s k)).find? (fun i => (s.heap.getD i dflt).key == k) with
  | some i => some (s.heap.getD i dflt).val
  | none => none

/-- the node of tree bin `b`'s tree with key `k` -/
def treeFind (s : State) (b : Nat) (k : Nat) : Option Nat :=
  (List.range s.heap.length).find? fun i =>
    let n := s.heap.getD i dflt
    n.owner == some b && n.inTree && n.key == k

def setNode (s : State) (i : Nat) (f : NodeS → NodeS) : State := { s with heap := s.heap.modify i f }
def setBin (s : State) (b : Nat) (f : TBin → TBin) : State := { s with tbins := s.tbins.modify b f }
def setT (s : State) (t : Nat) (l : Local) : State := { s with threads := s.threads.set t l }

def finish (s : State) (t : Nat) (p : Pending) (res : KRes) : State :=
  { (setT s t { pc := .idle, call := none }) with
      hist := (p.key, { tid := t, op := p.op, res := res, inv := p.inv, resp := s.now }) :: s.hist }

/-- the single store of a list-bin writer in the cell of its key in generation `g` -/
def storeAt (s : State) (g : Nat) (p : Pending) (pred hit hnext : Option Nat) : State × KRes :=
  let append (v vi : Nat) : State :=
    let newIdx := s.heap.length
    let s1 := { s with heap := s.heap ++ [⟨p.key, (v, vi), none, none, false, none⟩] }
    match pred with
    | some l => setNode s1 l (fun n => { n with next := some newIdx })
    | none => setCell s1 g p.key (.list newIdx)
  let unlink : State :=
    match pred with
    | some pr => setNode s pr (fun m => { m with next := hnext })
    | none => setCell s g p.key (match hnext with | some x => .list x | none => .empty)
  match p.op, hit with
  | .ins v vi, some i => (setNode s i (fun n => { n with val := (v, vi) }), resOf (some (s.heap.getD i dflt).val))
  | .ins v vi, none => (append v vi, .none)
  | .tryIns _ _, some i => let x := (s.heap.getD i dflt).val; (s, .exists_ x.1 x.2)
  | .tryIns v vi, none => (append v vi, .none)
  | .rm, some i => (unlink, resOf (some (s.heap.getD i dflt).val))
  | .rm, none => (s, .none)
  | .cipInc nvi, some i =>
    let n := s.heap.getD i dflt
    (setNode s i (fun m => { m with val := (n.val.1 + 1, nvi) }), .some (n.val.1 + 1) nvi)
  | .cipInc _, none => (s, .none)
  | .cipRm, some _ => (unlink, .none)
  | .cipRm, none => (s, .none)
  | .get, _ => (s, .none)
  | .has, _ => (s, .none)

/-- `BinG.lastRunStart` with the split bit as a parameter -/
def lastRunStartB (bit : Nat → Bool) (heap : List NodeS) (c : List Nat) : Nat :=
  let bits := c.map fun i => bit (heap.getD i dflt).key
  match bits.getLast? with
  | none => 0
  | some b => c.length - (bits.reverse.takeWhile (· == b)).length

/-- `BinG.splitBin` with the split bit as a parameter -/
def splitBinB (bit : Nat → Bool) (heap : List NodeS) (c : List Nat) : List NodeS × Option Nat × Option Nat :=
  let k := lastRunStartB bit heap c
  let run := c.drop k
  let runBit := match run.head? with | some i => bit (heap.getD i dflt).key | none => false
  let low0 : Option Nat := if runBit then none else run.head?
  let high0 : Option Nat := if runBit then run.head? else none
  (c.take k).foldl
    (fun (acc : List NodeS × Option Nat × Option Nat) i =>
      let (hp, lo, hg) := acc
      let n := hp.getD i dflt
      let idx := hp.length
      if bit n.key then (hp ++ [⟨n.key, n.val, hg, none, false, none⟩], lo, some idx)
      else (hp ++ [⟨n.key, n.val, lo, none, false, none⟩], some idx, hg))
    (heap, low0, high0)

theorem splitBinB_hiBit (heap : List NodeS) (c : List Nat) :
    splitBinB BinG.hiBit heap c = BinG.splitBin heap c := rfl

/-- one side of the split of tree bin `b` (exactly `BinG.splitSide`, on this state type) -/
def splitSide (s : State) (b : Nat) (c : List Nat) (small reuse : Bool) : State × Cell :=
  if c.isEmpty then (s, .empty)
  else if small then
    let (hp, h) := copyChain s.heap c (fun src nx => ⟨src.key, src.val, nx, none, false, none⟩)
    ({ s with heap := hp }, cellOfHead h)
  else if reuse then (s, .tree b)
  else
    let b' := s.tbins.length
    let (hp, f) := copyChain s.heap c (fun src nx => ⟨src.key, src.val, nx, none, true, some b'⟩)
    ({ s with heap := hp, tbins := s.tbins ++ [{ first := f }] }, .tree b')

def afterLock (g : Nat) (b : Nat) (k : After) (res : KRes) : Pc :=
  match k with
  | .remove i => .tUnlinkLocked g b i res
  | .insert => .tPrependLocked g b

/-- every cell of generation `g` is forwarded -/
def allMoved (s : State) (g : Nat) : Bool := (s.tabs.getD g []).all (· == .moved)

/-- One step of thread `t`. `inv`: the call an idle thread starts; `listOnly`: that call is an
iterator's read; `maint = some k`: an idle thread starts a treeify of the cell of key `k`;
`resize`: an idle thread starts a resize (if none is running); `small`, `small2`: size decisions
(untreeify after a removal; list-or-tree for the low / high side of a tree-bin split); `pick`: the
cell the resizing thread turns to. `none` = not enabled. -/
def stepG (recheck : Bool) (s : State) (t : Nat) (inv : Option (Nat × KOp)) (listOnly : Bool)
    (maint : Option Nat) (resize small small2 : Bool) (pick : Nat) : Option State :=
  match s.threads[t]? with
  | none => none
  | some l =>
    let s := { s with now := s.now + 1 }
    let upd (pc : Pc) : State := setT s t { l with pc := pc }
    let bin (b : Nat) : TBin := s.tbins.getD b dfltB
    match l.pc, l.call with
    | .idle, _ =>
      if resize then
        if s.resizing then some s
        else some { (upd .xNext) with resizing := true, tabs := s.tabs ++ [List.replicate (2 ^ (s.cur + 1)) .empty] }
      else
        match maint with
        | some k => some (upd (.kTable k))
        | none =>
          match inv with
          | none => some s
          | some (k, op) =>
            some (setT s t { pc := if isReader op then .rTable listOnly else .wTable, call := some ⟨k, op, s.now⟩ })
    -- readers: table, cell, dispatch on the kind of bin -------------------------------------
    | .rTable lo, some _ => some (upd (.rCell lo s.cur))
    | .rCell lo g, some p =>
      match cellOf s g p.key with
      | .empty => some (finish s t p (absentRes p.op))
      | .moved => some (upd (.rCell lo (g + 1)))
      | .list h => some (upd (.rNode (some h)))
      | .tree b => some (upd (if lo then .lFirst b else .rFirst b))
    | .rNode none, some p => some (finish s t p (absentRes p.op))
    | .rNode (some c), some p =>
      match s.heap[c]? with
      | none => none
      | some n =>
        if n.key == p.key then
          some (finish s t p (match p.op with | .has => .bool true | _ => .some n.val.1 n.val.2))
        else some (upd (.rNode n.next))
    | .rFirst b, some _ => some (upd (.rState b (bin b).first))
    | .rState _ none, some p => some (finish s t p (absentRes p.op))
    | .rState b (some c), some _ =>
      if (bin b).writer || (bin b).waiter then some (upd (.rLin b c)) else some (upd (.rCas b c (bin b).readers))
    | .rLin b c, some p =>
      match s.heap[c]? with
      | none => none
      | some n =>
        if n.key == p.key then
          match p.op with
          | .has => some (finish s t p (.bool true))
          | _ => some (upd (.rVal c))
        else some (upd (.rState b n.next))
    | .rCas b c r, some _ =>
      if !(bin b).writer && !(bin b).waiter && (bin b).readers == r then
        some (setT (setBin s b (fun x => { x with readers := x.readers + 1 })) t { l with pc := .rTree b })
      else some (upd (.rState b (some c)))
    | .rTree b, some p => some (upd (.rRelease b (treeFind s b p.key)))
    | .rRelease b hit, some p =>
      let s1 := setBin s b (fun x => { x with readers := x.readers - 1 })
      match hit, p.op with
      | none, _ => some (finish s1 t p (absentRes p.op))
      | some _, .has => some (finish s1 t p (.bool true))
      | some i, _ => some (setT s1 t { l with pc := .rVal i })
    | .rVal i, some p =>
      match s.heap[i]? with
      | none => none
      | some n => some (finish s t p (.some n.val.1 n.val.2))
    | .lFirst b, some _ => some (upd (.lNode (bin b).first))
    | .lNode none, some p => some (finish s t p (absentRes p.op))
    | .lNode (some c), some p =>
      match s.heap[c]? with
      | none => none
      | some n =>
        if n.key == p.key then
          match p.op with
          | .has => some (finish s t p (.bool true))
          | _ => some (upd (.rVal c))
        else some (upd (.lNode n.next))
    -- writers: table, cell, dispatch ---------------------------------------------------------
    | .wTable, some _ => some (upd (.wCell s.cur))
    | .wCell g, some p =>
      match cellOf s g p.key with
      | .empty =>
        match p.op with
        | .ins _ _ | .tryIns _ _ => some (upd (.wCas g))
        | _ => some (finish s t p .none)
      | .moved => some (upd (.wCell (g + 1)))          -- help_transfer: continue in the next table
      | .list h => some (upd (.wLock g h))
      | .tree b => some (upd (.tMutex g b))
    | .wCas g, some p =>
      match cellOf s g p.key, p.op with
      | .empty, .ins v vi | .empty, .tryIns v vi =>
        let newIdx := s.heap.length
        some (finish (setCell { s with heap := s.heap ++ [⟨p.key, (v, vi), none, none, false, none⟩] } g p.key (.list newIdx)) t p .none)
      | _, _ => some (upd (.wCell g))
    | .wLock g h, some _ =>
      match s.heap[h]? with
      | none => none
      | some n =>
        if n.lock.isSome then none
        else some (setT (setNode s h (fun m => { m with lock := some t })) t { l with pc := .wCheck g h })
    | .wCheck g h, some p =>
      if !recheck || cellOf s g p.key == .list h then some (upd (.wFind g h none (some h)))
      else some (upd (.wUnlock g h .none true))
    | .wFind g h pred cur, some p =>
      match cur with
      | none => some (upd (.wStore g h pred none none))
      | some c =>
        match s.heap[c]? with
        | none => none
        | some n =>
          if n.key == p.key then some (upd (.wStore g h pred (some c) n.next))
          else some (upd (.wFind g h (some c) n.next))
    | .wStore g h pred hit hnext, some p =>
      let (s', res) := storeAt s g p pred hit hnext
      some (setT s' t { l with pc := .wUnlock g h res false })
    | .wUnlock g h res retry, some p =>
      let s1 := setNode s h (fun m => { m with lock := none })
      if retry then some (setT s1 t { l with pc := .wCell g }) else some (finish s1 t p res)
    -- tree form
    | .tMutex g b, some _ =>
      if (bin b).mutex.isSome then none
      else some (setT (setBin s b (fun x => { x with mutex := some t })) t { l with pc := .tCheck g b })
    | .tCheck g b, some p =>
      if !recheck || cellOf s g p.key == .tree b then some (upd (.tFind g b))
      else some (upd (.tUnlockM g b .none true))
    | .tFind g b, some p =>
      match p.op, treeFind s b p.key with
      | .ins v vi, some i => some (upd (.tVal g b i (v, vi) (resOf (some (s.heap.getD i dflt).val))))
      | .ins _ _, none => some (upd (.lrTry g b .insert .none))
      | .tryIns _ _, some i => let x := (s.heap.getD i dflt).val; some (upd (.tUnlockM g b (.exists_ x.1 x.2) false))
      | .tryIns _ _, none => some (upd (.lrTry g b .insert .none))
      | .rm, some i => some (upd (.lrTry g b (.remove i) (resOf (some (s.heap.getD i dflt).val))))
      | .rm, none => some (upd (.tUnlockM g b .none false))
      | .cipInc nvi, some i =>
        let x := (s.heap.getD i dflt).val
        some (upd (.tVal g b i (x.1 + 1, nvi) (.some (x.1 + 1) nvi)))
      | .cipInc _, none => some (upd (.tUnlockM g b .none false))
      | .cipRm, some i => some (upd (.lrTry g b (.remove i) .none))
      | .cipRm, none => some (upd (.tUnlockM g b .none false))
      | .get, _ => none
      | .has, _ => none
    | .tVal g b i v res, some _ =>
      some (setT (setNode s i (fun n => { n with val := v })) t { l with pc := .tUnlockM g b res false })
    | .lrTry g b k res, some _ =>
      if !(bin b).writer && !(bin b).waiter && (bin b).readers == 0 then
        some (setT (setBin s b (fun x => { x with writer := true })) t { l with pc := afterLock g b k res })
      else some (upd (.lrLoop g b k res))
    | .lrLoop g b k res, some _ =>
      if !(bin b).writer && (bin b).readers == 0 then
        some (setT (setBin s b (fun x => { x with writer := true, waiter := false })) t { l with pc := afterLock g b k res })
      else if !(bin b).waiter then some (setT (setBin s b (fun x => { x with waiter := true })) t { l with pc := .lrLoop g b k res })
      else none
    | .tPrependLocked g b, some p =>
      match p.op with
      | .ins v vi | .tryIns v vi =>
        let x := s.heap.length
        let s1 := { s with heap := s.heap ++ [⟨p.key, (v, vi), (bin b).first, none, false, some b⟩] }
        some (setT (setBin s1 b (fun y => { y with first := some x })) t { l with pc := .tTreeLinkLocked g b x })
      | _ => none
    | .tTreeLinkLocked g b x, some _ =>
      some (setT (setNode s x (fun n => { n with inTree := true })) t { l with pc := .tUnlockRoot g b .none })
    | .tUnlinkLocked g b i res, some _ =>
      let n := s.heap.getD i dflt
      let s1 := match predOf (chainOfBin s b) i with
        | some pr => setNode s pr (fun m => { m with next := n.next })
        | none => setBin s b (fun y => { y with first := n.next })
      some (setT s1 t { l with pc := if small then .tUntreeify g b res else .tRestructure g b i res })
    | .tRestructure g b i res, some _ =>
      some (setT (setNode s i (fun n => { n with inTree := false })) t { l with pc := .tUnlockRoot g b res })
    | .tUnlockRoot g b res, some _ =>
      some (setT (setBin s b (fun x => { x with writer := false, waiter := false })) t { l with pc := .tUnlockM g b res false })
    | .tUntreeify g b res, some p =>
      let (hp, h') := copyChain s.heap (chainOfBin s b) (fun src nx => ⟨src.key, src.val, nx, none, false, none⟩)
      some (setT (setCell { s with heap := hp } g p.key (cellOfHead h')) t { l with pc := .tUnlockM g b res false })
    | .tUnlockM g b res retry, some p =>
      let s1 := setBin s b (fun x => { x with mutex := none })
      if retry then some (setT s1 t { l with pc := .wCell g }) else some (finish s1 t p res)
    -- treeify of the cell of key `k` (no call in flight) ----------------------------------------
    | .kTable k, none => some (upd (.kCell s.cur k))
    | .kCell g k, none =>
      match cellOf s g k with
      | .list h => some (upd (.kLock g k h))
      | .moved => some (upd (.kCell (g + 1) k))
      | _ => some (upd .idle)
    | .kLock g k h, none =>
      match s.heap[h]? with
      | none => none
      | some n =>
        if n.lock.isSome then none
        else some (setT (setNode s h (fun m => { m with lock := some t })) t { l with pc := .kCheck g k h })
    | .kCheck g k h, none =>
      if !recheck || cellOf s g k == .list h then some (upd (.kBuild g k h))
      else some (upd (.kUnlock h))
    | .kBuild g k h, none =>
      let b := s.tbins.length
      let (hp, f) := copyChain s.heap (chainFrom s.heap s.heap.length (some h))
        (fun src nx => ⟨src.key, src.val, nx, none, true, some b⟩)
      some (setT { s with heap := hp, tbins := s.tbins ++ [{ first := f }] } t { l with pc := .kStore g k h b })
    | .kStore g k h b, none => some (setT (setCell s g k (.tree b)) t { l with pc := .kUnlock h })
    | .kUnlock h, none =>
      some (setT (setNode s h (fun m => { m with lock := none })) t { l with pc := .idle })
    -- the resizing thread of generation `cur` ----------------------------------------------------
    | .xNext, none =>
      if allMoved s s.cur then some (upd .xCommit) else some (upd (.xCell (pick % 2 ^ s.cur)))
    | .xCell j, none =>
      match cellAt s s.cur j with
      | .empty => some (upd (.xCasMoved j))
      | .list h => some (upd (.xLock j h))
      | .tree b => some (upd (.yMutex j b))
      | .moved => some (upd .xNext)
    | .xCasMoved j, none =>
      if cellAt s s.cur j == .empty then some (putCell (upd .xNext) s.cur j .moved) else some (upd (.xCell j))
    | .xLock j h, none =>
      match s.heap[h]? with
      | none => none
      | some n =>
        if n.lock.isSome then none
        else some (setT (setNode s h (fun m => { m with lock := some t })) t { l with pc := .xCheck j h })
    | .xCheck j h, none =>
      if !recheck || cellAt s s.cur j == .list h then some (upd (.xBuild j h))
      else some (setT (setNode s h (fun m => { m with lock := none })) t { l with pc := .xCell j })
    | .xBuild j h, none =>
      let c := chainFrom s.heap s.heap.length (some h)
      let (hp, lo, hg) := splitBinB (bitAt s.cur) s.heap c
      some (setT { s with heap := hp } t { l with pc := .xStoreLow j (.inl h) (cellOfHead lo) (cellOfHead hg) })
    | .yMutex j b, none =>
      if (bin b).mutex.isSome then none
      else some (setT (setBin s b (fun x => { x with mutex := some t })) t { l with pc := .yCheck j b })
    | .yCheck j b, none =>
      if !recheck || cellAt s s.cur j == .tree b then some (upd (.yBuild j b))
      else some (setT (setBin s b (fun x => { x with mutex := none })) t { l with pc := .xCell j })
    | .yBuild j b, none =>
      let c := chainOfBin s b
      let cLo := c.filter fun i => !bitAt s.cur (s.heap.getD i dflt).key
      let cHi := c.filter fun i => bitAt s.cur (s.heap.getD i dflt).key
      let (s1, lo) := splitSide s b cLo small cHi.isEmpty
      let (s2, hi) := splitSide s1 b cHi small2 cLo.isEmpty
      some (setT s2 t { l with pc := .xStoreLow j (.inr b) lo hi })
    | .xStoreLow j unl lo hi, none => some (putCell (upd (.xStoreHigh j unl hi)) (s.cur + 1) j lo)
    | .xStoreHigh j unl hi, none => some (putCell (upd (.xStoreMoved j unl)) (s.cur + 1) (j + 2 ^ s.cur) hi)
    | .xStoreMoved j unl, none => some (putCell (upd (.xUnlock unl)) s.cur j .moved)
    | .xUnlock unl, none =>
      match unl with
      | .inl h => some (setT (setNode s h (fun m => { m with lock := none })) t { l with pc := .xNext })
      | .inr b => some (setT (setBin s b (fun x => { x with mutex := none })) t { l with pc := .xNext })
    | .xCommit, none => some { (upd .idle) with cur := s.cur + 1, resizing := false }
    | _, _ => none

def step (s : State) (t : Nat) (inv : Option (Nat × KOp)) (listOnly : Bool) (maint : Option Nat)
    (resize small small2 : Bool) (pick : Nat) : Option State :=
  stepG true s t inv listOnly maint resize small small2 pick

/-- writers, treeify and transfer that trust the lock they took without re-reading the cell -/
def stepNoCheck (s : State) (t : Nat) (inv : Option (Nat × KOp)) (listOnly : Bool) (maint : Option Nat)
    (resize small small2 : Bool) (pick : Nat) : Option State :=
  stepG false s t inv listOnly maint resize small small2 pick

inductive Reachable (nthreads : Nat) : State → Prop
  | init : Reachable nthreads (init nthreads)
  | step {s s' : State} (t : Nat) (inv : Option (Nat × KOp)) (listOnly : Bool) (maint : Option Nat)
      (resize small small2 : Bool) (pick : Nat) :
      Reachable nthreads s → step s t inv listOnly maint resize small small2 pick = some s' → Reachable nthreads s'

inductive ReachableNoCheck (nthreads : Nat) : State → Prop
  | init : ReachableNoCheck nthreads (init nthreads)
  | step {s s' : State} (t : Nat) (inv : Option (Nat × KOp)) (listOnly : Bool) (maint : Option Nat)
      (resize small small2 : Bool) (pick : Nat) :
      ReachableNoCheck nthreads s → stepNoCheck s t inv listOnly maint resize small small2 pick = some s' →
      ReachableNoCheck nthreads s'

def callsOn (s : State) (k : Nat) : History :=
  (s.hist.filter (·.1 == k)).reverse.map (·.2)

def quiescent (s : State) : Prop := ∀ l ∈ s.threads, l.pc = .idle

end Flurry.Proto.BinGN
