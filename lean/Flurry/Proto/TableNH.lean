import Flurry.Proto.BinNH
import Flurry.Proto.TableN
import Flurry.LinMap
/-! # Proto/TableNH: a whole table through ANY NUMBER of COOPERATIVE resizes (C01, C08, C10)

`Proto/TableN` with `Proto/BinNH` lineages instead of `Proto/BinN` lineages: `m` bin *lineages*, each a
`Proto/BinNH` lineage — bin `i` of the initial table (length `m`) and everything it is split into, resize
after resize, each resize of a lineage done by ANY NUMBER of resizing threads (the initiator and helpers; on
different cells or on the same cell; suspended anywhere; leaving; any of them committing once every cell of
the lineage is forwarded; stale helpers resuming harmlessly). Lineage `i` at generation `g` has the cells
`(g, j)`, `j < 2^g`; cell `(g, j)` of lineage `i` is bin `i + m * j` of the table of length `m * 2^g`.

The key translation is that of `Proto/TableN` (its `lineageOf`, `localKey`, `globalKey`, `binIndex` are used
as they are): the hash is the key, key `k` lives in lineage `k % m` under the local name `k / m`, i.e. in
bin `k % m + m * ((k / m) % 2^g) = k % (m * 2^g)` of generation `g` (`TableN.binIndex_eq_mod`,
`TableN.bin_index_eq` for `m = 2^a`); every natural number is a local key of every lineage; `step`
translates the key of a call, the map history records the ORIGINAL key.

Any number of threads; a thread is inside at most one lineage at a time: it can act in lineage `i` only
while it is idle in every other lineage — **idle = neither in a call nor a resizing thread there**
(`n.threads[t].pc = idle` and `hs[t] = none`). One transition of the table is one `BinNH.step` of one thread
in one lineage; all lineages share one clock (every other lineage `tick`s). A `tick` IS a transition of
`Proto/BinNH`: the step of a thread that is idle there, not a resizing thread, and starts nothing
(`Lemmas/TableNH.lean`: `tick_is_step`), so every lineage of a reachable table is literally
`BinNH.Reachable`.

**Helpers.** Other than in `Proto/TableN` (one resizing thread per lineage and generation), here any number
of threads may be inside the transfers of the cells of the SAME lineage at the same moment, and different
lineages are transferred by different (or the same, one after the other) threads: a code execution in which
two helpers are in the middle of the transfers of two bins `i + m * j`, `i + m * j'` of the same lineage has
its counterpart with these very steps. A helper of lineage `i` is inside lineage `i` (it has to leave, or
find its resize over, or commit, before it acts elsewhere).

**The table pointer is modelled per lineage**, as in `Proto/TableN` (see the header there: each lineage
allocates its part of the next table, forwards its cells and commits its own `cur := cur + 1`; the model's
lineages may be at different generations, the code's never; an execution of the code is an execution of the
model in which the allocations and the commits of all lineages happen consecutively; this gives the model
MORE executions than the code). The correspondence is stated, NOT proved: the theorems are about the
model's executions. `BinNH`'s `commit` over-approximates the last-one-out rule (see its header). -/
namespace Flurry.Proto.TableNH
open Flurry.Lin Flurry.LinMap
open Flurry.Proto.TableN (lineageOf localKey globalKey inLineage localInv)

structure State where
  bins : List BinNH.State
deriving Repr

def init (m nthreads : Nat) : State := { bins := List.replicate m (BinNH.init nthreads) }

/-- the clock of a lineage advances although nothing happens in it -/
def tick (b : BinNH.State) : BinNH.State := { b with n := BinNH.tickN b.n }

/-- is thread `t` idle in lineage `b`: neither in a call nor a resizing thread -/
def idleIn (b : BinNH.State) (t : Nat) : Bool :=
  match b.n.threads[t]?, b.hs[t]? with
  | some l, some none => l.pc == .idle
  | _, _ => false

/-- One step of thread `t` in lineage `i` (`inv`, `rz`, `leave`, `pick` are the arguments of `BinNH.step`,
`inv` with the key of the TABLE). A thread can act in lineage `i` only while it is idle in every other
lineage; a call it starts there must be on a key of that lineage (`k % m = i`) and is started in the lineage
under the local name `k / m`. Every other lineage ticks. -/
def step (S : State) (i t : Nat) (inv : Option (Nat × KOp)) (rz leave : Bool) (pick : Nat) : Option State :=
  let m := S.bins.length
  match S.bins[i]? with
  | none => none
  | some b =>
    if !((List.range m).all fun j => j == i || idleIn (S.bins.getD j (BinNH.init 0)) t) then none
    else if !inLineage m i (inv.map (·.1)) then none
    else
      match BinNH.step b t (localInv m inv) rz leave pick with
      | none => none
      | some b' => some { bins := (S.bins.map tick).set i b' }

inductive Reachable (m nthreads : Nat) : State → Prop
  | init : Reachable m nthreads (init m nthreads)
  | step {S S' : State} (i t : Nat) (inv : Option (Nat × KOp)) (rz leave : Bool) (pick : Nat) :
      Reachable m nthreads S → step S i t inv rz leave pick = some S' → Reachable m nthreads S'

/-- no call in flight and no resizing thread, in any lineage -/
def quiescent (S : State) : Prop := ∀ b ∈ S.bins, BinNH.quiescent b

/-- the completed calls of lineage `i` as calls of the map, oldest first, under the keys of the table -/
def binCalls (m i : Nat) (b : BinNH.State) : MHistory := TableN.binCalls m i b.n

/-- the history of the map: the calls of all lineages (lineage by lineage; the order of the list
carries no meaning, the times do) -/
def mhist (S : State) : MHistory :=
  ((List.range S.bins.length).map fun i => binCalls S.bins.length i (S.bins.getD i (BinNH.init 0))).flatten

/-- the abstract map: key `k` has the abstract state of local key `k / m` in lineage `k % m` -/
def absMap (S : State) : MSt :=
  fun k => BinNH.absOf (S.bins.getD (lineageOf S.bins.length k) (BinNH.init 0)) (localKey S.bins.length k)

end Flurry.Proto.TableNH
