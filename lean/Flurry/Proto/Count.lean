/-! # Proto/Count: the entry counter (C05: `len()` equals the number of entries at quiescence)

`add_count` is called *after* the step at which an update takes effect (an insert that is paused
between the two is in the map but not yet counted — which is why C05 speaks about quiescence only).
The discipline: every call adds to the counter exactly the net number of entries it added to /
removed from the content, before it returns. Events: `effect t d` — a linearization point of thread
`t`'s call changes the number of entries by `d` (`+1` insert of a new key, `-1` removal, `-n` one
bin emptied by `clear`, `0` replacement); `add t d` — `add_count(d)`; `ret t` — the call returns,
allowed only when it owes nothing. Any number of threads, any interleaving.

The harness checks `ret`'s guard on every completed call of every scheduled run (`[count]`: the sum
of the deltas passed to `add_count` against the net effect of the call's witnessed changes of the
content), which is what ties this model to the code. -/
namespace Flurry.Proto.Count

structure State where
  /-- number of entries of the abstract content -/
  size : Int
  /-- the map's counter -/
  count : Int
  /-- per thread: effect of its current call on the content that it has not yet added to the counter -/
  owed : List Int
deriving Repr, DecidableEq

inductive Ev where
  | effect (t : Nat) (d : Int)
  | add (t : Nat) (d : Int)
  | ret (t : Nat)
deriving Repr, DecidableEq

def init (nthreads : Nat) : State := { size := 0, count := 0, owed := List.replicate nthreads 0 }

def step (s : State) : Ev → Option State
  | .effect t d =>
    match s.owed[t]? with
    | some o => some { s with size := s.size + d, owed := s.owed.set t (o + d) }
    | none => none
  | .add t d =>
    match s.owed[t]? with
    | some o => some { s with count := s.count + d, owed := s.owed.set t (o - d) }
    | none => none
  | .ret t =>
    match s.owed[t]? with
    | some o => if o = 0 then some s else none
    | none => none

def run (s : State) : List Ev → Option State
  | [] => some s
  | e :: es => match step s e with | some s' => run s' es | none => none

inductive Reachable (n : Nat) : State → Prop
  | init : Reachable n (init n)
  | step {s s' : State} (e : Ev) : Reachable n s → step s e = some s' → Reachable n s'

/-- nobody owes the counter anything (in particular: no call in flight) -/
def quiescent (s : State) : Prop := ∀ o ∈ s.owed, o = 0

def Inv (s : State) : Prop := s.count + s.owed.sum = s.size

theorem sum_set (l : List Int) (i : Nat) (o v : Int) (h : l[i]? = some o) : (l.set i v).sum = l.sum - o + v := by
  induction l generalizing i with
  | nil => simp at h
  | cons a l ih =>
    cases i with
    | zero => simp at h; subst h; simp [List.set]; omega
    | succ i => simp at h; simp [List.set, ih i h]; omega

theorem sum_replicate_zero (n : Nat) : (List.replicate n (0 : Int)).sum = 0 := by
  induction n with
  | zero => rfl
  | succ n ih => simp [List.replicate_succ, ih]

theorem inv_init (n : Nat) : Inv (init n) := by simp [Inv, init, sum_replicate_zero]

theorem inv_step {s s' : State} {e : Ev} (hi : Inv s) (hs : step s e = some s') : Inv s' := by
  unfold Inv at *
  cases e with
  | effect t d =>
    simp only [step] at hs
    split at hs
    · rename_i o ho; cases hs; simp only [sum_set _ _ _ _ ho]; omega
    · cases hs
  | add t d =>
    simp only [step] at hs
    split at hs
    · rename_i o ho; cases hs; simp only [sum_set _ _ _ _ ho]; omega
    · cases hs
  | ret t =>
    simp only [step] at hs
    split at hs
    · split at hs
      · cases hs; exact hi
      · cases hs
    · cases hs

theorem reachable_inv {n : Nat} {s : State} (hr : Reachable n s) : Inv s := by
  induction hr with
  | init => exact inv_init n
  | step e _ hs ih => exact inv_step ih hs

theorem sum_zero_of_all_zero (l : List Int) (h : ∀ o ∈ l, o = 0) : l.sum = 0 := by
  induction l with
  | nil => rfl
  | cons a l ih =>
    have ha : a = 0 := h a (by simp)
    have := ih (fun o ho => h o (by simp [ho]))
    simp [ha, this]

/-- **C05 (counter)**: whenever nobody owes the counter anything — in particular whenever no call is
in flight — the counter equals the number of entries; any number of threads, any interleaving,
any history. -/
theorem quiescent_count_eq_size {n : Nat} {s : State} (hr : Reachable n s) (hq : quiescent s) : s.count = s.size := by
  have := reachable_inv hr
  unfold Inv at this
  rw [sum_zero_of_all_zero _ hq] at this
  omega

/-- in between, the counter lags by exactly what the calls in flight still owe (an insert paused
before `add_count` is in the map but not yet counted) -/
theorem count_lags_by_owed {n : Nat} {s : State} (hr : Reachable n s) : s.size - s.count = s.owed.sum := by
  have := reachable_inv hr
  unfold Inv at this
  omega

/-- a call that returns owes nothing: the `ret` transition is enabled only then (this guard is what
the harness checks on every completed call of the real code) -/
theorem ret_only_when_settled {s s' : State} {t : Nat} (h : step s (.ret t) = some s') : s.owed[t]? = some 0 ∧ s' = s := by
  simp only [step] at h
  split at h
  · rename_i o ho
    split at h
    · rename_i h0; cases h; subst h0; exact ⟨ho, rfl⟩
    · cases h
  · cases h

-- non-vacuity: two threads; t0 inserts a new key (effect +1) and is paused before add_count while t1
-- removes another (effect -1, add -1, ret); then t0 adds and returns: quiescent, counter = size
example : ∃ s, run (init 2) [.effect 0 1, .effect 1 (-1), .add 1 (-1), .ret 1, .add 0 1, .ret 0] = some s ∧
    s.count = s.size ∧ s.owed = [0, 0] := ⟨_, rfl, by decide, by decide⟩
-- a call that forgets its delta cannot return
example : run (init 1) [.effect 0 1, .ret 0] = none := rfl

end Flurry.Proto.Count
