import Flurry.Lin2
import Flurry.Proto.BinRBase
/-! # Proto/BinW: the list bin with the writer's traversal spelled out (C01, C08)

(C13 port of `Flurry/Proto/BinW.lean` to the per-key operations of `Flurry/Lin2.lean`, i.e. with `retain`'s conditional removal `condRm`; below, "`Proto/Bin`" / `Base.` is `Flurry.Proto.BinR.Base` (`Proto/BinRBase.lean`) and "`Proto/BinW`" is `Flurry.Proto.BinR` (`Proto/BinR.lean`), which in addition has the `retain` visit steps.)

`Proto/Bin` lets a validated writer find its node and store in ONE transition, which is sound only
because validated writers exclude each other — a fact `Proto/Bin` proves (`writers_mutex`) but
never *uses*: its linearizability proof would go through unchanged if the lock or the re-check of
the bin cell were dropped. Here the lock is load-bearing. A validated writer walks the list node by
node (`wFind`: one load of a `next` cell per transition), remembering its predecessor, and then
performs its single store **with the positions it remembered** (`wStore`): the value cell of the
node it found, the `next` cell of the node it took for the last one (append), or the `next` cell of
the remembered predecessor, set to the successor it read earlier (unlink). If another thread could
change the list between the walk and the store, updates would be lost and unlinked nodes written.

Everything else (readers, the lock inside the first node, the re-check `wCheck`, the lock-free CAS
into an empty bin, the history) is as in `Proto/Bin`, whose `NodeS`, `Pending`, `chainFrom`,
`absOf`-style definitions are re-declared here for the new state type.

Theorems (`Lemmas/BinW*.lean`, `Props/C01Bin.lean`): every reachable state of this model is
simulated by `Proto/Bin` (the walk steps are stutter steps, `wStore` is `Bin`'s `wWrite`: thanks to
the validated lock the remembered positions are still the current ones), hence the same
linearizability theorem; and, for contrast, a reachable non-linearizable history of the variant
without the re-check (`stepNoCheck`). -/
namespace Flurry.Proto.BinR
open Flurry.Lin2

structure NodeS where
  key : Nat
  val : Nat × Nat
  next : Option Nat
  /-- holder of the mutex inside this node -/
  lock : Option Nat := none
deriving Repr, DecidableEq

/-- a call in flight: key, operation, invocation time -/
structure Pending where
  key : Nat
  op : KOp2
  inv : Nat
deriving Repr, DecidableEq

inductive Pc where
  | idle
  /-- reader: about to load the bin cell -/
  | rHead
  /-- reader: holds `cur` (loaded from the bin cell or from a `next` cell) -/
  | rNode (cur : Option Nat)
  /-- writer: about to load the bin cell -/
  | wHead
  /-- writer (ins / tryIns on an empty bin): about to CAS the bin cell `none → new` -/
  | wCas
  /-- writer: saw head `h`, about to lock the mutex in node `h` -/
  | wLock (h : Nat)
  /-- writer: holds the mutex of node `h`, about to re-read the bin cell -/
  | wCheck (h : Nat)
  /-- writer: holds the validated mutex of head `h`; walking: `cur` is the node to look at next
  (loaded from the bin cell at validation or from a `next` cell), `pred` the node before it -/
  | wFind (h : Nat) (pred : Option Nat) (cur : Option Nat)
  /-- writer: walk finished: `hit` = the node with its key (and `hnext` = that node's `next` as read
  during the walk), or none and `pred` = the last node; about to do its one store -/
  | wStore (h : Nat) (pred : Option Nat) (hit : Option Nat) (hnext : Option Nat)
  /-- writer: about to unlock node `h` and return `res` (`retry = true`: start over instead) -/
  | wUnlock (h : Nat) (res : KRes) (retry : Bool)
  /-- `retain` visiting key `k` (first half, no call in flight yet): about to load the bin cell -/
  | vHead (k : Nat)
  /-- `retain` visiting key `k`: holds `cur`, walking like a reader -/
  | vNode (k : Nat) (cur : Option Nat)
  /-- `retain` visiting key `k`: found the node and loaded its value pointer, whose id is `vi`;
  about to call the predicate `f(k, v)` -/
  | vLoaded (k : Nat) (vi : Nat)
deriving Repr, DecidableEq

/-- what the environment asks of an idle thread — call `op` on key `k`, or let `retain` visit key
`k` — and, for a thread whose `retain` visit has loaded the value, the predicate's verdict
(`drop` = `f` returned false; anything else = keep) -/
inductive Inv where
  | call (k : Nat) (op : KOp2)
  | visit (k : Nat)
  | drop
deriving Repr, DecidableEq

structure Local where
  pc : Pc := .idle
  call : Option Pending := none
deriving Repr, DecidableEq

structure State where
  heap : List NodeS := []
  head : Option Nat := none
  threads : List Local
  /-- completed calls, most recent first, with their key -/
  hist : List (Nat × Call2) := []
  /-- global step counter (the "time" of invocations and responses) -/
  now : Nat := 0
deriving Repr

def init (nthreads : Nat) : State := { threads := List.replicate nthreads {} }

def isReader : KOp2 → Bool
  | .get | .has => true
  | _ => false

/-- the indices of the nodes reachable from `start`, in list order (fuel = heap size) -/
def chainFrom (heap : List NodeS) : Nat → Option Nat → List Nat
  | 0, _ => []
  | _, none => []
  | fuel + 1, some i =>
    match heap[i]? with
    | none => []
    | some n => i :: chainFrom heap fuel n.next

def chain (s : State) : List Nat := chainFrom s.heap s.heap.length s.head

/-- the abstract content of the bin: key ↦ value of the first node with that key on the chain -/
def absOf (s : State) (k : Nat) : KSt :=
  match (chain s).find? (fun i => (s.heap.getD i ⟨0, (0, 0), none, none⟩).key == k) with
  | some i => some (s.heap.getD i ⟨0, (0, 0), none, none⟩).val
  | none => none

def setNode (s : State) (i : Nat) (f : NodeS → NodeS) : State :=
  { s with heap := s.heap.modify i f }

def setT (s : State) (t : Nat) (l : Local) : State := { s with threads := s.threads.set t l }

/-- complete the call of thread `t` with result `res` -/
def finish (s : State) (t : Nat) (p : Pending) (res : KRes) : State :=
  { (setT s t { pc := .idle, call := none }) with
      hist := (p.key, { tid := t, op := p.op, res := res, inv := p.inv, resp := s.now }) :: s.hist }

/-- the single store of a writer, done with the positions remembered during its walk:
`hit = some i`: the node with the key (`hnext` its successor as read then); `pred` the node before
it (`none`: it is the head). `hit = none`: the key was not found and `pred` is the last node seen. -/
def storeAt (s : State) (p : Pending) (pred hit hnext : Option Nat) : State × KRes :=
  let dflt : NodeS := ⟨0, (0, 0), none, none⟩
  let append (v vi : Nat) : State :=
    let newIdx := s.heap.length
    let s1 := { s with heap := s.heap ++ [⟨p.key, (v, vi), none, none⟩] }
    match pred with
    | some l => setNode s1 l (fun n => { n with next := some newIdx })
    | none => { s1 with head := some newIdx }
  let unlink : State :=
    match pred with
    | some pr => setNode s pr (fun m => { m with next := hnext })
    | none => { s with head := hnext }
  match p.op, hit with
  | .ins v vi, some i => (setNode s i (fun n => { n with val := (v, vi) }), resOf (some (s.heap.getD i dflt).val))
  | .ins v vi, none => (append v vi, .none)
  | .tryIns _ _, some i => let x := (s.heap.getD i dflt).val; (s, .exists_ x.1 x.2)
  | .tryIns v vi, none => (append v vi, .none)
  | .rm, some i => (unlink, resOf (some (s.heap.getD i dflt).val))
  | .rm, none => (s, .none)
  | .cipInc nvi, some i =>
    let n := s.heap.getD i dflt
    (setNode s i (fun m => { m with val := (n.val.1 + 1, nvi) }), .some (n.val.1 + 1) nvi)
  | .cipInc _, none => (s, .none)
  | .cipRm, some _ => (unlink, .none)
  | .cipRm, none => (s, .none)
  | .condRm vi, some i =>
    -- `retain`: unlink only if the node still holds the value the predicate inspected
    if (s.heap.getD i dflt).val.2 = vi then (unlink, .none) else (s, .none)
  | .condRm _, none => (s, .none)
  | .get, _ => (s, .none)
  | .has, _ => (s, .none)

/-- what a `retain` that forgets the value its predicate inspected would do: `condRm vi` becomes an
unconditional removal (used only by the refuted variant `stepNoCompare`) -/
def forget (p : Pending) : Pending :=
  { p with op := match p.op with | .condRm _ => .cipRm | o => o }

/-- One step of thread `t`. An idle thread invokes `op` on key `k` (`inv = some (.call k op)`), starts a
`retain` visit of key `k` (`inv = some (.visit k)`) or stays idle; a visit that has loaded the value
(`vLoaded`) takes the predicate's verdict from `inv` (`some .drop`: start `condRm` of the loaded id;
anything else: keep, back to idle); elsewhere `inv` is ignored.
`none` = not a thread / the step is not enabled (a lock that is held). Every step advances `now`.
`recheck = false`: trust the lock without re-reading the bin cell; `compare = false`: `condRm`
unlinks without comparing the value id (both only for the refuted variants). -/
def stepG (recheck compare : Bool) (s : State) (t : Nat) (inv : Option Inv) : Option State :=
  match s.threads[t]? with
  | none => none
  | some l =>
    let s := { s with now := s.now + 1 }
    let upd (pc : Pc) : State := setT s t { l with pc := pc }
    match l.pc, l.call with
    | .idle, _ =>
      match inv with
      | some (.call k op) =>
        some (setT s t { pc := if isReader op then .rHead else .wHead, call := some ⟨k, op, s.now⟩ })
      | some (.visit k) => some (upd (.vHead k))
      | _ => some s
    -- the first half of a `retain` visit: walk to the node of `k` like a reader, load its value
    -- pointer, call the predicate; only a `drop` verdict starts a call (`condRm` of the loaded id)
    | .vHead k, _ => some (upd (.vNode k s.head))
    | .vNode _ none, _ => some (upd .idle)
    | .vNode k (some c), _ =>
      match s.heap[c]? with
      | none => none
      | some n =>
        if n.key == k then some (upd (.vLoaded k n.val.2)) else some (upd (.vNode k n.next))
    | .vLoaded k vi, _ =>
      match inv with
      | some .drop => some (setT s t { pc := .wHead, call := some ⟨k, .condRm vi, s.now⟩ })
      | _ => some (upd .idle)
    | .rHead, some _ => some (upd (.rNode s.head))
    | .rNode none, some p =>
      some (finish s t p (match p.op with | .has => .bool false | _ => .none))
    | .rNode (some c), some p =>
      match s.heap[c]? with
      | none => none
      | some n =>
        if n.key == p.key then
          -- hit: `get` loads the value cell now; `contains_key` does not look at it
          some (finish s t p (match p.op with | .has => .bool true | _ => .some n.val.1 n.val.2))
        else some (upd (.rNode n.next))
    | .wHead, some p =>
      match s.head with
      | none =>
        match p.op with
        | .ins _ _ | .tryIns _ _ => some (upd .wCas)
        | _ => some (finish s t p .none)          -- remove / compute on an empty bin
      | some h => some (upd (.wLock h))
    | .wCas, some p =>
      match s.head, p.op with
      | none, .ins v vi | none, .tryIns v vi =>
        let newIdx := s.heap.length
        some (finish { s with heap := s.heap ++ [⟨p.key, (v, vi), none, none⟩], head := some newIdx } t p .none)
      | _, _ => some (upd .wHead)                 -- CAS failed: start over
    | .wLock h, some _ =>
      match s.heap[h]? with
      | none => none
      | some n =>
        if n.lock.isSome then none                -- blocked
        else some (setT (setNode s h (fun m => { m with lock := some t })) t { l with pc := .wCheck h })
    | .wCheck h, some _ =>
      -- the re-read of the bin cell: it must still hold the node whose mutex we took
      if !recheck || s.head == some h then some (upd (.wFind h none (some h)))
      else some (upd (.wUnlock h .none true))
    | .wFind h pred cur, some p =>
      match cur with
      | none => some (upd (.wStore h pred none none))         -- end of the list: not found
      | some c =>
        match s.heap[c]? with
        | none => none
        | some n =>
          -- compare the (immutable) key and load the `next` cell
          if n.key == p.key then some (upd (.wStore h pred (some c) n.next))
          else some (upd (.wFind h (some c) n.next))
    | .wStore h pred hit hnext, some p =>
      let (s', res) := if compare then storeAt s p pred hit hnext else storeAt s (forget p) pred hit hnext
      some (setT s' t { l with pc := .wUnlock h res false })
    | .wUnlock h res retry, some p =>
      let s1 := setNode s h (fun m => { m with lock := none })
      if retry then some (setT s1 t { l with pc := .wHead }) else some (finish s1 t p res)
    | _, none => none

/-- the model: with the re-check -/
def step (s : State) (t : Nat) (inv : Option Inv) : Option State := stepG true true s t inv

/-- the variant in which a writer trusts the lock it took without re-reading the bin cell -/
def stepNoCheck (s : State) (t : Nat) (inv : Option Inv) : Option State := stepG false true s t inv

/-- the variant in which `condRm` unlinks the node of its key without comparing the value id -/
def stepNoCompare (s : State) (t : Nat) (inv : Option Inv) : Option State := stepG true false s t inv

inductive Reachable (nthreads : Nat) : State → Prop
  | init : Reachable nthreads (init nthreads)
  | step {s s' : State} (t : Nat) (inv : Option Inv) :
      Reachable nthreads s → step s t inv = some s' → Reachable nthreads s'

/-- the completed calls on key `k`, oldest first -/
def callsOn (s : State) (k : Nat) : History2 :=
  (s.hist.filter (·.1 == k)).reverse.map (·.2)

/-- no call is in flight -/
def quiescent (s : State) : Prop := ∀ l ∈ s.threads, l.pc = .idle

end Flurry.Proto.BinR
