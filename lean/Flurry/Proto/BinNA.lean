import Flurry.Lin
/-! # Proto/BinNA: any number of successive resizes, bins as ATOMIC (copy-on-write) lists (C01, C08, C10)

What `Proto/BinX` / `Proto/BinG` do not model: SEVERAL GENERATIONS of tables — a resize after a resize.
Resizes of different generations never overlap (generation `g+1` starts to be filled only after
`table := next` of generation `g`), but a slow thread may still hold a pointer to a table of an older
generation: all cells of such a table are forwarding markers for ever, and the thread follows marker
after marker until it reaches the current table or the one being filled.

**What is atomic here (the name says so):** the content of a bin is an *immutable list* that a reader
obtains with ONE load of the cell and that a writer replaces with ONE store under the cell's lock
(copy-on-write). In-bin traversal is therefore NOT interleaved with other threads in this model;
`Proto/BinX` and `Proto/BinG` cover the pointer walking inside a bin for one resize. This model
isolates the generation structure: "follow markers until a live cell".

* generations `0, 1, 2, …`; generation `g` has cells `j < 2^g`; key `k` belongs to cell `(g, k % 2^g)`;
  the children of `(g, j)` are `(g+1, j)` (low) and `(g+1, j + 2^g)` (high); a key goes high iff bit `g`
  of `k` is set;
* a cell is `empty`, `list xs` (key ↦ (payload, value id)) or `moved` (the forwarding marker); every
  cell has a mutex (`locks`);
* one transition = one shared-memory access of one thread; readers are lock-free; writers CAS into an
  empty cell or lock the cell, RE-CHECK it (`recheck`; `stepG false` is the variant without), perform
  their one store and unlock; a thread that finds `moved` continues in the next generation;
* the resizing thread (exactly one per generation) allocates generation `cur+1`, transfers the cells
  of generation `cur` in any order (empty: CAS `empty → moved`; list: lock, re-check, split by bit
  `cur`, store low, store high, THEN store `moved`, unlock) and finally publishes `cur := cur+1`.

Proved in `Lemmas/BinNA*.lean`, collected in `Props/C01BinNA.lean`. -/
namespace Flurry.Proto.BinNA
open Flurry.Lin

abbrev Entry := Nat × (Nat × Nat)

inductive Cell where
  | empty
  | list (xs : List (Nat × (Nat × Nat)))
  | moved
deriving Repr, DecidableEq

structure Pending where
  key : Nat
  op : KOp
  inv : Nat
deriving Repr, DecidableEq

inductive Pc where
  | idle
  /-- reader: about to load the table pointer -/
  | rTable
  /-- reader: about to load the cell of its key in generation `g` -/
  | rCell (g : Nat)
  | wTable
  | wCell (g : Nat)
  /-- about to CAS the (empty) cell of its key in generation `g` to a one-element list -/
  | wCas (g : Nat)
  | wLock (g : Nat)
  | wCheck (g : Nat)
  /-- holds the (validated) lock: about to perform its one store -/
  | wStore (g : Nat)
  /-- about to unlock; `retry`: the re-check failed, look at the cell of generation `g` again -/
  | wUnlock (g : Nat) (res : KRes) (retry : Bool)
  -- the resizing thread of generation `cur` ------------------------------------------------
  | tNext
  | tCell (j : Nat)
  | tCasMoved (j : Nat)
  | tLock (j : Nat)
  | tCheck (j : Nat)
  | tStoreLow (j : Nat) (lo hi : Cell)
  | tStoreHigh (j : Nat) (hi : Cell)
  | tStoreMoved (j : Nat)
  | tUnlock (j : Nat)
  | tCommit
deriving Repr, DecidableEq

structure Local where
  pc : Pc := .idle
  call : Option Pending := none
deriving Repr, DecidableEq

structure State where
  /-- one inner list per allocated generation -/
  tabs : List (List Cell) := [[.empty]]
  /-- the mutex of each cell (`some t`: held by thread `t`) -/
  locks : List (List (Option Nat)) := [[none]]
  /-- the generation of the table pointer -/
  cur : Nat := 0
  /-- generation `cur+1` is allocated and being filled -/
  resizing : Bool := false
  threads : List Local
  hist : List (Nat × Call) := []
  now : Nat := 0
deriving Repr

def init (nthreads : Nat) : State := { threads := List.replicate nthreads {} }

def isReader : KOp → Bool
  | .get | .has => true
  | _ => false

/-- a missing generation / cell reads as `empty` -/
def getCell (s : State) (g j : Nat) : Cell := (s.tabs.getD g []).getD j .empty
def setCell (s : State) (g j : Nat) (c : Cell) : State :=
  { s with tabs := s.tabs.modify g (fun row => row.set j c) }
def getLock (s : State) (g j : Nat) : Option Nat := (s.locks.getD g []).getD j none
def setLock (s : State) (g j : Nat) (x : Option Nat) : State :=
  { s with locks := s.locks.modify g (fun row => row.set j x) }

/-- the cell index of key `k` in generation `g` -/
def ix (g k : Nat) : Nat := k % 2 ^ g

/-- does key `k` go to the high child when generation `g` is split -/
def hiBit (g k : Nat) : Bool := (k / 2 ^ g) % 2 == 1

def lookup (k : Nat) (xs : List Entry) : KSt := (xs.find? (fun e => e.1 == k)).map (·.2)

def mkCell : List Entry → Cell
  | [] => .empty
  | xs => .list xs

def isList : Cell → Bool
  | .list _ => true
  | _ => false

def content : Cell → List Entry
  | .list xs => xs
  | _ => []

/-- the new content of a bin after the writer's store: `none` erases the key, `some v` replaces / appends -/
def newContent (k : Nat) (xs : List Entry) : KSt → List Entry
  | none => xs.filter (fun e => !(e.1 == k))
  | some v =>
    if (lookup k xs).isSome then xs.map (fun e => if e.1 == k then (k, v) else e) else xs ++ [(k, v)]

def splitLo (g : Nat) (xs : List Entry) : List Entry := xs.filter (fun e => !hiBit g e.1)
def splitHi (g : Nat) (xs : List Entry) : List Entry := xs.filter (fun e => hiBit g e.1)

/-- the resizer's private progress bookkeeping: every cell of generation `cur` is forwarded -/
def allMoved (s : State) : Bool := (List.range (2 ^ s.cur)).all (fun j => getCell s s.cur j == .moved)

def cellAbs (k : Nat) : Cell → KSt
  | .list xs => lookup k xs
  | _ => none

/-- the cell a lookup of `k` that starts in generation `g` ends in (follow the markers) -/
def liveFrom (s : State) : Nat → Nat → Nat → Cell
  | 0, _, _ => .empty
  | fuel + 1, g, k =>
    match getCell s g (ix g k) with
    | .moved => liveFrom s fuel (g + 1) k
    | c => c

/-- what a lookup of `k` started now would find -/
def absOf (s : State) (k : Nat) : KSt := cellAbs k (liveFrom s s.tabs.length s.cur k)

def setT (s : State) (t : Nat) (l : Local) : State := { s with threads := s.threads.set t l }

def finish (s : State) (t : Nat) (p : Pending) (res : KRes) : State :=
  { (setT s t { pc := .idle, call := none }) with
      hist := (p.key, { tid := t, op := p.op, res := res, inv := p.inv, resp := s.now }) :: s.hist }

def missRes (op : KOp) : KRes := match op with | .has => .bool false | _ => .none
def hitRes (op : KOp) (v : Nat × Nat) : KRes := match op with | .has => .bool true | _ => .some v.1 v.2

/-- One step of thread `t`. `inv`: the call an idle thread starts; `rz`: an idle thread starts the next
resize; `pick`: the cell the resizing thread looks at next. -/
def stepG (recheck : Bool) (s : State) (t : Nat) (inv : Option (Nat × KOp)) (rz : Bool) (pick : Nat) :
    Option State :=
  match s.threads[t]? with
  | none => none
  | some l =>
    let s := { s with now := s.now + 1 }
    let upd (pc : Pc) : State := setT s t { l with pc := pc }
    match l.pc, l.call with
    | .idle, _ =>
      if rz then
        if s.resizing then some s
        else some { (upd .tNext) with
                      resizing := true
                      tabs := s.tabs ++ [List.replicate (2 ^ (s.cur + 1)) .empty]
                      locks := s.locks ++ [List.replicate (2 ^ (s.cur + 1)) none] }
      else
        match inv with
        | none => some s
        | some (k, op) =>
          some (setT s t { pc := if isReader op then .rTable else .wTable, call := some ⟨k, op, s.now⟩ })
    -- readers
    | .rTable, some _ => some (upd (.rCell s.cur))
    | .rCell g, some p =>
      match getCell s g (ix g p.key) with
      | .empty => some (finish s t p (missRes p.op))
      | .moved => some (upd (.rCell (g + 1)))
      | .list xs =>
        match lookup p.key xs with
        | none => some (finish s t p (missRes p.op))
        | some v => some (finish s t p (hitRes p.op v))
    -- writers
    | .wTable, some _ => some (upd (.wCell s.cur))
    | .wCell g, some p =>
      match getCell s g (ix g p.key) with
      | .empty =>
        match p.op with
        | .ins _ _ | .tryIns _ _ => some (upd (.wCas g))
        | _ => some (finish s t p .none)
      | .moved => some (upd (.wCell (g + 1)))        -- help_transfer: continue in the next table
      | .list _ => some (upd (.wLock g))
    | .wCas g, some p =>
      match getCell s g (ix g p.key), p.op with
      | .empty, .ins v vi | .empty, .tryIns v vi =>
        some (finish (setCell s g (ix g p.key) (.list [(p.key, (v, vi))])) t p .none)
      | _, _ => some (upd (.wCell g))
    | .wLock g, some p =>
      if (getLock s g (ix g p.key)).isSome then none
      else some (setT (setLock s g (ix g p.key) (some t)) t { l with pc := .wCheck g })
    | .wCheck g, some p =>
      if !recheck || isList (getCell s g (ix g p.key)) then some (upd (.wStore g))
      else some (upd (.wUnlock g .none true))
    | .wStore g, some p =>
      let xs := content (getCell s g (ix g p.key))
      let r := specStep (lookup p.key xs) p.op
      some (setT (setCell s g (ix g p.key) (mkCell (newContent p.key xs r.1))) t
        { l with pc := .wUnlock g r.2 false })
    | .wUnlock g res retry, some p =>
      let s1 := setLock s g (ix g p.key) none
      -- `continue`: the loop looks at the cell of the same table again
      if retry then some (setT s1 t { l with pc := .wCell g }) else some (finish s1 t p res)
    -- the resizing thread (it has no call in flight)
    | .tNext, none =>
      if allMoved s then some (upd .tCommit) else some (upd (.tCell (pick % 2 ^ s.cur)))
    | .tCell j, none =>
      match getCell s s.cur j with
      | .empty => some (upd (.tCasMoved j))
      | .list _ => some (upd (.tLock j))
      | .moved => some (upd .tNext)
    | .tCasMoved j, none =>
      match getCell s s.cur j with
      | .empty => some (setT (setCell s s.cur j .moved) t { l with pc := .tNext })
      | _ => some (upd (.tCell j))
    | .tLock j, none =>
      if (getLock s s.cur j).isSome then none
      else some (setT (setLock s s.cur j (some t)) t { l with pc := .tCheck j })
    | .tCheck j, none =>
      match getCell s s.cur j with
      | .list xs => some (upd (.tStoreLow j (mkCell (splitLo s.cur xs)) (mkCell (splitHi s.cur xs))))
      | _ => some (setT (setLock s s.cur j none) t { l with pc := .tCell j })
    | .tStoreLow j lo hi, none =>
      some (setT (setCell s (s.cur + 1) j lo) t { l with pc := .tStoreHigh j hi })
    | .tStoreHigh j hi, none =>
      some (setT (setCell s (s.cur + 1) (j + 2 ^ s.cur) hi) t { l with pc := .tStoreMoved j })
    | .tStoreMoved j, none =>
      some (setT (setCell s s.cur j .moved) t { l with pc := .tUnlock j })
    | .tUnlock j, none =>
      some (setT (setLock s s.cur j none) t { l with pc := .tNext })
    | .tCommit, none => some { (upd .idle) with cur := s.cur + 1, resizing := false }
    | _, _ => none

def step (s : State) (t : Nat) (inv : Option (Nat × KOp)) (rz : Bool) (pick : Nat) : Option State :=
  stepG true s t inv rz pick

inductive Reachable (nthreads : Nat) : State → Prop
  | init : Reachable nthreads (init nthreads)
  | step {s s' : State} (t : Nat) (inv : Option (Nat × KOp)) (rz : Bool) (pick : Nat) :
      Reachable nthreads s → step s t inv rz pick = some s' → Reachable nthreads s'

def callsOn (s : State) (k : Nat) : History :=
  (s.hist.filter (·.1 == k)).reverse.map (·.2)

def quiescent (s : State) : Prop := ∀ l ∈ s.threads, l.pc = .idle

end Flurry.Proto.BinNA
