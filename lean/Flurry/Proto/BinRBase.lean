import Flurry.Lin2
/-! # Proto/Bin: one list bin, any number of threads (C01, C08)

(C13 port of `Flurry/Proto/Bin.lean` to the per-key operations of `Flurry/Lin2.lean`, i.e. with `retain`'s conditional removal `condRm`; below, "`Proto/Bin`" / `Base.` is `Flurry.Proto.BinR.Base` (`Proto/BinRBase.lean`) and "`Proto/BinW`" is `Flurry.Proto.BinR` (`Proto/BinR.lean`), which in addition has the `retain` visit steps.)

A small-step model of what `put` / `try_insert` / `replace_node` / `compute_if_present` /
`get_node` do to one *list* bin of a table that is not being resized (`src/map.rs`, the
`BinEntry::Node` arms; `src/node.rs: Node`). One transition = one shared-memory access.

* A bin is a singly linked list of nodes reachable from the bin cell `head`. A node has an
  immutable key, an atomic value cell and an atomic `next` cell, and — this is the point of the
  model — **the bin's lock lives inside its first node** (`Node::lock`). A writer loads the head,
  locks *that node*, and must then **re-read the bin cell**: if the head changed while it waited
  (the old head was removed), it unlocks and starts over. Two writers can therefore hold locks at
  the same time (one of a stale head, one of the current head); what excludes them from each
  other is the re-check, and the model keeps it as a separate step (`wCheck`).
* An insert into an *empty* bin takes no lock: it is a CAS `none → new node` on the bin cell.
* Every other write happens under the validated lock and is a single atomic store: a value swap
  (replace, `compute_if_present`), a `next`/bin-cell store that appends a node, or a `next`/bin-cell
  store that unlinks one. Unlinked nodes are never modified again and stay allocated (readers
  may still be walking them: reclamation is deferred by the guards, C03).
* Readers (`get`, `contains_key`) take no lock: they load the bin cell, then per node compare the
  (immutable) key and either load the value (hit) or load `next`.

`hist` records every completed call with its invocation and response times (global step
counter), in the format of `Flurry.Lin`. The theorem to prove (`Lemmas/Bin*.lean`,
`Props/C01.lean`): for every reachable state and every key, the completed calls on that key are
`Lin2.Linearizable2` from "absent" to the key's current abstract state.

Not modelled here: resize (forwarding markers, `transfer`), tree bins, `clear`/`retain`. -/
namespace Flurry.Proto.BinR.Base
open Flurry.Lin2

structure NodeS where
  key : Nat
  val : Nat × Nat
  next : Option Nat
  /-- holder of the mutex inside this node -/
  lock : Option Nat := none
deriving Repr, DecidableEq

/-- a call in flight: key, operation, invocation time -/
structure Pending where
  key : Nat
  op : KOp2
  inv : Nat
deriving Repr, DecidableEq

inductive Pc where
  | idle
  /-- reader: about to load the bin cell -/
  | rHead
  /-- reader: holds `cur` (loaded from the bin cell or from a `next` cell) -/
  | rNode (cur : Option Nat)
  /-- writer: about to load the bin cell -/
  | wHead
  /-- writer (ins / tryIns on an empty bin): about to CAS the bin cell `none → new` -/
  | wCas
  /-- writer: saw head `h`, about to lock the mutex in node `h` -/
  | wLock (h : Nat)
  /-- writer: holds the mutex of node `h`, about to re-read the bin cell -/
  | wCheck (h : Nat)
  /-- writer: holds the mutex of the current head `h`, about to do its one store -/
  | wWrite (h : Nat)
  /-- writer: about to unlock node `h` and return `res` (`retry = true`: start over instead) -/
  | wUnlock (h : Nat) (res : KRes) (retry : Bool)
deriving Repr, DecidableEq

structure Local where
  pc : Pc := .idle
  call : Option Pending := none
deriving Repr, DecidableEq

structure State where
  heap : List NodeS := []
  head : Option Nat := none
  threads : List Local
  /-- completed calls, most recent first, with their key -/
  hist : List (Nat × Call2) := []
  /-- global step counter (the "time" of invocations and responses) -/
  now : Nat := 0
deriving Repr

def init (nthreads : Nat) : State := { threads := List.replicate nthreads {} }

def isReader : KOp2 → Bool
  | .get | .has => true
  | _ => false

/-- the indices of the nodes reachable from `start`, in list order (fuel = heap size) -/
def chainFrom (heap : List NodeS) : Nat → Option Nat → List Nat
  | 0, _ => []
  | _, none => []
  | fuel + 1, some i =>
    match heap[i]? with
    | none => []
    | some n => i :: chainFrom heap fuel n.next

def chain (s : State) : List Nat := chainFrom s.heap s.heap.length s.head

/-- the abstract content of the bin: key ↦ value of the first node with that key on the chain -/
def absOf (s : State) (k : Nat) : KSt :=
  match (chain s).find? (fun i => (s.heap.getD i ⟨0, (0, 0), none, none⟩).key == k) with
  | some i => some (s.heap.getD i ⟨0, (0, 0), none, none⟩).val
  | none => none

def setNode (s : State) (i : Nat) (f : NodeS → NodeS) : State :=
  { s with heap := s.heap.modify i f }

def setT (s : State) (t : Nat) (l : Local) : State := { s with threads := s.threads.set t l }

/-- complete the call of thread `t` with result `res` -/
def finish (s : State) (t : Nat) (p : Pending) (res : KRes) : State :=
  { (setT s t { pc := .idle, call := none }) with
      hist := (p.key, { tid := t, op := p.op, res := res, inv := p.inv, resp := s.now }) :: s.hist }

/-- the predecessor of node `i` on the chain (`none` = `i` is the head) -/
def predOf (c : List Nat) (i : Nat) : Option Nat :=
  match c with
  | a :: b :: rest => if b == i then some a else predOf (b :: rest) i
  | _ => none

/-- the single store a validated writer performs, and the result it returns.
`h` is the current head (whose lock the writer holds). -/
def writerStore (s : State) (p : Pending) : State × KRes :=
  let c := chain s
  let dflt : NodeS := ⟨0, (0, 0), none, none⟩
  let hit := c.find? (fun i => (s.heap.getD i dflt).key == p.key)
  match p.op, hit with
  | .ins v vi, some i => (setNode s i (fun n => { n with val := (v, vi) }), resOf (some (s.heap.getD i dflt).val))
  | .ins v vi, none =>
    -- append a new node behind the last node of the chain
    let newIdx := s.heap.length
    let s1 := { s with heap := s.heap ++ [⟨p.key, (v, vi), none, none⟩] }
    match c.getLast? with
    | some l => (setNode s1 l (fun n => { n with next := some newIdx }), .none)
    | none => ({ s1 with head := some newIdx }, .none)
  | .tryIns _ _, some i => let x := (s.heap.getD i dflt).val; (s, .exists_ x.1 x.2)
  | .tryIns v vi, none =>
    let newIdx := s.heap.length
    let s1 := { s with heap := s.heap ++ [⟨p.key, (v, vi), none, none⟩] }
    match c.getLast? with
    | some l => (setNode s1 l (fun n => { n with next := some newIdx }), .none)
    | none => ({ s1 with head := some newIdx }, .none)
  | .rm, some i =>
    let n := s.heap.getD i dflt
    let s1 := match predOf c i with
      | some pr => setNode s pr (fun m => { m with next := n.next })
      | none => { s with head := n.next }
    (s1, resOf (some n.val))
  | .rm, none => (s, .none)
  | .cipInc nvi, some i =>
    let n := s.heap.getD i dflt
    (setNode s i (fun m => { m with val := (n.val.1 + 1, nvi) }), .some (n.val.1 + 1) nvi)
  | .cipInc _, none => (s, .none)
  | .cipRm, some i =>
    let n := s.heap.getD i dflt
    let s1 := match predOf c i with
      | some pr => setNode s pr (fun m => { m with next := n.next })
      | none => { s with head := n.next }
    (s1, .none)
  | .cipRm, none => (s, .none)
  | .condRm vi, some i =>
    -- `retain`: unlink only if the node still holds the value the predicate inspected
    let n := s.heap.getD i dflt
    if n.val.2 = vi then
      let s1 := match predOf c i with
        | some pr => setNode s pr (fun m => { m with next := n.next })
        | none => { s with head := n.next }
      (s1, .none)
    else (s, .none)
  | .condRm _, none => (s, .none)
  | .get, _ => (s, .none)
  | .has, _ => (s, .none)

/-- One step of thread `t`. An idle thread invokes `(k, op)` (`inv = some (k, op)`) or stays idle.
`none` = not a thread / the step is not enabled (a lock that is held). Every step advances `now`. -/
def step (s : State) (t : Nat) (inv : Option (Nat × KOp2)) : Option State :=
  match s.threads[t]? with
  | none => none
  | some l =>
    let s := { s with now := s.now + 1 }
    let upd (pc : Pc) : State := setT s t { l with pc := pc }
    match l.pc, l.call with
    | .idle, _ =>
      match inv with
      | none => some s
      | some (k, op) =>
        some (setT s t { pc := if isReader op then .rHead else .wHead, call := some ⟨k, op, s.now⟩ })
    | .rHead, some _ => some (upd (.rNode s.head))
    | .rNode none, some p =>
      some (finish s t p (match p.op with | .has => .bool false | _ => .none))
    | .rNode (some c), some p =>
      match s.heap[c]? with
      | none => none
      | some n =>
        if n.key == p.key then
          -- hit: `get` loads the value cell now; `contains_key` does not look at it
          some (finish s t p (match p.op with | .has => .bool true | _ => .some n.val.1 n.val.2))
        else some (upd (.rNode n.next))
    | .wHead, some p =>
      match s.head with
      | none =>
        match p.op with
        | .ins _ _ | .tryIns _ _ => some (upd .wCas)
        | _ => some (finish s t p .none)          -- remove / compute on an empty bin
      | some h => some (upd (.wLock h))
    | .wCas, some p =>
      match s.head, p.op with
      | none, .ins v vi | none, .tryIns v vi =>
        let newIdx := s.heap.length
        some (finish { s with heap := s.heap ++ [⟨p.key, (v, vi), none, none⟩], head := some newIdx } t p .none)
      | _, _ => some (upd .wHead)                 -- CAS failed: start over
    | .wLock h, some _ =>
      match s.heap[h]? with
      | none => none
      | some n =>
        if n.lock.isSome then none                -- blocked
        else some (setT (setNode s h (fun m => { m with lock := some t })) t { l with pc := .wCheck h })
    | .wCheck h, some _ =>
      if s.head == some h then some (upd (.wWrite h))
      else some (upd (.wUnlock h .none true))
    | .wWrite h, some p =>
      let (s', res) := writerStore s p
      some (setT s' t { l with pc := .wUnlock h res false })
    | .wUnlock h res retry, some p =>
      let s1 := setNode s h (fun m => { m with lock := none })
      if retry then some (setT s1 t { l with pc := .wHead }) else some (finish s1 t p res)
    | _, none => none

inductive Reachable (nthreads : Nat) : State → Prop
  | init : Reachable nthreads (init nthreads)
  | step {s s' : State} (t : Nat) (inv : Option (Nat × KOp2)) :
      Reachable nthreads s → step s t inv = some s' → Reachable nthreads s'

/-- the completed calls on key `k`, oldest first -/
def callsOn (s : State) (k : Nat) : History2 :=
  (s.hist.filter (·.1 == k)).reverse.map (·.2)

/-- no call is in flight -/
def quiescent (s : State) : Prop := ∀ l ∈ s.threads, l.pc = .idle

end Flurry.Proto.BinR.Base
