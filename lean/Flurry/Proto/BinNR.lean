import Flurry.Proto.BinN
/-! # Proto/BinNR: `Proto/BinN` with RECLAMATION embedded in the concrete heap (C03, C04)

`Proto/Reclaim` is the abstract ownership discipline; `Proto/BinN` is the concrete list-bin lineage through
any number of resizes, in which nodes are never freed. Here the two are put together, by wrapping: the state
is `n : BinN.State` (shared memory, readers, writers, the resizing thread — LITERALLY `Proto/BinN`; every
`base` step is `BinN.step` on `s.n`) plus the reclamation state

* `life i` — `live`, `retired waitFor`, `freed` — per node index (seize's view of the object);
* `pend t` — the nodes thread `t` has unlinked and not yet handed to `retire` (its retire obligations);
* ghosts: `unl i` — `some u` from the step that made node `i` unreachable on (`u` = the threads under a
  guard at that step, minus those that have left their guard since); `w0 i` — the threads under a guard
  when `i` was retired; `exited i` — the threads that have left a guard since `i` was retired. No guard
  of a transition reads a ghost.

A thread is **under a guard** exactly while its program counter is not `idle`: from the invocation of a call
to its response, and for the resizing thread from the start of the resize to its commit (`guarded`).

Transitions (`Act`):
* `base inv resize pick` — one `BinN.step` of thread `t`. If that step is the store that unlinks nodes
  (`retiredBy`: the remover's unlink store — the node it found; the resizing thread's store of the
  forwarding marker — the COPIED PREFIX of the old list, i.e. the nodes before the re-used last run, not the
  re-used nodes, whose owner is now the new list), the nodes are added to `pend t`. If the step ends `t`'s
  guard (response / commit), everything still in `pend t` is retired in that step (the latest point the real
  code can retire: before the guard is dropped), and `t` is removed from every `waitFor`.
* `retire i` — thread `t` retires a node `i ∈ pend t` NOW (any time between its unlink store and its
  response: this covers "after the unlink store", "after the unlock", "just before the response"):
  `life i := retired (all threads under a guard now)`.
* `free i` — allowed iff `life i = retired []`: every thread that was under a guard at the retirement has
  left it.

`early = true` is the seeded slip "retire before unlink": the resizing thread gets the copied prefix into
`pend` already at the store of the low list, BEFORE the forwarding marker is stored (refuted in
`Lemmas/BinNRExamples.lean`).

A **dereference**: `touches n t` = the node indices the next step of thread `t` reads or writes through
(`next` / `key` / `val` / the lock word of the node). `holds pc` = every node index in a program counter that
may still be dereferenced. -/
namespace Flurry.Proto.BinNR
open Flurry.Lin
open Flurry.Proto.BinX (NodeS Cell Pending isReader dflt chainFrom cellHead cellOfHead)
open Flurry.Proto.BinN (Pc Local cellAt cellOf chainOfCell lastRunStartB bitAt)

inductive Life where
  | live
  | retired (waitFor : List Nat)
  | freed
deriving Repr, DecidableEq

structure State where
  n : BinN.State
  life : Nat → Life := fun _ => .live
  pend : Nat → List Nat := fun _ => []
  /-- ghost: the threads that may still hold node `i`, from the step that made it unreachable on -/
  unl : Nat → Option (List Nat) := fun _ => none
  /-- ghost: the threads under a guard when `i` was retired -/
  w0 : Nat → List Nat := fun _ => []
  /-- ghost: the threads that have left a guard since `i` was retired -/
  exited : Nat → List Nat := fun _ => []

def init (nthreads : Nat) : State := { n := BinN.init nthreads }

/-- thread `t` is under a guard: it has a call in flight or is the resizing thread -/
def guarded (n : BinN.State) (t : Nat) : Bool :=
  match n.threads[t]? with
  | some l => l.pc != .idle
  | none => false

/-- the threads under a guard -/
def guardedSet (n : BinN.State) : List Nat := (List.range n.threads.length).filter (guarded n)

/-- node `i` is in the chain of some cell (of any generation) -/
def reach (n : BinN.State) (i : Nat) : Bool :=
  n.tabs.any fun row => row.any fun c => (chainOfCell n c).contains i

/-- the copied prefix of the list `h`: the nodes before the re-used last run (split bit of generation `cur`) -/
def copiedPrefix (n : BinN.State) (h : Nat) : List Nat :=
  let c := chainFrom n.heap n.heap.length (some h)
  c.take (lastRunStartB (bitAt n.cur) n.heap c)

/-- the nodes the next step of thread `t` unlinks (and `t` therefore has to retire) -/
def retiredBy (early : Bool) (n : BinN.State) (t : Nat) : List Nat :=
  match n.threads[t]? with
  | none => []
  | some l =>
    match l.pc, l.call with
    | .wStore _ _ _ (some i) _, some p =>
      match p.op with
      | .rm | .cipRm => [i]
      | _ => []
    | .tStoreMoved _ h, none => if early then [] else copiedPrefix n h
    | .tStoreLow _ h _ _, none => if early then copiedPrefix n h else []
    | _, _ => []

/-- every node index in a program counter that may still be dereferenced -/
def holds : Pc → List Nat
  | .rNode (some c) => [c]
  | .wLock _ h | .wCheck _ h | .wUnlock _ h _ _ => [h]
  | .wFind _ h pred cur => h :: (pred.toList ++ cur.toList)
  | .wStore _ h pred hit hnext => h :: (pred.toList ++ hit.toList ++ hnext.toList)
  | .tLock _ h | .tCheck _ h | .tBuild _ h | .tStoreLow _ h _ _ | .tStoreHigh _ h _ | .tStoreMoved _ h
  | .tUnlock _ h => [h]
  | _ => []

def holdsOf (n : BinN.State) (t : Nat) : List Nat :=
  match n.threads[t]? with
  | some l => holds l.pc
  | none => []

/-- the node indices the next step of thread `t` reads or writes through -/
def touches (n : BinN.State) (t : Nat) : List Nat :=
  match n.threads[t]? with
  | none => []
  | some l =>
    match l.pc with
    | .rNode (some c) => [c]
    | .wLock _ h | .wUnlock _ h _ _ => [h]
    | .wFind _ _ _ (some c) => [c]
    | .wStore _ _ pred hit _ => pred.toList ++ hit.toList
    | .tLock _ h | .tCheck _ h | .tUnlock _ h => [h]
    | .tBuild _ h => chainFrom n.heap n.heap.length (some h)
    | _ => []

def shrinkLife (g : Nat → Bool) : Life → Life
  | .retired w => .retired (w.filter g)
  | x => x

inductive Act where
  | base (inv : Option (Nat × KOp)) (resize : Bool) (pick : Nat)
  | retire (i : Nat)
  | free (i : Nat)
deriving Repr, DecidableEq

/-- the reclamation state after the `BinN` step `s.n → n'` of thread `t` -/
def afterBase (early : Bool) (s : State) (t : Nat) (n' : BinN.State) : State :=
  let gs := guardedSet n'
  let g := guarded n'
  let exits : Bool := guarded s.n t && !g t
  let pend1 : List Nat := s.pend t ++ retiredBy early s.n t
  { n := n'
    unl := fun i => if reach s.n i && !reach n' i then some gs else (s.unl i).map (·.filter g)
    pend := fun t' => if t' = t then (if exits then [] else pend1) else s.pend t'
    life := fun i => if exits && pend1.contains i then .retired gs else shrinkLife g (s.life i)
    w0 := fun i => if exits && pend1.contains i then gs else s.w0 i
    exited := fun i => if exits && pend1.contains i then [] else if exits then t :: s.exited i else s.exited i }

def stepG (early : Bool) (s : State) (t : Nat) : Act → Option State
  | .base inv resize pick => (BinN.step s.n t inv resize pick).map (afterBase early s t)
  | .retire i =>
    if (s.pend t).contains i then
      some { s with
        pend := fun t' => if t' = t then (s.pend t).erase i else s.pend t'
        life := fun j => if j = i then .retired (guardedSet s.n) else s.life j
        w0 := fun j => if j = i then guardedSet s.n else s.w0 j
        exited := fun j => if j = i then [] else s.exited j }
    else none
  | .free i =>
    if s.life i = .retired [] then some { s with life := fun j => if j = i then .freed else s.life j }
    else none

def step (s : State) (t : Nat) (a : Act) : Option State := stepG false s t a

inductive Reachable (nthreads : Nat) : State → Prop
  | init : Reachable nthreads (init nthreads)
  | step {s s' : State} (t : Nat) (a : Act) : Reachable nthreads s → step s t a = some s' → Reachable nthreads s'

end Flurry.Proto.BinNR
