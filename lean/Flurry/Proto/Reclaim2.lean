/-! # Proto/Reclaim2: the ownership discipline of `Proto/Reclaim`, generalised to what lock-free readers really do (C03, C04)

`Proto/Reclaim` lets a thread `acquire` a pointer only to a *linked* object. A lock-free reader that walks a list
legitimately loads the `next` field of a node that has been unlinked meanwhile, and gets a node that may itself be
unlinked (or even retired) already: what makes this safe is that the reader has been under its guard since before
that node was unlinked. Here:

* an unlinked object remembers its **unlink-time set** `u`: the threads under a guard at the moment it was unlinked,
  pruned whenever one of them leaves its guard (`exit`);
* `acquire t o` is allowed when `o` is linked, **or** `o` is unlinked / retired and `t ∈ u`;
* `retire` keeps `u` and records `waitFor` (the threads under a guard at the retirement) as before; `free` when
  `waitFor = []`; `alloc` needs a guard (the creator's pointer is dropped with the guard, like every other pointer);
  `publish` / `unlink` need no pointer in the thread's `holds` (irrelevant for safety).

Objects and threads are indexed by `Nat`; the state consists of functions (no list bookkeeping). No
`unprotectedRetire` (finding F1 is about `Proto/Reclaim`). Theorems: `Lemmas/Reclaim2.lean`, `Props/C03Reclaim2.lean`. -/
namespace Flurry.Proto.Reclaim2

inductive OSt where
  | fresh
  | linked
  /-- unlinked; `u` = threads under a guard at the unlink that have not left it since -/
  | unlinked (u : List Nat)
  | retired (u : List Nat) (waitFor : List Nat)
  | freed
deriving DecidableEq, Repr

structure State where
  nthreads : Nat
  /-- number of objects allocated so far -/
  nobjs : Nat := 0
  objs : Nat → OSt := fun _ => .fresh
  guarded : Nat → Bool := fun _ => false
  /-- objects the thread holds raw pointers to -/
  holds : Nat → List Nat := fun _ => []
  frees : Nat → Nat := fun _ => 0
  badTouches : Nat := 0

inductive Ev where
  | enter (t : Nat)
  | exit (t : Nat)
  | alloc (t : Nat)
  | publish (t o : Nat)
  | acquire (t o : Nat)
  | touch (t o : Nat)
  | unlink (t o : Nat)
  | retire (t o : Nat)
  | free (o : Nat)
deriving DecidableEq, Repr

/-- the threads under a guard -/
def active (s : State) : List Nat := (List.range s.nthreads).filter s.guarded

def prune (t : Nat) : OSt → OSt
  | .unlinked u => .unlinked (u.filter (· != t))
  | .retired u w => .retired (u.filter (· != t)) (w.filter (· != t))
  | st => st

/-- thread `t` may pick up a pointer to an object in this state -/
def acquirable (t : Nat) : OSt → Bool
  | .linked => true
  | .unlinked u => u.contains t
  | .retired u _ => u.contains t
  | _ => false

def setObj (s : State) (o : Nat) (st : OSt) : State := { s with objs := fun x => if x = o then st else s.objs x }

def step (s : State) : Ev → Option State
  | .enter t =>
    if t < s.nthreads ∧ s.guarded t = false then some { s with guarded := fun x => if x = t then true else s.guarded x }
    else none
  | .exit t =>
    if s.guarded t = true then
      some { s with guarded := fun x => if x = t then false else s.guarded x
                    holds := fun x => if x = t then [] else s.holds x
                    objs := fun o => prune t (s.objs o) }
    else none
  | .alloc t =>
    if s.guarded t = true then
      some { s with nobjs := s.nobjs + 1, holds := fun x => if x = t then s.nobjs :: s.holds t else s.holds x }
    else none
  | .publish t o =>
    if o < s.nobjs ∧ s.objs o = .fresh ∧ s.guarded t = true then some (setObj s o .linked) else none
  | .acquire t o =>
    if s.guarded t = true ∧ o < s.nobjs ∧ acquirable t (s.objs o) = true then
      some { s with holds := fun x => if x = t then o :: s.holds t else s.holds x }
    else none
  | .touch t o =>
    if o ∈ s.holds t then
      some (if s.objs o = .freed then { s with badTouches := s.badTouches + 1 } else s)
    else none
  | .unlink _ o =>
    if s.objs o = .linked then some (setObj s o (.unlinked (active s))) else none
  | .retire t o =>
    match s.objs o with
    | .unlinked u => if s.guarded t = true then some (setObj s o (.retired u (active s))) else none
    | _ => none
  | .free o =>
    match s.objs o with
    | .retired _ [] =>
      some { (setObj s o .freed) with frees := fun x => if x = o then s.frees o + 1 else s.frees x }
    | _ => none

def init (nthreads : Nat) : State := { nthreads := nthreads }

def run (s : State) : List Ev → Option State
  | [] => some s
  | e :: es => match step s e with | some s' => run s' es | none => none

end Flurry.Proto.Reclaim2
