import Flurry.Gen.Arith
import Flurry.Proto.Resize
/-! # Proto/ResizeMonitor: the conclusions of the resize theorems, checked on real event streams

The harness projects the event stream of a scheduled run of the real map onto its four control
words (`size_ctl`, `transfer_index`, `table`, `next_table`): one record per access, in the order
the scheduler executed them, with the values involved. `accept` replays such a stream against a
small abstract state (the words, the set of threads currently inside `transfer`, the elected
finisher) and reports the first access that contradicts what `Props/C10.lean` proves of the
protocol model:

* `helper_accounting` — a thread that leaves sees `rs + 1 + participants`;
* `no_stale_join` / `joiner_holds_current_generation` — a join CAS succeeds only on a word of
  the current table's generation that counts at least one participant (`cnt ≥ 2`: not after the
  finisher was elected), while a next table is installed;
* `one_finisher`, `one_publication_per_generation` — at most one finisher; only it clears
  `next_table`, swaps `table` and stores the threshold, and only when nobody is left inside;
* `generations_do_not_overlap`, `initiation_only_from_idle` — a resize starts from an idle word,
  with no next table, nobody inside;
* `quiescent_after_resize` — at the end of a finished run: idle word `= 3/4` of the length, no
  next table, nobody inside;
* stride claims are `max(index − stride, 0)` and start at the table length.

The word is decoded with the generated `BV.rsOf` (the stamp of which table length it carries). -/
namespace Flurry.Proto.ResizeMonitor
open Flurry.Gen

inductive Word where | sizeCtl | transferIndex | table | nextTable
deriving DecidableEq, Repr

inductive Acc where | load | store | swap | cas | yield
deriving DecidableEq, Repr

structure Ev where
  tid : Nat
  word : Word
  acc : Acc
  a : Int
  b : Int
  ok : Bool
  seen : Int
deriving Repr

structure M where
  /-- current table length; `0` = not known yet (lazily created table) -/
  n : Nat := 0
  sc : Int := 0
  ti : Int := 0
  next : Bool := false
  parts : List Nat := []
  fin : Option Nat := none
  /-- a thread is initialising the table (`size_ctl = -1`) -/
  initing : Option Nat := none
  pubs : Nat := 0
  inits : Nat := 0
  joins : Nat := 0
  /-- stores of a first table into the `table` cell (lazy initialisation) -/
  tabInits : Nat := 0
deriving Repr

/-- `rs(2^k)` as a signed integer -/
def rsInt (k : Nat) : Int := (BV.rsOf (1#64 <<< k)).toInt

/-- decode a negative word `rs(2^k) + cnt`: the `k` whose stamp it carries and the count -/
def decode (w : Int) : Option (Nat × Nat) :=
  (List.range 31).findSome? fun k =>
    let d := w - rsInt k
    if 0 ≤ d ∧ d < 2 ^ 32 then some (k, d.toNat) else none

def threshold (n : Nat) : Int := (n : Int) - (n : Int) / 4

def isPow2Len (k n : Nat) : Bool := 2 ^ k == n

/-- one access; `Except.error msg` = the stream contradicts the protocol theorems -/
def step (ncpu : Nat) (m : M) (e : Ev) : Except String M := do
  let t := e.tid
  match e.word with
  | .sizeCtl =>
    if e.seen != m.sc then
      throw s!"size_ctl is {e.seen} but the accesses seen so far leave it at {m.sc}: a change went unobserved"
    -- a `yield` record on an idle word stands for the initiation CAS of add_count (no hook inside the condition)
    let isCas := e.acc == .cas || (e.acc == .yield && e.a ≥ 0 && e.b < 0)
    if isCas then
      if !(e.ok && e.seen == e.a) then return m       -- failed CAS: nothing happens
      if e.a ≥ 0 then
        if e.b == -1 then return { m with sc := e.b, initing := some t }
        else if e.b < 0 then
          match decode e.b with
          | some (k, c) =>
            if c != 2 then throw s!"a resize is initiated with count {c}, not 2"
            if m.n != 0 && !isPow2Len k m.n then throw s!"a resize is initiated with the stamp of a {2 ^ k}-bin table, the table has {m.n} bins"
            if m.next then throw "a resize is initiated while a next table is installed (generations overlap)"
            if !m.parts.isEmpty || m.fin.isSome then throw s!"a resize is initiated while threads {m.parts} / finisher {m.fin} of the previous one are still inside"
            if m.n != 0 && e.a != threshold m.n then throw s!"a resize is initiated from the idle word {e.a}, not from the threshold {threshold m.n}"
            return { m with sc := e.b, n := 2 ^ k, parts := [t], inits := m.inits + 1 }
          | none => throw s!"size_ctl is set to {e.b}, which carries no legal stamp"
        else if e.b == e.a - 1 then
          throw s!"thread {t} decrements the published threshold {e.a}: it left a resize after its table was published"
        else return { m with sc := e.b }
      else if e.a == -1 then return { m with sc := e.b }
      else
        match decode e.a with
        | none => throw s!"size_ctl holds {e.a}, which carries no legal stamp"
        | some (k, c) =>
          if e.b == e.a + 1 then
            -- join
            if !isPow2Len k m.n then throw s!"thread {t} joins a resize stamped for a {2 ^ k}-bin table while the table has {m.n} bins"
            if c < 2 then throw s!"thread {t} joins after the finisher was elected (count {c})"
            if !m.next then throw s!"thread {t} joins while no next table is installed"
            if m.parts.contains t then throw s!"thread {t} joins twice"
            return { m with sc := e.b, parts := t :: m.parts, joins := m.joins + 1 }
          else if e.b == e.a - 1 then
            -- leave
            if !m.parts.contains t then throw s!"thread {t} leaves a resize it never entered"
            if c != 1 + m.parts.length then
              throw s!"helper accounting: thread {t} leaves at count {c} while {m.parts.length} threads are inside (expected {1 + m.parts.length})"
            let parts := m.parts.erase t
            if c == 2 then
              if m.fin.isSome then throw s!"a second finisher (thread {t}) is elected while thread {m.fin} is finishing"
              return { m with sc := e.b, parts := parts, fin := some t }
            else return { m with sc := e.b, parts := parts }
          else throw s!"size_ctl goes from {e.a} to {e.b}: neither a join nor a leave"
    else if e.acc == .store then
      if m.initing == some t || m.n == 0 then
        return { m with sc := e.a, initing := none }
      if m.fin != some t then throw s!"thread {t} stores the threshold {e.a} but the finisher is {m.fin}"
      if !m.parts.isEmpty then throw s!"the new table is published while threads {m.parts} are still inside the resize"
      if m.next then throw "the threshold is stored while the next table is still installed"
      if e.a != threshold m.n then throw s!"the threshold stored after the resize is {e.a}, three quarters of {m.n} is {threshold m.n}"
      return { m with sc := e.a, fin := none, pubs := m.pubs + 1 }
    else return m
  | .transferIndex =>
    if e.seen != m.ti then
      throw s!"transfer_index is {e.seen} but the accesses seen so far leave it at {m.ti}"
    match e.acc with
    | .store =>
      if !m.parts.contains t then throw s!"thread {t} stores transfer_index without having initiated a resize"
      if e.a != (m.n : Int) then throw s!"transfer_index starts at {e.a}, the table has {m.n} bins"
      return { m with ti := e.a }
    | .cas =>
      if !(e.ok && e.seen == e.a) then return m
      if !(m.parts.contains t || m.fin == some t) then throw s!"thread {t} claims a stride without being inside the resize"
      -- the stride of the generated `transfer` arithmetic for this table length
      let stride : Int := Flurry.Gen.stride m.n ncpu
      let want : Int := if e.a > stride then e.a - stride else 0
      if e.b != want then throw s!"a stride claim moves transfer_index from {e.a} to {e.b}, expected {want}"
      return { m with ti := e.b }
    | _ => return m
  | .nextTable =>
    match e.acc with
    | .swap =>
      if e.a == 0 then return { m with next := false }
      if m.next then throw "a next table is installed over another one"
      if m.parts != [t] then throw s!"thread {t} installs the next table but the threads inside are {m.parts}"
      return { m with next := true }
    | .store =>
      if e.a != 0 then return { m with next := true }
      if m.fin != some t then throw s!"thread {t} clears next_table but the finisher is {m.fin}"
      if !m.parts.isEmpty then throw s!"next_table is cleared while threads {m.parts} are still inside the resize"
      return { m with next := false }
    | _ => return m
  | .table =>
    match e.acc with
    | .swap =>
      if m.n == 0 then return m
      if m.fin != some t then throw s!"thread {t} swaps the table but the finisher is {m.fin}"
      if m.next then throw "the table is swapped while next_table is still installed"
      return { m with n := 2 * m.n }
    | .store =>
      -- `init_table` / `try_presize` storing the first table: once, and only while there is none
      if e.a == 0 then throw s!"thread {t} stores a null table"
      if m.n != 0 then throw s!"thread {t} stores a fresh table over the existing {m.n}-bin table (the table was initialised twice)"
      if m.tabInits ≥ 1 then throw s!"thread {t} stores a fresh table although one was stored before (the table was initialised twice)"
      return { m with tabInits := m.tabInits + 1 }
    | _ => return m

/-- the whole stream; returns the index of the offending access -/
def run (ncpu : Nat) (m : M) : List Ev → Nat → Except (Nat × String) M
  | [], _ => .ok m
  | e :: es, i =>
    match step ncpu m e with
    | .ok m' => run ncpu m' es (i + 1)
    | .error msg => .error (i, msg)

/-- the end of a finished run: nobody inside, no resizing state left behind -/
def finalCheck (m : M) (nFinal : Nat) : Except String Unit := do
  if !m.parts.isEmpty then throw s!"at quiescence threads {m.parts} are still counted inside a resize"
  if m.fin.isSome then throw s!"at quiescence thread {m.fin} is still the finisher"
  if m.next then throw "at quiescence a next table is still installed"
  if m.sc < 0 then throw s!"at quiescence size_ctl = {m.sc}"
  if m.n != 0 && m.n != nFinal then throw s!"the accesses account for a table of {m.n} bins, the map has {nFinal}"
  if m.n != 0 && m.pubs > 0 && m.sc != threshold m.n then throw s!"at quiescence size_ctl = {m.sc}, three quarters of {m.n} is {threshold m.n}"

def accept (ncpu nStart nFinal : Nat) (sc0 ti0 : Int) (quiescent : Bool) (evs : List Ev) : String :=
  match run ncpu { n := nStart, sc := sc0, ti := ti0 } evs 0 with
  | .error (i, msg) => s!"bad@{i}: {msg}"
  | .ok m =>
    if quiescent then
      match finalCheck m nFinal with
      | .ok _ => s!"ok inits={m.inits} joins={m.joins} pubs={m.pubs}"
      | .error msg => s!"bad@end: {msg}"
    else s!"ok inits={m.inits} joins={m.joins} pubs={m.pubs}"

-- the structural word of the model and the decoded machine word agree on a sample
example : decode (rsInt 4 + 3) = some (4, 3) := by decide
example : threshold 16 = Flurry.Proto.Resize.threshold 16 := by decide

end Flurry.Proto.ResizeMonitor
