import Flurry.Proto.BinG
import Flurry.LinMap
/-! # Proto/TableG: a whole table that is resized once — many lineages, many keys, one history (C01)

`m` bin *lineages*, each a `Proto/BinG` lineage: the cell `i` of the old table (length `m`) and the
cells `i` (`lowCell`) and `i + m` (`highCell`) of the next table (length `2 m`); every cell is empty,
a list bin or a tree bin (with conversions in both directions, lock-free readers, iterators, locked
writers), the old cell is forwarded by `transfer` whatever it holds. The model takes the hash to be
the key: bit 0 of the key is the bit that decides low / high at the resize (`BinG.hiBit k`, i.e.
`k % 2 == 1`), the bits above it select the bin, so key `k` lives in lineage `(k / 2) % m`
(`lineageOf`). Any number of threads; a thread is inside at most one lineage at a time (an operation
on key `k` touches the cells of lineage `lineageOf m k` only). One transition of the table is one
`BinG.step` of one thread in one lineage; all lineages share one clock (every other lineage `tick`s),
so invocation and response times of calls in different lineages are comparable.

**The table pointer is modelled per lineage** (`BinG.State.cur`): the thread that transfers lineage
`i` stays inside it from `xCell` to `xCommit` (the idle-elsewhere condition of `step`), so lineage `i`
is committed right after its own forwarding store, lineage by lineage; different lineages may be
transferred by different threads (helpers); each lineage is transferred once (`BinG.State.resizing`).
In the code `table := next` is stored once, after every bin has been forwarded. How the two relate
(stated here, NOT proved — the theorems are about the model's executions): an operation of the code
that starts in lineage `i` after the forwarding store of `i` and before the real publication loads
the old table pointer, then the forwarding marker, then continues in the next table; in the model
it may load the next-table pointer directly. The two differ by two reads of cells that never change
again (`cell0 = moved` is final) and concern no other thread: the operation then works on the same
cell of the next table, and the model's thread may simply take its (fewer) steps at the times of
the corresponding steps of the code, so invocation time, response time and result are the same. In
the other direction the model has nothing the code cannot show. A lineage answering from the next
table while another one has not been forwarded yet is what the real readers and writers see too,
through the forwarding marker.

The history of the table is the history of the *map*: calls on all keys together. Proved
(`Lemmas/TableG.lean`, `Props/C01TableG.lean`): at quiescence it is `LinMap.MapLinearizable` — ONE
sequential order of all calls on all keys, respecting real time, each call answering what a
sequential map answers — from the empty map to the map whose key `k` has the abstract state of
lineage `lineageOf m k`. This is the per-lineage theorem (`binG_linearizable_quiescent`) composed
with locality (`C01.locality`); a `tick` of a lineage is the `BinG` step of a thread that is idle
there and starts nothing, so every lineage of a reachable table is `BinG.Reachable`. -/
namespace Flurry.Proto.TableG
open Flurry.Lin Flurry.LinMap

structure State where
  bins : List BinG.State
deriving Repr

def init (m nthreads : Nat) : State := { bins := List.replicate m (BinG.init nthreads) }

/-- the lineage of key `k` in a table of `m` lineages: bit 0 decides low / high at the resize
(`BinG.hiBit`), the bits above it select the bin -/
def lineageOf (m k : Nat) : Nat := (k / 2) % m

/-- the clock of a lineage advances although nothing happens in it -/
def tick (b : BinG.State) : BinG.State := { b with now := b.now + 1 }

/-- is thread `t` idle in lineage `b` -/
def idleIn (b : BinG.State) (t : Nat) : Bool :=
  match b.threads[t]? with
  | some l => l.pc == .idle
  | none => false

/-- is the key (if any) a key of lineage `i` of a table of `m` lineages -/
def inLineage (m i : Nat) : Option Nat → Bool
  | some k => lineageOf m k == i
  | none => true

/-- One step of thread `t` in lineage `i` (the arguments after `t` are those of `BinG.step`). A
thread can act in lineage `i` only while it is idle in every other lineage; a call it starts there
must be on a key of that lineage, and so must the key that names the cell of a treeify (`maint`;
only bit 0 of that key matters). Every other lineage ticks. -/
def step (S : State) (i t : Nat) (inv : Option (Nat × KOp)) (listOnly : Bool) (maint : Option Nat)
    (resize small small2 : Bool) : Option State :=
  let m := S.bins.length
  match S.bins[i]? with
  | none => none
  | some b =>
    if !((List.range m).all fun j => j == i || idleIn (S.bins.getD j (BinG.init 0)) t) then none
    else if !inLineage m i (inv.map (·.1)) then none
    else if !inLineage m i maint then none
    else
      match BinG.step b t inv listOnly maint resize small small2 with
      | none => none
      | some b' => some { bins := (S.bins.map tick).set i b' }

inductive Reachable (m nthreads : Nat) : State → Prop
  | init : Reachable m nthreads (init m nthreads)
  | step {S S' : State} (i t : Nat) (inv : Option (Nat × KOp)) (listOnly : Bool) (maint : Option Nat)
      (resize small small2 : Bool) :
      Reachable m nthreads S → step S i t inv listOnly maint resize small small2 = some S' →
      Reachable m nthreads S'

def quiescent (S : State) : Prop := ∀ b ∈ S.bins, BinG.quiescent b

/-- the completed calls of one lineage as calls of the map, oldest first -/
def binCalls (b : BinG.State) : MHistory := b.hist.reverse.map fun e => ⟨e.1, e.2⟩

/-- the history of the map: the calls of all lineages (lineage by lineage; the order of the list
carries no meaning, the times do) -/
def mhist (S : State) : MHistory := (S.bins.map binCalls).flatten

/-- the abstract map: key `k` has the abstract state of its lineage -/
def absMap (S : State) : MSt :=
  fun k => BinG.absOf (S.bins.getD (lineageOf S.bins.length k) (BinG.init 0)) k

end Flurry.Proto.TableG
