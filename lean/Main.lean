import Flurry.Driver
def main : IO Unit := do
  let stdin ← IO.getStdin
  let stdout ← IO.getStdout
  Flurry.Driver.loop stdin stdout {}
