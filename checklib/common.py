"""Shared machinery of /verif/check: builds, translator, Lean audit, evidence, verdicts."""
import fcntl, json, os, re, subprocess, sys, time, hashlib

VERIF = os.path.dirname(os.path.dirname(os.path.abspath(__file__)))
REPO = os.environ.get("VERIF_REPO", "/repo")
LEAN = os.path.join(VERIF, "lean")
BUILD = os.path.join(VERIF, "build")
EXTRACT_BIN = os.path.join(BUILD, "extract-target", "debug", "flurry-extract")
HARNESS_BIN = os.path.join(BUILD, "harness-target", "debug", "flurry-harness")
MODEL_BIN = os.path.join(LEAN, ".lake", "build", "bin", "flurry-model")
EVIDENCE = os.path.join(VERIF, "evidence")
REPLAYS = os.path.join(VERIF, "replays")
KNOWN = os.path.join(VERIF, "KNOWN_FINDINGS.txt")
JOBS = min(16, os.cpu_count() or 4)
STD_AXIOMS = {"propext", "Classical.choice", "Quot.sound"}

ENV = dict(os.environ)
ENV.update({"CARGO_NET_OFFLINE": "true", "GOPROXY": "off", "PIP_NO_INDEX": "1"})
# the shell profile prints a conda warning into every subprocess' stderr; harmless


def sh(cmd, cwd=None, timeout=None, env=None, stdin=None):
    """run a command, return (rc, combined output)"""
    try:
        p = subprocess.run(cmd, cwd=cwd, shell=isinstance(cmd, str), stdout=subprocess.PIPE,
                           stderr=subprocess.STDOUT, timeout=timeout, env=env or ENV, input=stdin)
        out = p.stdout.decode("utf-8", "replace") if isinstance(p.stdout, bytes) else p.stdout
        return p.returncode, out
    except subprocess.TimeoutExpired as e:
        out = e.stdout.decode("utf-8", "replace") if e.stdout else ""
        return 124, out + "\n<timeout>"


class Lock:
    """serialise builds between concurrently running checks"""
    def __init__(self, name):
        os.makedirs(BUILD, exist_ok=True)
        self.path = os.path.join(BUILD, name + ".lock")
    def __enter__(self):
        self.f = open(self.path, "w")
        fcntl.flock(self.f, fcntl.LOCK_EX)
        return self
    def __exit__(self, *a):
        fcntl.flock(self.f, fcntl.LOCK_UN)
        self.f.close()


def log(msg):
    print("[check] " + msg, flush=True)


# ------------------------------------------------------------------------------------ builds

def build_extractor():
    with Lock("extract"):
        rc, out = sh(["cargo", "build", "--offline", "--quiet"], cwd=os.path.join(VERIF, "extract"), timeout=900)
    if rc != 0:
        raise RuntimeError("extractor build failed:\n" + out[-3000:])


def run_extractor():
    """regenerate lean/Flurry/Gen/*.lean from /repo/src; returns the report dict"""
    build_extractor()
    with Lock("lean"):
        rc, out = sh([EXTRACT_BIN, os.path.join(REPO, "src"), os.path.join(LEAN, "Flurry", "Gen")], timeout=120)
    if rc != 0:
        raise RuntimeError("extractor failed:\n" + out[-3000:])
    line = [l for l in out.splitlines() if l.startswith("{")][-1]
    return json.loads(line)


def lake_build(targets, timeout=1800):
    """returns (ok, output)"""
    with Lock("lean"):
        rc, out = sh(["lake", "build"] + list(targets), cwd=LEAN, timeout=timeout)
    return rc == 0, out


def build_model_exe():
    ok, out = lake_build(["flurry-model"])
    return ok, out


HARNESS_BIN_RELEASE = os.path.join(BUILD, "harness-target", "release", "flurry-harness")


def build_harness(release=False):
    with Lock("harness"):
        rc, out = sh(["cargo", "build", "--offline", "--quiet"] + (["--release"] if release else []),
                     cwd=os.path.join(VERIF, "harness"), timeout=1800)
    return rc == 0, out


def lean_errors(out):
    """extract 'file:line:col: error: msg' heads from lake output"""
    errs = []
    for l in out.splitlines():
        m = re.match(r"^(?:error: )?(\S+\.lean):(\d+):(\d+): error(?:\([^)]*\))?: (.*)$", l)
        if m:
            errs.append({"file": m.group(1), "line": int(m.group(2)), "msg": m.group(4)[:300]})
    return errs


def theorem_at(path, line):
    """name of the declaration enclosing a line of a Lean file (best effort)"""
    try:
        ls = open(os.path.join(LEAN, path) if not os.path.isabs(path) else path).read().splitlines()
    except OSError:
        return None
    for i in range(min(line, len(ls)) - 1, -1, -1):
        m = re.match(r"^\s*(?:private\s+|protected\s+)?(?:theorem|lemma|def|example|instance)\s+([^\s:(\[{]+)?", ls[i])
        if m:
            return m.group(1) or "example"
    return None


def audit(prop, module, theorems):
    """`#print axioms` on every registered theorem of a property.
    returns dict name -> {"ok": bool, "axioms": [...], "error": str|None}"""
    os.makedirs(os.path.join(BUILD, "audit"), exist_ok=True)
    path = os.path.join(BUILD, "audit", "Audit_%s.lean" % prop)
    imports = module if isinstance(module, list) else [module]
    with open(path, "w") as f:
        for m in imports:
            f.write("import %s\n" % m)
        for t in theorems:
            f.write("#print axioms %s\n" % t)
    with Lock("lean"):
        rc, out = sh(["lake", "env", "lean", path], cwd=LEAN, timeout=900)
    res = {}
    text = out
    for t in theorems:
        short = t
        m = re.search(r"'%s' depends on axioms: \[([^\]]*)\]" % re.escape(short), text, re.S)
        if m:
            ax = [a.strip() for a in m.group(1).replace("\n", " ").split(",") if a.strip()]
            bad = [a for a in ax if a not in STD_AXIOMS]
            res[t] = {"ok": not bad, "axioms": ax, "error": ("non-standard axioms: %s" % bad) if bad else None}
        elif re.search(r"'%s' does not depend on any axioms" % re.escape(short), text):
            res[t] = {"ok": True, "axioms": [], "error": None}
        else:
            res[t] = {"ok": False, "axioms": [], "error": "theorem not found / did not check"}
    return res, out


FORBIDDEN = re.compile(r"\b(sorry|admit|native_decide|bv_decide|implemented_by)\b|^\s*axiom\s|\bunsafe\s|maxHeartbeats\s+0\b")


def grep_forbidden():
    """source grep over the Lean project (comments stripped, best effort)"""
    hits = []
    for root, _, files in os.walk(os.path.join(LEAN, "Flurry")):
        for fn in files:
            if not fn.endswith(".lean"):
                continue
            p = os.path.join(root, fn)
            txt = open(p).read()
            txt = re.sub(r"/-.*?-/", lambda m: "\n" * m.group(0).count("\n"), txt, flags=re.S)
            for i, l in enumerate(txt.splitlines(), 1):
                l2 = l.split("--")[0]
                if FORBIDDEN.search(l2):
                    hits.append("%s:%d: %s" % (os.path.relpath(p, LEAN), i, l.strip()[:120]))
    return hits


# ------------------------------------------------------------------------------------ findings / verdict

def known_findings():
    """entries 'known: property=<id> key=<regex> <text>'; 'fixed:' entries suppress nothing"""
    out = []
    if os.path.exists(KNOWN):
        for l in open(KNOWN):
            l = l.strip()
            m = re.match(r"^known:\s+property=(\S+)\s+key=(\S+)\s+(.*)$", l)
            if m:
                out.append({"property": m.group(1), "key": m.group(2), "text": m.group(3)})
    return out


def repo_state():
    rc, head = sh(["git", "-C", REPO, "rev-parse", "HEAD"])
    rc, diff = sh(["git", "-C", REPO, "diff", "HEAD", "--", "src", "Cargo.toml"])
    return head.strip()[:12] + ("+dirty:" + hashlib.sha1(diff.encode()).hexdigest()[:8] if diff.strip() else "")


class Result:
    """accumulates what a check found and turns it into evidence + exit code"""
    def __init__(self, prop, tier, seed):
        self.prop, self.tier, self.seed = prop, tier, seed
        self.t0 = time.time()
        self.obligations = 0
        self.discharged = 0
        self.theorems = {}
        self.broken = []          # proof obligations / correspondences that no longer check (strings)
        self.failing = []         # concrete failing inputs: dicts {what, replay:{...}}
        self.cov = {}
        self.assumptions = []
        self.trusted = []
        self.notes = []
        self.checker_cmd = ""

    def add_broken(self, what):
        if what not in self.broken:
            self.broken.append(what)

    def add_failing(self, what, replay):
        self.failing.append({"what": what, "replay": replay})

    def finish(self):
        os.makedirs(EVIDENCE, exist_ok=True)
        os.makedirs(REPLAYS, exist_ok=True)
        known = [k for k in known_findings() if k["property"] == self.prop]
        new_fail, known_hit = [], []
        for f in self.failing:
            k = next((k for k in known if re.search(k["key"], f["what"])), None)
            (known_hit if k else new_fail).append((f, k))
        for f, k in known_hit:
            print("KNOWN-FINDING: property=%s %s" % (self.prop, k["text"]))
        violations = 0
        replay_path = None
        verdict = "holds"
        if new_fail:
            violations = len(new_fail)
            replay_path = os.path.join(REPLAYS, "%s-%s-%d.json" % (self.prop, self.tier, self.seed))
            json.dump({"property": self.prop, "repo": repo_state(), "seed": self.seed, "tier": self.tier,
                       "failing_inputs": [f for f, _ in new_fail][:20],
                       "broken_obligations": self.broken}, open(replay_path, "w"), indent=1)
            verdict = "violation"
        elif self.broken:
            violations = 1
            replay_path = os.path.join(REPLAYS, "%s-%s-%d.json" % (self.prop, self.tier, self.seed))
            json.dump({"property": self.prop, "repo": repo_state(), "seed": self.seed, "tier": self.tier,
                       "no_failing_input_found": True,
                       "no_longer_checks": self.broken,
                       "searched": self.cov.get("search", "the property's correspondence suites and oracles, extended")},
                      open(replay_path, "w"), indent=1)
            verdict = "unproven"
        cov = dict(self.cov)
        cov.setdefault("evaluations", 0)
        cov.setdefault("distinct_nontrivial", 0)
        cov.setdefault("rule", "")
        cov.setdefault("samples", [])
        cov["obligations"] = max(self.obligations, 1)
        cov["discharged"] = self.discharged
        cov["checker_cmd"] = self.checker_cmd or ("cd %s && lake build Flurry.Props.%s" % (LEAN, self.prop))
        cov["trusted_base"] = self.trusted
        cov["theorems"] = self.theorems
        cov["no_longer_checks"] = self.broken
        cov["known_findings_reported"] = [k["text"] for _, k in known_hit]
        cov["verdict"] = verdict
        cov["notes"] = self.notes
        cov["repo_state"] = repo_state()
        ev = {"property_id": self.prop, "tier": self.tier, "seed": self.seed, "level": "proof",
              "coverage": cov, "assumptions": self.assumptions,
              "wall_s": round(time.time() - self.t0, 2), "violations": violations}
        json.dump(ev, open(os.path.join(EVIDENCE, "%s.json" % self.prop), "w"), indent=1)
        if verdict == "violation":
            for f, _ in new_fail[:5]:
                print("  failing input: " + f["what"][:400])
            print("VIOLATION property=%s replay=%s" % (self.prop, replay_path))
            return 1
        if verdict == "unproven":
            for b in self.broken[:8]:
                print("  no longer checks: " + b[:400])
            print("VIOLATION property=%s replay=%s no-failing-input-found" % (self.prop, replay_path))
            return 1
        log("%s holds on everything explored (%d/%d obligations discharged, %.1fs)" %
            (self.prop, self.discharged, self.obligations, time.time() - self.t0))
        return 0
