"""Sequential correspondence suite: real flurry vs the Lean model (`flurry-model`) on generated
operation sequences, plus the implementation-level oracles the harness runs on the same cases."""
import json, os, re
from . import common as C


def parse_snap(s):
    m = re.match(r"^len=(\d+) sc=(-?\d+) count=(-?\d+) ?(.*)$", s)
    if not m:
        return None
    bins = {}
    for b in m.group(4).split(" "):
        if not b:
            continue
        mm = re.match(r"^(\d+):([LTM])(?:\[(.*)\])?$", b)
        if not mm:
            return None
        idx, kind, body = int(mm.group(1)), mm.group(2), mm.group(3) or ""
        shape, nodes = None, body
        if kind == "T":
            shape, _, nodes = body.partition("|")
        bins[idx] = (kind, shape, nodes.split(";") if nodes else [])
    return {"len": int(m.group(1)), "sc": int(m.group(2)), "count": int(m.group(3)), "bins": bins}


def classify(op, a, b):
    """which properties' correspondence a differing answer line breaks"""
    name = op.split(" ")[0]
    cls = set()
    if name == "snap":
        pa, pb = parse_snap(a), parse_snap(b)
        if pa is None or pb is None:
            return {"C02", "C05"}
        if pa["len"] != pb["len"] or pa["sc"] != pb["sc"]:
            cls |= {"C14", "C10"}
        if pa["count"] != pb["count"]:
            cls |= {"C05"}
        ea = sorted(n for k in pa["bins"].values() for n in k[2])
        eb = sorted(n for k in pb["bins"].values() for n in k[2])
        if ea != eb:
            cls |= {"C02", "C05"}
        if pa["len"] == pb["len"]:
            for i in set(pa["bins"]) | set(pb["bins"]):
                ka, kb = pa["bins"].get(i), pb["bins"].get(i)
                if ka is None or kb is None:
                    cls |= {"C05"}
                    continue
                if ka[0] != kb[0]:
                    cls |= {"C06"}          # list where the model has a tree or vice versa
                elif ka[0] == "T" and ka[1] != kb[1]:
                    cls |= {"C06"}          # different tree shape / colouring
                elif ka[0] == "T" and ka[2] != kb[2]:
                    cls |= {"C06"} if sorted(ka[2]) != sorted(kb[2]) else {"order"}
                elif ka[2] != kb[2]:
                    cls |= {"order"} if sorted(ka[2]) == sorted(kb[2]) else {"C05"}
        return cls or {"order"}
    if name == "iter":
        if sorted(a.split(";")) != sorted(b.split(";")):
            return {"C02", "C05", "C07"}
        return {"order"}
    if name in ("retain", "retainf"):
        cls = {"C13", "C02"}
        if "panic" in (a, b):
            cls.add("C18")
        return cls
    if name == "cip":
        cls = {"C02", "C08"}
        if "panic" in (a, b):
            cls.add("C18")
        return cls
    if name in ("len", "isempty"):
        return {"C05", "C02"}
    if name == "reserve":
        return {"C14"}
    return {"C02"}


TAG_PROPS = {
    "answer:snap": ["C05"], "answer:iter": ["C02", "C05", "C07"], "answer:len": ["C05", "C02"],
    "answer:isempty": ["C05", "C02"], "answer:retain": ["C13", "C02"], "answer:retainf": ["C13", "C02"],
    "answer:cip": ["C02", "C08", "C18"], "final": ["C02", "C05"], "panic": ["C02", "C18"],
    "retain": ["C13"], "cost": ["C06"], "cap": ["C14"],
    "uaf": ["C03"], "drop": ["C04"], "double-free": ["C03", "C04"], "early-free": ["C03", "C04"], "retire-reachable": ["C03"],
}


def props_of_failure(f):
    m = re.match(r"^\[([^\]]+)\]", f)
    tag = m.group(1) if m else ""
    if tag in TAG_PROPS:
        ps = list(TAG_PROPS[tag])
    elif tag.startswith("answer:"):
        ps = ["C02"]
    else:
        ps = ["C02"]
    if tag == "answer:snap":
        if re.search(r"bin \d+: ", f):
            ps.append("C06")
        if "power of two" in f or "longer than" in f:
            ps.append("C14")
        if "forwarding marker" in f or "next_table" in f or "size_ctl" in f:
            ps.append("C10")
        if "lock" in f:
            ps.append("C18")
    m2 = re.search(r"the preceding operation was `(\w+)", f)
    if m2:
        # the first difference of a case shows up in the dump / read that follows the operation that went wrong
        prev = m2.group(1)
        if prev in ("retain", "retainf") and "C13" not in ps:
            ps.append("C13")
        if prev == "cip" and "C08" not in ps:
            ps.append("C08")
        if prev in ("reserve", "extend", "collect") and "C14" not in ps and "len=" in f:
            ps.append("C14")
    if "(after a panic in op" in f and "C18" not in ps:
        ps.append("C18")
    if tag in ("answer:cip",) and "panic" not in f:
        ps = [p for p in ps if p != "C18"]
    return ps


def run(seed, cases, max_ops=60, max_keys=40, tag="seq", life=False):
    """returns dict with harness report, model diffs (classified), sample lines"""
    os.makedirs(os.path.join(C.BUILD, "run"), exist_ok=True)
    base = os.path.join(C.BUILD, "run", "%s-%d-%d" % (tag, seed, os.getpid()))
    ops, impl, model, rep = base + ".ops", base + ".impl", base + ".model", base + ".json"
    rc, out = C.sh([C.HARNESS_BIN, "seq", "--seed", str(seed), "--cases", str(cases), "--max-ops", str(max_ops),
                    "--max-keys", str(max_keys), "--ops", ops, "--impl", impl, "--report", rep,
                    "--progress", base + ".progress"] + (["--life", "1"] if life else []), timeout=1800)
    res = {"harness_rc": rc, "diffs": [], "report": None, "model_ran": False, "files": (ops, impl, model)}
    if rc != 0 or not os.path.exists(rep):
        res["harness_error"] = out[-2000:]
        res["crash_at"] = open(base + ".progress").read() if os.path.exists(base + ".progress") else "?"
        res["rc"] = rc
        return res
    res["report"] = json.load(open(rep))
    if os.path.exists(C.MODEL_BIN):
        import subprocess, resource

        def limits():
            # a model built from a definition the translator could not extract may diverge:
            # bound its memory and let the caller bound its time
            resource.setrlimit(resource.RLIMIT_AS, (8 << 30, 8 << 30))

        with open(ops, "rb") as fin, open(model, "wb") as fout:
            try:
                p = subprocess.run([C.MODEL_BIN], stdin=fin, stdout=fout, stderr=subprocess.PIPE,
                                   timeout=300 + cases // 10, preexec_fn=limits)
                mrc, merr = p.returncode, p.stderr.decode("utf-8", "replace")
            except subprocess.TimeoutExpired:
                mrc, merr = 124, "the model driver did not finish within its time limit"
        if mrc == 0:
            res["model_ran"] = True
            lo = open(ops).read().split("\n")
            la = open(impl).read().split("\n")
            lb = open(model).read().split("\n")
            case, start, panic_seen = None, 0, False
            if len(la) != len(lb):
                res["diffs"].append({"case": "-", "op": "-", "impl": "%d lines" % len(la), "model": "%d lines" % len(lb),
                                     "classes": ["C02"], "opi": -1})
            for i, (o, x, y) in enumerate(zip(lo, la, lb)):
                if o.startswith("# case"):
                    case, start, panic_seen = o, i, False
                    continue
                if x == "panic" or y == "panic":
                    panic_seen = True
                if x != y:
                    res["diffs"].append({"case": case, "opi": i - start - 1, "op": o[:300], "impl": x[:600], "model": y[:600],
                                         "classes": sorted(classify(o, x, y) | ({"C18"} if panic_seen else set())),
                                         "prefix": lo[start + 1:i + 1] if i - start < 400 else lo[i - 30:i + 1]})
        else:
            res["model_error"] = "exit %d: %s" % (mrc, merr[-1000:])
    return res


def cleanup(res):
    for f in res.get("files", ()):
        try:
            os.remove(f)
        except OSError:
            pass
