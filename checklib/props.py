"""Per-property checks. Each function fills a common.Result."""
import json, os, re
from . import common as C
from . import seqsuite as S

TRUSTED_COMMON = [
    "Lean 4.33.0 kernel; axioms per theorem listed under coverage.theorems (only propext, Classical.choice, Quot.sound accepted)",
    "the translator /verif/extract (syn-based; expression subset in extract/src/expr.rs) that regenerates lean/Flurry/Gen/*.lean from /repo/src on every run",
    "the hand-written Lean models (lean/Flurry/Seq, RB, Proto, Sig): modelled, not verified; tied to the code only by the correspondence runs of this check",
    "the cfg(flurry_verif) hooks and inspector in /repo/src/verif*.rs and the Rust harness /verif/harness (generators, canonicalisation, oracles)",
]

# property -> list of (module, [theorem names])
THEOREMS = {
    "C10": [("Flurry.Props.C10Arith", [
        "Flurry.C10.stamp_negative", "Flurry.C10.stamp_low_zero", "Flurry.C10.stamp_injective",
        "Flurry.C10.stamp_room", "Flurry.C10.initiate_is_two", "Flurry.C10.finisher_iff",
        "Flurry.C10.join_leave", "Flurry.C10.join_refused_iff", "Flurry.C10.threshold_after",
        "Flurry.C10.double_exact"])],
    "C14": [("Flurry.Props.C14Arith", [
        "Flurry.C14.table_size_pow2", "Flurry.C14.table_size_le_max", "Flurry.C14.same_rounding",
        "Flurry.C14.with_capacity_room", "Flurry.C14.reserve_room_uninit", "Flurry.C14.reserve_done_iff",
        "Flurry.C14.reserve_room", "Flurry.C14.init_default", "Flurry.C14.add_count_stored",
        "Flurry.C14.add_count_local", "Flurry.C14.add_count_local_eq_stored",
        "Flurry.C14.removal_count_decreases", "Flurry.C14.grow_test", "Flurry.C14.thresholds"])],
}

THEOREMS["C09"] = [("Flurry.Props.C09", [
    "Flurry.C09.all_public_guarded", "Flurry.C09.checkedUsesWith_sound", "Flurry.C09.checkedRow_sound",
    "Flurry.C09.checked_sound", "Flurry.C09.no_foreign_use"])]

THEOREMS["C06"] = [("Flurry.Props.C06", [
    "Flurry.C06.treeify_inv", "Flurry.C06.insert_preserves", "Flurry.C06.remove_preserves",
    "Flurry.C06.untreeify_sizes", "Flurry.C06.set_value_preserves", "Flurry.C06.tree_find_iff_mem",
    "Flurry.C06.tree_find_none_iff", "Flurry.C06.lookup_cost", "Flurry.C06.height_log",
    "Flurry.C06.validator_iff", "Flurry.C06.inserts_preserve"])]
THEOREMS["C19"] = [("Flurry.Props.C19", [
    "Flurry.C19.deserialize_total", "Flurry.C19.set_policy_no_failure", "Flurry.C19.deserializeFrom_lastWins",
    "Flurry.C19.roundtrip", "Flurry.C19.roundtrip_current", "Flurry.C19.lookup_insertAll",
    "Flurry.C19.par_extend_any_order"])]

TIERS = {
    "quick": {"seq_cases": 400, "seq_ops": 60, "search_mult": 6},
    "thorough": {"seq_cases": 20000, "seq_ops": 160, "search_mult": 3},
}


def setup():
    """MANIFEST.setup_cmd: build everything once from the files on disk"""
    C.log("setup: translator")
    rep = C.run_extractor()
    if rep["failed"]:
        C.log("translator could not extract: %s" % rep["failed"])
    C.log("setup: lake build (model, theorems, driver)")
    ok, out = C.lake_build(["Flurry", "flurry-model"])
    if not ok:
        print(out[-4000:])
    C.log("setup: harness")
    ok2, out2 = C.build_harness()
    if not ok2:
        print(out2[-4000:])
    return 0 if (ok and ok2) else 1


# ------------------------------------------------------------------------------------ shared steps

def translator_step(R):
    rep = C.run_extractor()
    R.cov["translator"] = {"items_ok": len(rep["ok"]), "items_failed": rep["failed"], "counts": rep.get("counts", {})}
    return rep


def lean_step(R, prop):
    """build + audit the theorems registered for prop; fills obligations/discharged/broken"""
    groups = THEOREMS.get(prop, [])
    mods = [m for m, _ in groups]
    names = [t for _, ts in groups for t in ts]
    R.obligations = len(names)
    R.checker_cmd = "cd %s && lake build %s && lake env lean <audit file with #print axioms>" % (C.LEAN, " ".join(mods))
    ok, out = C.lake_build(mods)
    if not ok:
        errs = C.lean_errors(out)
        seen = set()
        for e in errs:
            if "extraction_failed" in open(os.path.join(C.LEAN, e["file"])).read().splitlines()[e["line"] - 1] if os.path.exists(os.path.join(C.LEAN, e["file"])) else False:
                what = "translator could not extract an item (%s line %d)" % (e["file"], e["line"])
            else:
                th = C.theorem_at(e["file"], e["line"])
                what = "Lean: %s in %s:%d no longer checks: %s" % (th or "declaration", e["file"], e["line"], e["msg"][:160])
            if what not in seen:
                seen.add(what)
                R.add_broken(what)
        if not errs:
            R.add_broken("Lean build of %s failed: %s" % (mods, out[-400:]))
    # audit whatever builds (theorems in modules that failed will be reported as missing)
    res, aout = C.audit(prop, mods, names)
    for t, r in res.items():
        R.theorems[t] = {"axioms": r["axioms"], "ok": r["ok"]}
        if r["ok"]:
            R.discharged += 1
        elif ok:
            R.add_broken("Lean: theorem %s: %s" % (t, r["error"]))
    hits = C.grep_forbidden()
    if hits:
        for h in hits[:5]:
            R.add_broken("forbidden construct in the Lean sources: " + h)
    R.cov["forbidden_constructs"] = hits
    return ok


def harness_step(R):
    ok, out = C.build_harness()
    if not ok:
        R.add_broken("the harness no longer builds against /repo (hooks/inspector): " + out[-600:])
        return False
    okm, outm = C.build_model_exe()
    if not okm:
        R.add_broken("the Lean model driver no longer builds: " + "; ".join(e["msg"] for e in C.lean_errors(outm)[:3]))
    return True


def seq_step(R, prop, own_classes=None, seeds=None):
    """run the sequential suite; oracle failures of this property -> failing inputs,
    model disagreements of this property -> broken correspondence (+ extended search)"""
    t = TIERS[R.tier]
    own = own_classes or {prop}
    total_cases, total_ops, nontrivial = 0, 0, 0
    agg = {}
    samples = []
    found_fail = False
    diffs_own = []
    rounds = [(R.seed, t["seq_cases"])]
    search_done = False
    unmodelled = 0
    benign = 0
    while rounds:
        seed, cases = rounds.pop(0)
        res = S.run(seed, cases, max_ops=t["seq_ops"])
        if res.get("report") is None:
            R.add_broken("harness run failed: " + res.get("harness_error", "")[-300:])
            break
        rep = res["report"]
        total_cases += rep["cases"]
        total_ops += rep["ops"]
        nontrivial += rep["distinct_nontrivial"]
        for k in ("by_hash_class", "by_facade", "by_op"):
            for kk, v in rep[k].items():
                agg.setdefault(k, {})[kk] = agg.setdefault(k, {}).get(kk, 0) + v
        for k in ("max_tree_cmp", "max_bin"):
            agg[k] = max(agg.get(k, 0), rep[k])
        for k in ("tree_lookups", "tree_bin_snapshots", "resizes_seen"):
            agg[k] = agg.get(k, 0) + rep[k]
        if not samples:
            samples = rep["samples"][:2]
        for f in rep["failures"]:
            if own & set(S.props_of_failure(f)):
                found_fail = True
                m = re.search(r"\[case-seed (\d+)\]", f)
                R.add_failing(f, {"suite": "seq", "how": "%s seq-replay --case-seed %s --max-ops %d" % (C.HARNESS_BIN, m.group(1) if m else "?", t["seq_ops"]), "failure": f})
        if not res["model_ran"]:
            R.notes.append("model driver unavailable: implementation-level oracles only")
        for d in res["diffs"]:
            if set(d["classes"]) <= {"order"}:
                benign += 1
                continue
            if own & set(d["classes"]):
                diffs_own.append(d)
        S.cleanup(res)
        if (diffs_own or R.broken) and not found_fail and not search_done:
            # something no longer checks: search further for a concrete failing input
            search_done = True
            for j in range(t["search_mult"]):
                rounds.append((R.seed * 1000003 + 17 * (j + 1), t["seq_cases"]))
    for d in diffs_own[:5]:
        R.add_broken("correspondence seq-model-vs-implementation: %s op %d `%s`: implementation `%s`, model `%s`" %
                     (d["case"], d["opi"], d["op"][:80], d["impl"][:160], d["model"][:160]))
    R.cov.update({"evaluations": total_ops, "distinct_nontrivial": nontrivial,
                  "rule": "operation sequences over 4-40 keys generated from one PRNG (seed %d): 10 hash classes, capacities 0..102, four facades; every answer and a structural snapshot after each mutating op compared with the Lean model run on the same lines and with a BTreeMap reference; a case is non-trivial if some bin held >= 2 entries, a resize or a tree bin occurred; distinct by full op text" % R.seed,
                  "samples": samples, "cases": total_cases, "input_distribution": agg,
                  "model_disagreements_this_property": len(diffs_own), "order_only_differences": benign,
                  "search": "on any break: %d further rounds of the same suite with fresh seeds" % t["search_mult"]})


# ------------------------------------------------------------------------------------ the checks

def check_C10(R):
    R.trusted = TRUSTED_COMMON + ["64-bit isize (ISIZE_BITS = 64) in the generated constants"]
    R.assumptions = ["protocol-level theorems (Proto/Resize) are not yet registered: this check decides the arithmetic half and the sequential growth behaviour only"]
    translator_step(R)
    lean_step(R, "C10")
    if harness_step(R):
        seq_step(R, "C10")


def check_C14(R):
    R.trusted = TRUSTED_COMMON
    translator_step(R)
    lean_step(R, "C14")
    if harness_step(R):
        seq_step(R, "C14")


def lean_eval(imports, body, timeout=600):
    """run a small Lean script (diagnostics when a table theorem fails); returns its output"""
    os.makedirs(os.path.join(C.BUILD, "audit"), exist_ok=True)
    path = os.path.join(C.BUILD, "audit", "Eval_%d.lean" % os.getpid())
    with open(path, "w") as f:
        for m in imports:
            f.write("import %s\n" % m)
        f.write(body)
    with C.Lock("lean"):
        C.sh(["lake", "build"] + imports, cwd=C.LEAN, timeout=timeout)
        rc, out = C.sh(["lake", "env", "lean", path], cwd=C.LEAN, timeout=timeout)
    return out


def guard_table():
    """rows of the generated Gen/Guards.lean: (ty, fn, pub, param, nontrivial)"""
    txt = open(os.path.join(C.LEAN, "Flurry", "Gen", "Guards.lean")).read()
    rows = []
    for m in re.finditer(r'ty := "(\w+)", fn := "(\w+)", pub := (true|false), param := "([^"]+)", uses := \[(.*?)\] \}', txt):
        uses = m.group(5)
        nontrivial = bool(re.search(r"\.(check|call|raw)\b", uses))
        rows.append((m.group(1), m.group(2), m.group(3) == "true", m.group(4), nontrivial))
    return rows


def check_C09(R):
    R.trusted = TRUSTED_COMMON + ["the guard-flow abstraction of extract/src/guards.rs: a use is `check` only if `self.check_guard(g)` is a top-level statement; calls are resolved by receiver shape (self / self.map / self.set / other)"]
    R.assumptions = ["seize::Guard::collector() identifies the collector; check_guard panics iff it differs (exercised at run time)"]
    rep = translator_step(R)
    ok = lean_step(R, "C09")
    if not ok or R.broken:
        out = lean_eval(["Flurry.SigDefs", "Flurry.Gen.Guards"],
                        "open Flurry.Sig Flurry.Gen in\n#eval ((guardFns.filter (·.pub)).filter (fun r => !checkedB guardFns guardFns.length r)).map (fun r => (r.ty, r.fn, r.param))\n")
        R.add_broken("Lean: all_public_guarded is false for the rows " + " ".join(l for l in out.splitlines() if l.startswith("[")))
    if not harness_step(R):
        return
    rc, out = C.sh([C.HARNESS_BIN, "guards"], timeout=600)
    try:
        outs = json.loads([l for l in out.splitlines() if l.startswith("[")][-1])
    except Exception:
        R.add_broken("harness `guards` run failed: " + out[-300:])
        return
    rows = guard_table()
    nontrivial = {(t, f, p) for t, f, b, p, nt in rows if nt}
    public_nt = {(t, f, p) for t, f, b, p, nt in rows if nt and b}
    exercised = {(o["ty"], o["fn"], o["param"]) for o in outs}
    distinct = set()
    for o in outs:
        key = (o["ty"], o["fn"], o["param"])
        distinct.add(key + (o["populated"],))
        what = "%s::%s (guard `%s`) on a%s collection" % (o["ty"], o["fn"], o["param"], " populated" if o["populated"] else "n empty")
        if o["changed"]:
            R.add_failing("a call of %s with a guard of a foreign collector changed the map" % what, {"suite": "guards", "how": C.HARNESS_BIN + " guards", "outcome": o})
        elif o["populated"] and not o["panicked"] and (key in nontrivial or key[0] in ("HashMap", "HashSet")):
            R.add_failing("%s accepted a guard of a foreign collector (no panic)" % what, {"suite": "guards", "how": C.HARNESS_BIN + " guards", "outcome": o})
    R.cov.update({"evaluations": len(outs), "distinct_nontrivial": len(distinct),
                  "rule": "every public guard-accepting method of HashMap/HashSet and every method of the with_guard wrappers, called with a guard of an unrelated seize::Collector on empty and populated collections (list and tree bins) under catch_unwind; distinct by (type, method, guard parameter, populated)",
                  "samples": outs[:3], "exhaustive": True,
                  "table_rows": len(rows), "public_rows": len([r for r in rows if r[2]]),
                  "public_rows_not_exercised_at_runtime": sorted("%s::%s(%s)" % k for k in public_nt - exercised)})


def check_C06(R):
    R.trusted = TRUSTED_COMMON + ["the tree model Flurry/RB.lean is a hand transcription of src/node.rs; it is compared with the implementation by exact tree dumps (shape and colours) after every operation"]
    R.assumptions = ["key types whose Eq/Ord/Hash are consistent and do not panic", "cost = number of Eq and Ord calls on keys during one get(); the budget checked on the implementation is ceil(4*log2(n+1))+2"]
    translator_step(R)
    lean_step(R, "C06")
    if harness_step(R):
        seq_step(R, "C06")


def check_C19(R):
    R.trusted = TRUSTED_COMMON + ["serde_json and rayon as drivers of the feature-gated impls", "the duplicate-key policy extraction of extract/src/serde_policy.rs"]
    R.assumptions = ["the rayon half relies on C01 (parallel inserts are equivalent to some sequential order); the theorem par_extend_any_order is about every such order",
                     "well-formed input = a syntactically valid document of the right shape; type errors yield Err, which is allowed"]
    translator_step(R)
    lean_step(R, "C19")
    if not harness_step(R):
        return
    t = TIERS[R.tier]
    n = 300 if R.tier == "quick" else 20000
    rounds = [(R.seed, n)]
    total = {"docs": 0, "docs_with_repeated_keys": 0, "roundtrips": 0, "par_runs": 0}
    samples, diffs, searched = [], [], False
    base = os.path.join(C.BUILD, "run", "bulk-%d" % os.getpid())
    os.makedirs(os.path.dirname(base), exist_ok=True)
    while rounds:
        seed, cases = rounds.pop(0)
        rc, out = C.sh([C.HARNESS_BIN, "bulk", "--seed", str(seed), "--cases", str(cases), "--ops", base + ".ops", "--impl", base + ".impl"], timeout=3600)
        try:
            rep = json.loads([l for l in out.splitlines() if l.startswith("{")][-1])
        except Exception:
            R.add_broken("harness `bulk` run failed: " + out[-300:])
            break
        for k in total:
            total[k] += rep[k]
        samples = samples or rep["samples"]
        for f in rep["failures"]:
            R.add_failing(f, {"suite": "bulk", "how": "%s bulk --seed %d --cases %d" % (C.HARNESS_BIN, seed, cases), "failure": f})
        if os.path.exists(C.MODEL_BIN):
            rc, mout = C.sh("%s < %s.ops" % (C.MODEL_BIN, base), timeout=600)
            lo = open(base + ".ops").read().splitlines()
            la = open(base + ".impl").read().splitlines()
            lb = [l for l in mout.splitlines() if not l.startswith("WARNING")]
            for o, a, b in zip(lo, la, lb):
                if a != b:
                    diffs.append((o, a, b))
        if (diffs or R.broken) and not R.failing and not searched:
            searched = True
            rounds += [(R.seed * 7919 + j, n) for j in range(1, 4)]
    for o, a, b in diffs[:5]:
        R.add_broken("correspondence serde-visitor-model-vs-implementation: `%s`: implementation `%s`, model `%s`" % (o[:120], a[:120], b[:120]))
    for f in (base + ".ops", base + ".impl"):
        if os.path.exists(f):
            os.remove(f)
    R.cov.update({"evaluations": total["docs"] * 2 + total["roundtrips"] * 2 + total["par_runs"] * 3,
                  "distinct_nontrivial": total["docs_with_repeated_keys"],
                  "rule": "JSON documents over 1-12 keys with repetitions (maps and sets) through serde_json::from_str under catch_unwind, compared with the Lean visitor-loop model and with std's last-wins semantics; round trips of the same contents; par_extend/from_par_iter on pools of 1-8 threads against the key-set/value-membership predicate; non-trivial = the document repeats a key",
                  "samples": samples[:3], **total})


CHECKS = {
    "C06": check_C06,
    "C19": check_C19,
    "C09": check_C09,
    "C10": check_C10,
    "C14": check_C14,
}


def replay(prop, path):
    d = json.load(open(path))
    print(json.dumps(d, indent=1)[:4000])
    for f in d.get("failing_inputs", []):
        how = f.get("replay", {}).get("how")
        if how:
            rc, out = C.sh(how, timeout=600)
            print(out[-3000:])
    return 0
