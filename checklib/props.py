"""Per-property checks. Each function fills a common.Result."""
import subprocess, json, os, re
from . import common as C
from . import seqsuite as S
from . import rustcsuite as RS

TRUSTED_COMMON = [
    "Lean 4.33.0 kernel; axioms per theorem listed under coverage.theorems (only propext, Classical.choice, Quot.sound accepted)",
    "the translator /verif/extract (syn-based; expression subset in extract/src/expr.rs) that regenerates lean/Flurry/Gen/*.lean from /repo/src on every run",
    "the hand-written Lean models (lean/Flurry/Seq, RB, Proto, Sig): modelled, not verified; tied to the code only by the correspondence runs of this check",
    "the cfg(flurry_verif) hooks and inspector in /repo/src/verif*.rs and the Rust harness /verif/harness (generators, canonicalisation, oracles)",
]

# property -> list of (module, [theorem names])
THEOREMS = {
    "C10": [("Flurry.Props.C10Arith", [
        "Flurry.C10.stamp_negative", "Flurry.C10.stamp_low_zero", "Flurry.C10.stamp_injective",
        "Flurry.C10.stamp_room", "Flurry.C10.initiate_is_two", "Flurry.C10.finisher_iff",
        "Flurry.C10.join_leave", "Flurry.C10.help_refuses_other_generation", "Flurry.C10.help_same_generation_iff", "Flurry.C10.join_refused_add_count", "Flurry.C10.threshold_after",
        "Flurry.C10.double_exact"])],
    "C14": [("Flurry.Props.C14Arith", [
        "Flurry.C14.table_size_pow2", "Flurry.C14.table_size_le_max", "Flurry.C14.same_rounding",
        "Flurry.C14.with_capacity_room", "Flurry.C14.reserve_room_uninit", "Flurry.C14.reserve_done_iff",
        "Flurry.C14.reserve_room", "Flurry.C14.init_default", "Flurry.C14.add_count_stored",
        "Flurry.C14.add_count_local", "Flurry.C14.add_count_local_eq_stored",
        "Flurry.C14.removal_count_decreases", "Flurry.C14.grow_test", "Flurry.C14.thresholds"])],
}

THEOREMS["C09"] = [("Flurry.Props.C09", [
    "Flurry.C09.all_public_guarded", "Flurry.C09.check_guard_unconditional", "Flurry.C09.checkedUsesWith_sound", "Flurry.C09.checkedRow_sound",
    "Flurry.C09.checked_sound", "Flurry.C09.no_foreign_use"])]

THEOREMS["C06"] = [("Flurry.Props.C01BinGNLin", ["Flurry.Proto.BinGN.quiescent_tree_eq_list", "Flurry.Proto.BinGN.binGN_inv"]), ("Flurry.Props.C01BinG", ["Flurry.Proto.BinG.quiescent_tree_eq_list"]), ("Flurry.Props.C12", ["Flurry.C12.find_searches_tree_under_read_lock", "Flurry.C12.find_writes_nothing_but_the_lock_word"]), ("Flurry.Props.C01BinK", ["Flurry.Proto.BinK.quiescent_tree_eq_list", "Flurry.Proto.BinK.conversion_abs_invariant"]), ("Flurry.Props.C01BinU", ["Flurry.Proto.BinU.tree_eq_list_unlocked", "Flurry.Proto.BinU.binu_inv", "Flurry.Proto.BinU.remove_locks_before_unlink", "Flurry.Proto.BinU.insert_locks_before_prepend"]), ("Flurry.Props.C06", [
    "Flurry.C06.treeify_inv", "Flurry.C06.insert_preserves", "Flurry.C06.remove_preserves",
    "Flurry.C06.untreeify_sizes", "Flurry.C06.set_value_preserves", "Flurry.C06.tree_find_iff_mem",
    "Flurry.C06.tree_find_none_iff", "Flurry.C06.lookup_cost", "Flurry.C06.height_log",
    "Flurry.C06.validator_iff", "Flurry.C06.inserts_preserve"])]
THEOREMS["C19"] = [("Flurry.Props.C10", ["Flurry.C10.fill_then_forward_then_retire"]), ("Flurry.Props.C19", [
    "Flurry.C19.deserialize_total", "Flurry.C19.set_policy_no_failure", "Flurry.C19.deserializeFrom_lastWins",
    "Flurry.C19.roundtrip", "Flurry.C19.roundtrip_current", "Flurry.C19.lookup_insertAll",
    "Flurry.C19.par_extend_any_order"])]

THEOREMS["C16"] = [("Flurry.Props.C16", [
    "Flurry.C16.results_tied_collections", "Flurry.C16.results_tied_wrappers", "Flurry.C16.fields_tied",
    "Flurry.C16.items_tied", "Flurry.C16.no_static_bound", "Flurry.C16.use_after_release_rejected"])]
THEOREMS["C17"] = [("Flurry.Props.C17", [
    "Flurry.C17.inserting_needs_send_sync", "Flurry.C17.lookup_unbounded", "Flurry.C17.binentry_conditional"])]

THEOREMS["C01"] = [("Flurry.Props.C01TableGN", ["Flurry.Proto.TableGN." + n for n in "tableGN_map_linearizable tableGN_key_linearizable tableGN_key_linearizable_ext tableGN_proj_eq tableGN_inv_le_resp bins_length tableGN_tick_is_lineage_step tableGN_lineage_reachable tableGN_lineage_inv tableGN_key_in_own_lineage tableGN_one_lineage_per_thread tableGN_generations_do_not_overlap tableGN_old_generations_forwarded tableGN_transfer_abs_invariant tableGN_transfer_absMap_invariant tableGN_quiescent_tree_eq_list tableGN_quiescent_shape".split()]), ("Flurry.Props.C01BinGNLin", ["Flurry.Proto.BinGN." + n for n in "binGN_linearizable_quiescent binGN_linearizable binGN_inv transfer_abs_invariant nocall_abs_invariant quiescent_tree_eq_list example_runs_linearizable_all".split()]), ("Flurry.Props.C01TableNH", ["Flurry.Proto.TableNH." + n for n in "tableNH_map_linearizable tableNH_key_linearizable tableNH_cell_migrated_at_most_once tableNH_commit_only_when_all_forwarded tableNH_stale_helper_is_harmless tableNH_generations_do_not_overlap tableNH_old_generations_forwarded tableNH_transfer_abs_invariant tableNH_markers_stable".split()]), ("Flurry.Props.C01BinGN", ["Flurry.Proto.BinGN." + n for n in "structural_invariant_proved_part generations_do_not_overlap old_generations_forwarded follow_markers_until_live validated_mutex validated_writer_in_live_cell commit_only_when_all_forwarded alloc_commit_abs_invariant transfer_quiet_steps_abs_invariant quiescent_shape tree_bin_rwlock writer_excludes_tree_readers threads_and_times example_runs_linearizable noCheck_refutes".split()]), ("Flurry.Props.C01BinNHLin", ["Flurry.Proto.BinNH." + n for n in "binNH_linearizable_quiescent binNH_linearizable transfer_abs_invariant reachable_full_invariant chains_wellformed one_split_per_helper".split()]), ("Flurry.Props.C01TableN", ["Flurry.Proto.TableN." + n for n in "tableN_map_linearizable tableN_key_linearizable tableN_key_linearizable_ext tableN_proj_eq tableN_inv_le_resp bins_length bin_index_eq bin_index_eq_mod bin_index_split tableN_key_translation tableN_tick_is_lineage_step tableN_lineage_reachable tableN_key_in_own_lineage tableN_one_lineage_per_thread tableN_resizer_inside_one_lineage tableN_generations_do_not_overlap tableN_old_generations_forwarded tableN_transfer_abs_invariant".split()]), ("Flurry.Props.C01BinN", ["Flurry.Proto.BinN." + n for n in "binN_linearizable_quiescent binN_linearizable transfer_abs_invariant generations_do_not_overlap old_generations_forwarded next_generation_not_forwarded liveCell_one_hop follow_markers_until_live validated_mutex commit_only_when_all_forwarded chains_wellformed stale_by_two_generations stale_read_across_two_generations noCheck_refuted".split()]), ("Flurry.Props.C01BinNA", ["Flurry.Proto.BinNA.binNA_linearizable_quiescent", "Flurry.Proto.BinNA.generations_do_not_overlap", "Flurry.Proto.BinNA.old_generations_forwarded"]), ("Flurry.Props.C01TableG", ["Flurry.Proto.TableG.tableG_map_linearizable", "Flurry.Proto.TableG.tableG_key_linearizable", "Flurry.Proto.TableG.tableG_key_linearizable_ext", "Flurry.Proto.TableG.tableG_lineage_reachable", "Flurry.Proto.TableG.tableG_tick_is_lineage_step", "Flurry.Proto.TableG.tableG_key_in_own_lineage", "Flurry.Proto.TableG.tableG_other_lineage_silent", "Flurry.Proto.TableG.tableG_one_lineage_per_thread", "Flurry.Proto.TableG.tableG_proj_eq", "Flurry.Proto.TableG.tableG_inv_le_resp", "Flurry.Proto.TableG.lineage_and_side", "Flurry.Proto.TableG.bins_length"]), ("Flurry.Props.C01BinG", ["Flurry.Proto.BinG.binG_linearizable_quiescent", "Flurry.Proto.BinG.binG_linearizable", "Flurry.Proto.BinG.binG_inv", "Flurry.Proto.BinG.transfer_abs_invariant", "Flurry.Proto.BinG.quiescent_tree_eq_list", "Flurry.Proto.BinG.example_runs_linearizable", "Flurry.Proto.BinG.noCheck_refutes"]), ("Flurry.Props.C01TableK", ["Flurry.Proto.TableK.tableK_map_linearizable", "Flurry.Proto.TableK.tableK_key_linearizable", "Flurry.Proto.TableK.tableK_key_linearizable_ext", "Flurry.Proto.TableK.tableK_bin_reachable", "Flurry.Proto.TableK.tableK_tick_is_bin_step", "Flurry.Proto.TableK.tableK_key_in_own_bin", "Flurry.Proto.TableK.tableK_other_bin_silent", "Flurry.Proto.TableK.tableK_one_bin_per_thread", "Flurry.Proto.TableK.tableK_proj_eq", "Flurry.Proto.TableK.tableK_inv_le_resp", "Flurry.Proto.TableK.bins_length"]), ("Flurry.Props.C01BinK", ["Flurry.Proto.BinK.binK_linearizable", "Flurry.Proto.BinK.binK_linearizable_quiescent", "Flurry.Proto.BinK.binK_inv", "Flurry.Proto.BinK.conversion_abs_invariant", "Flurry.Proto.BinK.quiescent_tree_eq_list", "Flurry.Proto.BinK.noCheck_refutes"]), ("Flurry.Props.C01BinU", ["Flurry.Proto.BinU.binu_linearizable", "Flurry.Proto.BinU.binu_linearizable_quiescent", "Flurry.Proto.BinU.binu_inv", "Flurry.Proto.BinU.tree_eq_list_unlocked", "Flurry.Proto.BinU.binu_f8order_not_linearizable", "Flurry.Proto.BinU.remove_locks_before_unlink", "Flurry.Proto.BinU.insert_locks_before_prepend"]), ("Flurry.Props.C01Local", ["Flurry.C01.locality", "Flurry.C01.locality_converse", "Flurry.C01.locality_iff", "Flurry.C01.untouched_key_unchanged"]), ("Flurry.Props.C01Source", ["Flurry.C01Source.every_bin_lock_is_rechecked", "Flurry.C01Source.lock_sites_present", "Flurry.C01Source.clear_waits_for_commit"]), ("Flurry.Props.C10", ["Flurry.C10.fill_then_forward_then_retire"]), ("Flurry.Props.C13", ["Flurry.C13.wrappers_delegate_by_name", "Flurry.C13.replace_node_keeps_its_condition"]), ("Flurry.Props.C12", ["Flurry.C12.find_searches_tree_under_read_lock", "Flurry.C12.find_writes_nothing_but_the_lock_word"]), ("Flurry.Props.C01Bin", ["Flurry.Proto.Bin.bin_linearizable", "Flurry.Proto.Bin.bin_linearizable_quiescent", "Flurry.Proto.Bin.bin_linearizable_writers", "Flurry.Proto.Bin.writers_mutex", "Flurry.Proto.Bin.writerStore_spec", "Flurry.Proto.Bin.reachable_inv"]), ("Flurry.Props.C01BinW", ["Flurry.Proto.BinW.binw_linearizable", "Flurry.Proto.BinW.binw_linearizable_quiescent", "Flurry.Proto.BinW.storeAt_eq_writerStore_reachable", "Flurry.Proto.BinW.walkers_mutex", "Flurry.Proto.BinW.binw_simulated"]), ("Flurry.Props.C01BinX", ["Flurry.Proto.BinX.binx_linearizable_quiescent", "Flurry.Proto.BinX.binx_linearizable", "Flurry.Proto.BinX.binx_linearizable_writers", "Flurry.Proto.BinX.transfer_abs_invariant", "Flurry.Proto.BinX.validated_mutex", "Flurry.Proto.BinX.resize_facts", "Flurry.Proto.BinX.chains_wellformed"]), ("Flurry.Lemmas.BinXExamples", ["Flurry.Proto.BinX.noCheck_refutes"]), ("Flurry.Lemmas.BinXCExamples", ["Flurry.Proto.BinXC.binxc_linearizable_quiescent", "Flurry.Proto.BinXC.binxc_linearizable", "Flurry.Proto.BinXC.retired_unreachable", "Flurry.Proto.BinXC.retired_dead", "Flurry.Proto.BinXC.validated_mutex", "Flurry.Proto.BinXC.new_table_after_moved", "Flurry.Proto.BinXC.noWait_retires_reachable", "Flurry.Proto.BinXC.noWait_not_linearizable"]), ("Flurry.Props.C01BinT", ["Flurry.Proto.BinT.bint_linearizable_quiescent", "Flurry.Proto.BinT.bint_linearizable", "Flurry.Proto.BinT.bint_linearizable_writers", "Flurry.Proto.BinT.bint_inv", "Flurry.Proto.BinT.remove_locks_before_unlink", "Flurry.Proto.BinT.insert_locks_before_prepend", "Flurry.Proto.BinT.bint_not_linearizable", "Flurry.Proto.BinT.not_bint_linearizable_quiescent"]), ("Flurry.Lemmas.BinWExamples", ["Flurry.Proto.BinW.noCheck_not_linearizable_doubleRemove", "Flurry.Proto.BinW.noCheck_not_linearizable_lostInsert", "Flurry.Proto.BinW.noCheck_refutes"]), ("Flurry.Props.C01", [
    "Flurry.C01.certificate_sound", "Flurry.C01.decision_correct", "Flurry.C01.not_linearizable_iff",
    "Flurry.C01.linearization_points", "Flurry.C01.no_resurrection", "Flurry.C01.reads_pure",
    "Flurry.C01.insert_then_read", "Flurry.C01.remove_then_read", "Flurry.C01.final_read"])]
THEOREMS["C08"] = [("Flurry.Props.C01TableGN", ["Flurry.Proto.TableGN.tableGN_map_linearizable"]), ("Flurry.Props.C01BinGNLin", ["Flurry.Proto.BinGN.binGN_linearizable_quiescent"]), ("Flurry.Props.C01TableN", ["Flurry.Proto.TableN.tableN_map_linearizable"]), ("Flurry.Props.C01BinN", ["Flurry.Proto.BinN.binN_linearizable_quiescent"]), ("Flurry.Props.C08Table", ["Flurry.C08." + n for n in "counter_from_insert increments_counted binG_counter_no_lost_update tableK_counter_no_lost_update tableG_counter_no_lost_update binG_counter_instance".split()]), ("Flurry.Props.C01TableG", ["Flurry.Proto.TableG.tableG_map_linearizable"]), ("Flurry.Props.C01BinG", ["Flurry.Proto.BinG.binG_linearizable_quiescent", "Flurry.Proto.BinG.noCheck_refutes"]), ("Flurry.Props.C01TableK", ["Flurry.Proto.TableK.tableK_map_linearizable"]), ("Flurry.Props.C01BinK", ["Flurry.Proto.BinK.binK_linearizable_quiescent", "Flurry.Proto.BinK.noCheck_refutes"]), ("Flurry.Props.C01BinU", ["Flurry.Proto.BinU.binu_linearizable_quiescent"]), ("Flurry.Props.C01Local", ["Flurry.C01.locality"]), ("Flurry.Props.C01Source", ["Flurry.C01Source.every_bin_lock_is_rechecked", "Flurry.C01Source.lock_sites_present", "Flurry.C01Source.clear_waits_for_commit"]), ("Flurry.Props.C13", ["Flurry.C13.wrappers_delegate_by_name"]), ("Flurry.Props.C01Bin", ["Flurry.Proto.Bin.bin_linearizable", "Flurry.Proto.Bin.bin_linearizable_quiescent", "Flurry.Proto.Bin.writers_mutex"]), ("Flurry.Props.C01BinW", ["Flurry.Proto.BinW.binw_linearizable_quiescent", "Flurry.Proto.BinW.storeAt_eq_writerStore_reachable"]), ("Flurry.Props.C01BinT", ["Flurry.Proto.BinT.bint_linearizable_quiescent"]), ("Flurry.Props.C08", [
    "Flurry.C08.counter_no_lost_update", "Flurry.C08.absent_not_applied", "Flurry.C08.replaces_what_it_read",
    "Flurry.C08.removal_is_atomic"])]

THEOREMS["C10"] = THEOREMS["C10"] + [("Flurry.Props.C01TableGN", ["Flurry.Proto.TableGN.tableGN_map_linearizable", "Flurry.Proto.TableGN.tableGN_generations_do_not_overlap", "Flurry.Proto.TableGN.tableGN_transfer_absMap_invariant"]), ("Flurry.Props.C01BinGNLin", ["Flurry.Proto.BinGN.transfer_abs_invariant", "Flurry.Proto.BinGN.binGN_linearizable_quiescent"]), ("Flurry.Props.C01TableNH", ["Flurry.Proto.TableNH." + n for n in "tableNH_map_linearizable tableNH_key_linearizable tableNH_cell_migrated_at_most_once tableNH_commit_only_when_all_forwarded tableNH_stale_helper_is_harmless tableNH_generations_do_not_overlap tableNH_old_generations_forwarded tableNH_transfer_abs_invariant tableNH_markers_stable".split()]), ("Flurry.Props.C01BinGN", ["Flurry.Proto.BinGN.generations_do_not_overlap", "Flurry.Proto.BinGN.old_generations_forwarded", "Flurry.Proto.BinGN.commit_only_when_all_forwarded", "Flurry.Proto.BinGN.quiescent_shape"]), ("Flurry.Props.C01BinNHLin", ["Flurry.Proto.BinNH.binNH_linearizable_quiescent", "Flurry.Proto.BinNH.transfer_abs_invariant", "Flurry.Proto.BinNH.one_split_per_helper"]), ("Flurry.Props.C01BinNH", ["Flurry.Proto.BinNH." + n for n in "cell_migrated_at_most_once generations_do_not_overlap old_generations_forwarded commit_only_when_all_forwarded stale_helper_is_harmless alloc_commit_abs_invariant cells_step reachable_invariant rw_generation_invariant two_helpers_run stale_helper_run noCheck_refuted".split()]), ("Flurry.Props.C01TableN", ["Flurry.Proto.TableN.tableN_map_linearizable", "Flurry.Proto.TableN.tableN_generations_do_not_overlap", "Flurry.Proto.TableN.tableN_old_generations_forwarded", "Flurry.Proto.TableN.bin_index_eq"]), ("Flurry.Props.C01BinN", ["Flurry.Proto.BinN." + n for n in "generations_do_not_overlap old_generations_forwarded next_generation_not_forwarded commit_only_when_all_forwarded transfer_abs_invariant follow_markers_until_live binN_linearizable_quiescent".split()]), ("Flurry.Props.C05BinG", ["Flurry.Proto.BinG.quiescent_no_half_resize", "Flurry.Proto.BinG.resize_committed_or_at_work"]), ("Flurry.Props.C01TableG", ["Flurry.Proto.TableG.tableG_map_linearizable", "Flurry.Proto.TableG.tableG_lineage_reachable"]), ("Flurry.Props.C01BinG", ["Flurry.Proto.BinG.transfer_abs_invariant", "Flurry.Proto.BinG.binG_inv"]), ("Flurry.Props.C10", ["Flurry.C10." + n for n in "helper_accounting bin_migrated_at_most_once all_bins_migrated_at_publication one_finisher one_publication_per_generation generations_do_not_overlap initiation_only_from_idle quiescent_after_resize resize_completes no_stale_join joiner_holds_current_generation join_admits_current_generation help_refusal_matches_model fill_then_forward_then_retire add_count_access_order help_transfer_access_order".split()])]


THEOREMS["C15"] = [("Flurry.Props.C15", ["Flurry.C15." + n for n in "handover_hb path_hb relaxed_writes_private publication_points_release reader_loads_acquire read_lock_rmw_acqrel control_words_synchronise sites_present".split()])]


def _thms(ns, names):
    return ["Flurry.%s.%s" % (ns, n) for n in names.split()]

THEOREMS["C02"] = [("Flurry.Props.C02", _thms("C02", "step_refines len_spec seq_refines seq_refines_from first_key_kept try_insert_present"))]
THEOREMS["C05"] = [("Flurry.Props.C05TableGN", ["Flurry.Proto.TableGNL." + n for n in "tableGN_quiescent_iter_agrees tableGN_quiescent_keys_distinct tableGN_quiescent_entries_nodup tableGN_quiescent_len tableGN_quiescent_no_half_resize tableGN_quiescent_unlocked tableGN_quiescent_tree_eq_list tableGN_quiescent_entry_in_own_bin tableGN_quiescent_cell_keys tableGN_reachable_iter_agrees tableGN_quiescent_iter_is_linearized_map".split()]), ("Flurry.Props.C05BinGN", ["Flurry.Proto.BinGN." + n for n in "quiescent_no_half_resize quiescent_unlocked quiescent_keys_distinct quiescent_entries_nodup quiescent_entry_in_own_cell quiescent_iter_agrees quiescent_iter_linearized quiescent_len quiescent_live_tree_eq_list quiescent_live_not_moved reachable_iter_agrees resize_at_work".split()]), ("Flurry.Props.C05BinG", ["Flurry.Proto.BinG." + n for n in "quiescent_no_half_resize resize_committed_or_at_work quiescent_live_not_moved quiescent_unlocked quiescent_keys_distinct quiescent_entries_nodup quiescent_entry_in_own_cell quiescent_iter_agrees quiescent_iter_linearized quiescent_len quiescent_live_tree_eq_list reachable_iter_agrees".split()]), ("Flurry.Props.C05TableG", ["Flurry.Proto.TableG." + n for n in "tableG_quiescent_iter_agrees tableG_quiescent_keys_distinct tableG_quiescent_entries_nodup tableG_quiescent_len tableG_quiescent_entry_in_own_cell tableG_stored_key_in_own_lineage tableG_quiescent_iter_is_linearized_map tableG_quiescent_no_half_resize tableG_quiescent_unlocked tableG_quiescent_tree_eq_list tableG_node_key_in_own_lineage tableG_reachable_iter_agrees tableG_lineage_quiescent".split()]), ("Flurry.Proto.Count", ["Flurry.Proto.Count.quiescent_count_eq_size", "Flurry.Proto.Count.count_lags_by_owed", "Flurry.Proto.Count.ret_only_when_settled", "Flurry.Proto.Count.reachable_inv"]), ("Flurry.Props.C01BinG", ["Flurry.Proto.BinG.quiescent_tree_eq_list", "Flurry.Proto.BinG.binG_inv"]), ("Flurry.Props.C01BinK", ["Flurry.Proto.BinK.quiescent_tree_eq_list", "Flurry.Proto.BinK.binK_linearizable_quiescent"]), ("Flurry.Props.C05", _thms("C05", "iter_agrees iter_agrees_abs wf_reachable wf_reachable_new wf_reachable_collect wf_reachable_clone wf_unfold"))]
THEOREMS["C13"] = [("Flurry.Props.C13BinR", ["Flurry.C13R." + n for n in "binR_linearizable_quiescent binR_linearizable spec_condRm condRm_removes_only_observed condRm_store_spec replaced_value_survives visit_load visit_drop visit_keep noCompare_not_linearizable noCompare_refutes".split()]), ("Flurry.Props.C13", _thms("C13", "retain_eq_filter retain_force_eq_filter retain_removes_only_rejected retain_capacity wrappers_delegate_by_name replace_node_keeps_its_condition"))]
THEOREMS["C14"] = THEOREMS["C14"] + [("Flurry.Props.C14", _thms("C14", "removals_pass_no_hint removal_calls_present never_shrinks removal_never_grows threshold_three_quarters grow_only_when grow_only_when_ins grow_only_when_uninit no_growth_below_threshold no_growth_with_room no_growth_with_room_bins no_growth_with_room_hash reserve_threshold_room no_growth_after_reserve no_growth_after_reserve_bins table_len_pow2 reachable_never_shrinks reachable_removal_never_grows reachable_table_len_pow2"))]
THEOREMS["C18"] = [("Flurry.Props.C18", _thms("C18", "cip_panic_unchanged cip_panics_iff cip_no_write_before_callback retain_panic_prefix retain_loop_append after_panic_continues cip_panic_absMap"))]
THEOREMS["C03"] = [("Flurry.Props.C03BinNRRefine", ["Flurry.Props.C03BinNRRefine." + n for n in "refines_abstract_discipline abstract_image_safe pc_nodes_held_abstractly every_run_has_a_projection".split()]), ("Flurry.Props.C03Reclaim2", ["Flurry.C03Reclaim2." + n for n in "held_references_valid no_touch_after_free holders_are_awaited free_waits_for_holders waitFor_covers_holders retire_only_after_unlink late_thread_cannot_acquire walk_accepted walk_then_free".split()]), ("Flurry.Lemmas.BinNRRefineExamples", ["Flurry.Proto.BinNR.transfer2_refines", "Flurry.Proto.BinNR.remove_refines"]), ("Flurry.Props.C03BinNR", ["Flurry.Props.C03BinNR." + n for n in "no_touch_after_free touched_retired_awaits holders_are_awaited holders_not_freed unlink_before_retire retire_only_unreachable free_only_when_unheld freed_was_retired obligations_unlinked projects_to_BinN".split()]), ("Flurry.Lemmas.BinNRRuns", ["Flurry.Proto.BinNR.early_refutes", "Flurry.Proto.BinNR.early_retire_touches_freed"]), ("Flurry.Props.C09", ["Flurry.C09.all_public_guarded", "Flurry.C09.check_guard_unconditional", "Flurry.C09.no_foreign_use"]), ("Flurry.Props.C01Source", ["Flurry.C01Source.every_bin_lock_is_rechecked", "Flurry.C01Source.lock_sites_present", "Flurry.C01Source.clear_waits_for_commit"]), ("Flurry.Props.C10", ["Flurry.C10.fill_then_forward_then_retire"]), ("Flurry.Lemmas.BinXCExamples", ["Flurry.Proto.BinXC.retired_unreachable", "Flurry.Proto.BinXC.retired_dead", "Flurry.Proto.BinXC.noWait_retires_reachable"]), ("Flurry.Props.C03", _thms("C03", "held_references_valid no_touch_after_free free_waits_for_holders retire_only_after_unlink unlinked_not_acquirable unprotected_guard_is_unsafe publication_needs_guard"))]
THEOREMS["C04"] = [("Flurry.Props.C03BinNRRefine", ["Flurry.Props.C03BinNRRefine.abstract_image_safe"]), ("Flurry.Props.C04BinNR", ["Flurry.Props.C04BinNR." + n for n in "freed_at_most_once freed_stays_freed freed_for_ever free_waits_for_guards freed_after_guards retired_eventually_freeable quiescent_freeable awaited_or_exited obligation_once retire_records_guards response_retires w0_stable".split()]), ("Flurry.Props.C03Reclaim2", ["Flurry.C03Reclaim2.freed_at_most_once", "Flurry.C03Reclaim2.freed_only_after_guards"]), ("Flurry.Props.C03BinNR", ["Flurry.Props.C03BinNR.free_only_when_unheld", "Flurry.Props.C03BinNR.freed_was_retired", "Flurry.Props.C03BinNR.unlink_before_retire"]), ("Flurry.Lemmas.BinXCExamples", ["Flurry.Proto.BinXC.retired_dead", "Flurry.Proto.BinXC.binxc_linearizable_quiescent"]), ("Flurry.Props.C04", _thms("C04", "freed_at_most_once freed_only_after_guards freed_was_retired retired_is_eventually_freed refused_insert_changes_nothing"))]
THEOREMS["C07"] = [("Flurry.Props.C07TableNI", ["Flurry.Proto.TableNI." + n for n in "tableNI_untouched_yielded_once tableNI_untouched_absent_not_yielded tableNI_yield_was_present tableNI_yield_own_lineage tableNI_yields_within tableNI_map_linearizable tableNI_iter_step_enabled tableNI_run_states_are_past_states clocks_agree".split()]), ("Flurry.Props.C07BinNIOnce2", ["Flurry.Proto.BinNI.iter_untouched_yielded_once", "Flurry.Proto.BinNI.iter_untouched_yielded_at_most_once", "Flurry.Proto.BinNI.iter_no_duplicates_of_untouched"]), ("Flurry.Props.C07BinNIOnce", ["Flurry.Proto.BinNI." + n for n in "iter_untouched_yielded iter_untouched_absent_not_yielded iter_yields_before_end iter_frames_disjoint".split()]), ("Flurry.Props.C07BinNI", ["Flurry.Proto.BinNI." + n for n in "iter_yield_was_present iter_step_enabled iter_todo_behind_markers iter_solo_terminates shared_part_reachable iterator_across_two_resizes iterator_on_frozen_list".split()]), ("Flurry.Props.C05TableG", ["Flurry.Proto.TableG.tableG_quiescent_iter_agrees", "Flurry.Proto.TableG.tableG_quiescent_keys_distinct"]), ("Flurry.Props.C01BinG", ["Flurry.Proto.BinG.binG_linearizable_quiescent", "Flurry.Proto.BinG.transfer_abs_invariant"]), ("Flurry.Props.C01BinK", ["Flurry.Proto.BinK.binK_linearizable_quiescent", "Flurry.Proto.BinK.conversion_abs_invariant"]), ("Flurry.Props.C01BinU", ["Flurry.Proto.BinU.binu_linearizable_quiescent", "Flurry.Proto.BinU.binu_f8order_not_linearizable", "Flurry.Proto.BinU.insert_locks_before_prepend"]), ("Flurry.Props.C10", ["Flurry.C10.fill_then_forward_then_retire"]), ("Flurry.Props.C07", _thms("C07", "traverse_frozen yields_each_once terminates quiescent_order"))]
THEOREMS["C11"] = [("Flurry.Props.C11TableGNDrain", ["Flurry.Proto.TableGND." + n for n in "tableGN_drains tableGN_every_call_returns tableGN_quiet_step_decreases tableGN_quiet_run_bounded tableGN_quiet_run_extends tableGN_drain_exists tableGN_no_infinite_quiet_run tableGN_quiescent_iff_maximal".split()]), ("Flurry.Props.C11BinGNDrain", ["Flurry.Proto.BinGNP." + n for n in "binGN_drains every_call_returns quiet_step_decreases nonidle_step_decreases quiet_run_bounded quiet_run_extends binGN_drain_exists no_infinite_quiet_run quiescent_iff_maximal resize_finishes gmuN_le_bound".split()]), ("Flurry.Props.C11TableGN", ["Flurry.Proto.TableGNL." + n for n in "tableGN_never_stuck tableGN_never_stuck_all tableGN_active_idle_elsewhere tableGN_step_is_lineage_step".split()]), ("Flurry.Props.C11BinGN", ["Flurry.Proto.BinGNProg." + n for n in "binGN_never_stuck binGN_never_stuck_all step_disabled_only_by_lock holder_exists holders_do_not_wait resizer_between_cells_holds_no_lock parked_writer_waits_for_reader blocked_waits_for_other blocked_waits_for_enabled".split()]), ("Flurry.Props.C11TableG", ["Flurry.Proto.TableGP." + n for n in "tableG_never_stuck tableG_never_stuck_all tableG_drains tableG_every_call_returns tableG_quiet_step_decreases tableG_quiet_run_bounded tableG_no_infinite_quiet_run tableG_drain_exists busy_example".split()]), ("Flurry.Props.C01BinGN", ["Flurry.Proto.BinGN.tree_bin_rwlock", "Flurry.Proto.BinGN.lock_words_have_owners", "Flurry.Proto.BinGN.writer_excludes_tree_readers"]), ("Flurry.Props.C11BinGDrain", ["Flurry.Proto.BinG." + n for n in "binG_drains every_call_returns quiet_step_decreases nonidle_step_decreases quiet_run_bounded quiet_run_extends gmu_le_bound binG_drain_exists no_infinite_quiet_run quiescent_iff_maximal busy_drained".split()]), ("Flurry.Props.C11BinG", ["Flurry.Proto.BinG." + n for n in "binG_never_stuck binG_never_stuck_all step_disabled_only_by_lock holder_exists holders_do_not_wait parked_writer_waits_for_reader blocked_waits_for_other blocked_waits_for_enabled unblocked_step_progress writer_solo_progress thread_solo_progress not_blocked_of_lock_free waitState_spec".split()]), ("Flurry.Props.C12", _thms("C12", "find_loop_never_idles model_decision_is_source_decision")), ("Flurry.Props.C11", _thms("C11", "no_lost_wakeup writer_not_blocked_without_readers never_stuck writer_eventually_enabled parked_writer_woken writer_excludes_tree_readers accepted_stream_theorems")), ("Flurry.Proto.RwLockMonitor", ["Flurry.Proto.RwLockMonitor.accepted_is_reachable"])]
THEOREMS["C12"] = [("Flurry.Props.C12TableGN", ["Flurry.Proto.TableGNL." + n for n in "tableGN_reader_step_enabled tableGN_reader_step_frame tableGN_reader_solo_terminates".split()]), ("Flurry.Props.C12BinGN", ["Flurry.Proto.BinGNProg." + n for n in "reader_step_enabled reader_step_frame reader_step reader_solo_terminates soloBound_eq".split()]), ("Flurry.Props.C12TableG", ["Flurry.Proto.TableGP." + n for n in "tableG_reader_step_enabled tableG_reader_step_frame tableG_reader_solo_terminates".split()]), ("Flurry.Props.C07TableNI", ["Flurry.Proto.TableNI.tableNI_iter_step_enabled"]), ("Flurry.Props.C07BinNI", ["Flurry.Proto.BinNI.iter_step_enabled", "Flurry.Proto.BinNI.iter_solo_terminates"]), ("Flurry.Props.C12BinG", ["Flurry.Proto.BinG." + n for n in "reader_step_enabled reader_step_frame reader_step reader_solo_terminates soloBound_eq midState_spec parkState_spec".split()]), ("Flurry.Props.C12", _thms("C12", "roots_in_closure roots_named reach_closed reader_lock_free roots_present reader_never_blocked tree_readers_exclude_writer find_loop_never_idles find_linear_iff_bits model_decision_is_source_decision find_searches_tree_under_read_lock find_writes_nothing_but_the_lock_word")),
                   ("Flurry.Props.C12Bins", ["Flurry.Proto.BinT.reader_step_enabled", "Flurry.Proto.BinT.reader_step_frame", "Flurry.Proto.BinT.reader_solo_terminates",
                                             "Flurry.Proto.BinX.reader_step_enabled", "Flurry.Proto.BinX.reader_step_frame", "Flurry.Proto.BinX.reader_solo_terminates"])]

TIERS = {
    "quick": {"seq_cases": 400, "seq_ops": 60, "search_mult": 6, "conc_cases": 1500},
    "thorough": {"seq_cases": 20000, "seq_ops": 160, "search_mult": 3, "conc_cases": 60000},
}


def setup():
    """MANIFEST.setup_cmd: build everything once from the files on disk"""
    C.log("setup: translator")
    rep = C.run_extractor()
    if rep["failed"]:
        C.log("translator could not extract: %s" % rep["failed"])
    C.log("setup: lake build (model, theorems, driver)")
    ok, out = C.lake_build(["Flurry", "flurry-model"])
    if not ok:
        print(out[-4000:])
    C.log("setup: harness")
    ok2, out2 = C.build_harness()
    if not ok2:
        print(out2[-4000:])
    C.log("setup: harness (release profile, for C09)")
    ok3, out3 = C.build_harness(release=True)
    if not ok3:
        print(out3[-4000:])
    return 0 if (ok and ok2 and ok3) else 1


# ------------------------------------------------------------------------------------ shared steps

def translator_step(R):
    rep = C.run_extractor()
    R.cov["translator"] = {"items_ok": len(rep["ok"]), "items_failed": rep["failed"], "counts": rep.get("counts", {})}
    return rep


def lean_step(R, prop):
    """build + audit the theorems registered for prop; fills obligations/discharged/broken"""
    groups = THEOREMS.get(prop, [])
    mods = [m for m, _ in groups]
    names = [t for _, ts in groups for t in ts]
    R.obligations = len(names)
    R.checker_cmd = "cd %s && lake build %s && lake env lean <audit file with #print axioms>" % (C.LEAN, " ".join(mods))
    ok, out = C.lake_build(mods)
    if not ok:
        errs = C.lean_errors(out)
        seen = set()
        for e in errs:
            if "extraction_failed" in open(os.path.join(C.LEAN, e["file"])).read().splitlines()[e["line"] - 1] if os.path.exists(os.path.join(C.LEAN, e["file"])) else False:
                what = "translator could not extract an item (%s line %d)" % (e["file"], e["line"])
            else:
                th = C.theorem_at(e["file"], e["line"])
                what = "Lean: %s in %s:%d no longer checks: %s" % (th or "declaration", e["file"], e["line"], e["msg"][:160])
            if what not in seen:
                seen.add(what)
                R.add_broken(what)
        if not errs:
            R.add_broken("Lean build of %s failed: %s" % (mods, out[-400:]))
    # audit whatever builds (theorems in modules that failed will be reported as missing)
    res, aout = C.audit(prop, mods, names)
    for t, r in res.items():
        R.theorems[t] = {"axioms": r["axioms"], "ok": r["ok"]}
        if r["ok"]:
            R.discharged += 1
        elif ok:
            R.add_broken("Lean: theorem %s: %s" % (t, r["error"]))
    hits = C.grep_forbidden()
    if hits:
        for h in hits[:5]:
            R.add_broken("forbidden construct in the Lean sources: " + h)
    R.cov["forbidden_constructs"] = hits
    return ok


def harness_step(R):
    ok, out = C.build_harness()
    if not ok:
        R.add_broken("the harness no longer builds against /repo (hooks/inspector): " + out[-600:])
        return False
    okm, outm = C.build_model_exe()
    if not okm:
        R.add_broken("the Lean model driver no longer builds: " + "; ".join(e["msg"] for e in C.lean_errors(outm)[:3]))
    return True


def seq_step(R, prop, own_classes=None, seeds=None, life=False):
    """run the sequential suite; oracle failures of this property -> failing inputs,
    model disagreements of this property -> broken correspondence (+ extended search)"""
    t = TIERS[R.tier]
    own = own_classes or {prop}
    total_cases, total_ops, nontrivial = 0, 0, 0
    agg = {}
    samples = []
    found_fail = False
    diffs_own = []
    rounds = [(R.seed, t["seq_cases"])]
    search_done = False
    unmodelled = 0
    benign = 0
    while rounds:
        seed, cases = rounds.pop(0)
        res = S.run(seed, cases, max_ops=t["seq_ops"], life=life)
        if res.get("report") is None:
            if res.get("rc", 0) == 97:
                # the watchdog: an operation of a single-threaded sequence never returned
                where = res.get("crash_at", "?")
                m = re.search(r"case-seed (\d+)", where)
                msg = "[hang] an operation of a single-threaded operation sequence did not return within 30 s (a lock or a resize left behind by an earlier operation) while running %s" % where
                how = {"suite": "seq", "how": "%s seq-replay --case-seed %s --max-ops %d" % (C.HARNESS_BIN, m.group(1) if m else "?", t["seq_ops"])}
                if prop in ("C11", "C18", "C02", "C05", "C13", "C08", "C14", "C06", "C10"):
                    R.add_failing(msg, how)
                else:
                    R.add_broken("harness run did not finish: " + msg)
            elif res.get("rc", 0) not in (0, 2):
                where = res.get("crash_at", "?")
                m = re.search(r"case-seed (\d+)", where)
                R.add_failing("[crash] the harness process died (exit %s) while running %s: memory corruption or abort inside the implementation" % (res.get("rc"), where),
                              {"suite": "seq", "how": "%s seq-replay --case-seed %s --max-ops %d" % (C.HARNESS_BIN, m.group(1) if m else "?", t["seq_ops"])})
            else:
                R.add_broken("harness run failed: " + res.get("harness_error", "")[-300:])
            break
        rep = res["report"]
        total_cases += rep["cases"]
        total_ops += rep["ops"]
        nontrivial += rep["distinct_nontrivial"]
        for k in ("by_hash_class", "by_facade", "by_op"):
            for kk, v in rep[k].items():
                agg.setdefault(k, {})[kk] = agg.setdefault(k, {}).get(kk, 0) + v
        for k in ("max_tree_cmp", "max_bin"):
            agg[k] = max(agg.get(k, 0), rep[k])
        for k in ("tree_lookups", "tree_bin_snapshots", "resizes_seen"):
            agg[k] = agg.get(k, 0) + rep[k]
        if not samples:
            samples = rep["samples"][:2]
        for f in rep["failures"]:
            if discipline(R, prop, f):
                continue
            if own & set(S.props_of_failure(f)):
                found_fail = True
                m = re.search(r"\[case-seed (\d+)\]", f)
                R.add_failing(f, {"suite": "seq", "how": "%s seq-replay --case-seed %s --max-ops %d" % (C.HARNESS_BIN, m.group(1) if m else "?", t["seq_ops"]), "failure": f})
        if res.get("model_error"):
            R.add_broken("correspondence seq-model-vs-implementation: the model driver failed on the generated operations (%s)" % res["model_error"][:300])
        elif not res["model_ran"]:
            R.notes.append("model driver unavailable: implementation-level oracles only")
        for d in res["diffs"]:
            if set(d["classes"]) <= {"order"}:
                benign += 1
                continue
            if own & set(d["classes"]):
                diffs_own.append(d)
        S.cleanup(res)
        if (diffs_own or R.broken) and not found_fail and not search_done:
            # something no longer checks: search further for a concrete failing input
            search_done = True
            for j in range(t["search_mult"]):
                rounds.append((R.seed * 1000003 + 17 * (j + 1), t["seq_cases"]))
    for d in diffs_own[:5]:
        R.add_broken("correspondence seq-model-vs-implementation: %s op %d `%s`: implementation `%s`, model `%s`" %
                     (d["case"], d["opi"], d["op"][:80], d["impl"][:160], d["model"][:160]))
    R.cov.update({"evaluations": total_ops, "distinct_nontrivial": nontrivial,
                  "rule": "operation sequences over 4-40 keys generated from one PRNG (seed %d): 10 hash classes, capacities 0..102, four facades; every answer and a structural snapshot after each mutating op compared with the Lean model run on the same lines and with a BTreeMap reference; a case is non-trivial if some bin held >= 2 entries, a resize or a tree bin occurred; distinct by full op text" % R.seed,
                  "samples": samples, "cases": total_cases, "input_distribution": agg,
                  "model_disagreements_this_property": len(diffs_own), "order_only_differences": benign,
                  "search": "on any break: %d further rounds of the same suite with fresh seeds" % t["search_mult"]})


CONC_TAGS = {
    "lin": ["C01"], "cip": ["C08"], "deadlock": ["C11"], "livelock": ["C11"], "read-blocks": ["C12"],
    "quiescent": ["C05"], "panic": ["C01", "C18"], "double-free": ["C03", "C04"], "crash": ["C01", "C03", "C08", "C11", "C12", "C05", "C10", "C13", "C07"],
    "uaf": ["C03"], "early-free": ["C03", "C04"], "retire-reachable": ["C03", "C04"], "drop": ["C04"], "iter": ["C07"], "retain": ["C13"],
    "resize": ["C10"], "hb": ["C15"], "clear": ["C05"],
    # an iterator's view that no order of the (consistent) single-key operations explains
    "iter-lin": ["C07"],
    # mid-run probe: nobody holds a tree bin's write lock, yet its tree and its traversal list differ
    "tree-list": ["C06", "C01", "C07"],
    # a call that only removes initiated a resize (finding F10)
    "removal-grows": ["C14"],
    # linearization points witnessed on the real structure: the abstract content ("what a lookup
    # started now would find") changed at a write that is not the effect of a call on that key, or
    # not as the specification says, or a call's result fits no state its key had during the call
    "abs-point": ["C01"],
    # a reader entered a tree bin past a writer that was already waiting (unbounded overtaking)
    "starvation": ["C11"],
    # a call added to the entry counter something else than the number of entries it added / removed
    "count": ["C05"],
    # C07 judged on the witnessed states of the real structure
    "abs-iter": ["C07"],
}


def conc_props_of(f):
    m = re.match(r"^\[([^\]]+)\]", f)
    tag = m.group(1) if m else ""
    ps = list(CONC_TAGS.get(tag, ["C01"]))
    if tag == "lin" and ("cipinc" in f or "ciprm" in f):
        ps.append("C08")
    if tag == "livelock" and re.search(r"inside `(iter|frozeniter)`", f):
        ps.append("C07")  # "an iterator terminates"
    if tag == "livelock" and re.search(r"inside `(get|getkv|has|len|iter) ?", f):
        ps.append("C12")
    if tag == "abs-point":
        if re.search(r"`cip(inc|rm|panic) ", f):
            ps.append("C08")
        if "not the key of the call" in f or "does not update the map" in f or "outside any call" in f:
            # moving / converting / initialising bins changed the content: resize (C10), what an
            # iterator can see (C07), and reads must not write (C12)
            ps += ["C10", "C07", "C05"]
        if "retain removes only" in f:
            ps.append("C13")
        if "panic" in f:
            ps.append("C18")
    if tag == "quiescent" and re.search(r"size_ctl|next_table|forwarding", f):
        ps.append("C10")
    if tag == "quiescent" and re.search(r"power of two|longer than|size_ctl=\d+ but", f):
        ps.append("C14")
    if tag in ("lin", "abs-point") and "cap=64" in f and re.search(r"get \d+ -> none|has \d+ -> false", f) and "rm " not in f.split("threads=")[0]:
        # a lookup missed a key of a crowded bin although nothing removed it: tree and list disagree for readers
        ps.append("C06")
    if tag == "quiescent" and re.search(r"lookup cost|tree bin \d+ locked|black|red|bin \d+: ", f):
        ps.append("C06")
    if tag == "panic" and re.search(r"inside `(iter|frozeniter)", f):
        ps.append("C07")
    # life-cycle failures of a run in which a closure panicked: "the entry being processed is left
    # unchanged ... every later operation sees a consistent state" is C18's as well
    if tag in ("retire-reachable", "uaf", "early-free", "double-free", "drop") and re.search(r"cippanic|panicat=", f):
        ps.append("C18")
    return ps


# the lock discipline (`wCheck` of Proto/Bin: re-read the bin cell after locking the node seen as
# head) underlies every property that is argued through the validated bin lock
DISCIPLINE_PROPS = ("C01", "C03", "C08", "C13")


def discipline(R, prop, f):
    """a `[discipline]` line is a broken correspondence with the Bin model, not a failing input"""
    if f.startswith("[unhooked-lock]"):
        # the scheduler cannot follow the code: a lock is acquired where no `lock()` site of the
        # source (hence no transition of the models) has one. Broken correspondence for every
        # property that relies on scheduled runs; the failing input, if any, comes from the oracles.
        R.add_broken("correspondence implementation-vs-models (lock sites): " + f[16:400])
        return True
    if not f.startswith("[discipline]"):
        return False
    if prop in DISCIPLINE_PROPS:
        R.add_broken("correspondence implementation-vs-Proto/Bin (step wCheck): " + f[13:400])
    return True


def stress_props_of(f):
    if f.startswith("[stress-hang]"):
        return ["C11"]
    ps = []
    if "own-key history" in f or "foreign read" in f or "contents differ" in f or "get(" in f:
        ps += ["C01", "C19"]
    if "quiescent:" in f:
        ps.append("C05")
    if re.search(r"size_ctl|next_table|forwarding|drop:", f):
        ps.append("C10")
    if "panicked" in f:
        ps += ["C01", "C10"]
    return ps or ["C01"]


def stress_step(R, prop):
    """unscheduled oversubscribed stress on fresh small maps with thread-owned keys: a supporting
    search for failing inputs (real preemption inside the resize and bin protocols), never a proof"""
    secs = 6 if R.tier == "quick" else 120
    if R.broken and not R.failing:
        # a proof obligation or a correspondence is broken and no failing input is known yet:
        # search longer
        secs = max(secs, 45)
    rc, out = C.sh([C.HARNESS_BIN, "stress", "--seed", str(R.seed), "--secs", str(secs)], timeout=secs + 120)
    lines = [l for l in out.splitlines() if l.startswith("{")]
    how = "%s stress --seed %d --secs %d   (real threads: probabilistic)" % (C.HARNESS_BIN, R.seed, secs)
    if rc != 0 or not lines:
        R.add_failing("[crash] the unscheduled stress run died (exit %d): memory corruption or abort inside the implementation under real preemption" % rc,
                      {"suite": "stress", "how": how})
        return
    rep = json.loads(lines[-1])
    for f in rep["failures"]:
        if prop in stress_props_of(f):
            R.add_failing(f, {"suite": "stress", "how": how})
    R.cov["stress"] = {k: rep[k] for k in ("rounds", "ops", "threads", "max_table", "rounds_with_resize", "rounds_with_tree")}
    R.cov["rule"] = R.cov.get("rule", "") + " || stress: %d OS threads (4 per core) on fresh small maps for %d s, thread-owned keys: every answer on an own key is checked against the thread's own history, the final contents, len(), iteration, the structural validator and the control words at quiescence, and drop must not panic" % (rep["threads"], secs)


def conc_step(R, prop, extra_args=None, cases=None, suite="conc", modes=("mixed",), merge=False):
    prev = dict(R.cov) if merge else None
    total = None
    # the regression scenarios (scripted schedules of past findings) run first, then the generators
    modes = ("scenario",) + tuple(m for m in modes if m != "scenario")
    for mode in modes:
        ncases = 50 if mode == "scenario" else (cases or TIERS[R.tier]["conc_cases"]) // (len(modes) - 1)
        _conc_step_one(R, prop, (extra_args or []) + ["--mode", mode] + (["--budget", "400000"] if mode == "scenario" else []), ncases, suite)
        sc = R.cov.get("scheduled", {})
        if total is None:
            total = dict(sc)
        else:
            for k, v in sc.items():
                total[k] = max(total.get(k, 0), v) if k == "hook_sites" else total.get(k, 0) + v
    R.cov["scheduled"] = total
    R.cov["scheduled_modes"] = list(modes)
    R.cov["evaluations"] = total["cases"]
    R.cov["distinct_nontrivial"] = total["distinct_nontrivial"]
    if prev is not None:
        # keep the sequential suite's numbers next to the scheduled ones
        R.cov["sequential"] = {k: prev.get(k) for k in ("evaluations", "distinct_nontrivial", "cases", "input_distribution", "model_disagreements_this_property")}
        R.cov["evaluations"] += prev.get("evaluations", 0)
        R.cov["distinct_nontrivial"] += prev.get("distinct_nontrivial", 0)
        R.cov["rule"] = prev.get("rule", "") + " || " + R.cov["rule"]
        R.cov["samples"] = (prev.get("samples") or []) + (R.cov.get("samples") or [])


def _conc_step_one(R, prop, extra_args=None, cases=None, suite="conc"):
    """scheduled concurrent suite: failures of this property -> failing inputs; per-key history
    certificates are re-validated by the Lean checker (`Lin.validate`)"""
    t = TIERS[R.tier]
    n = cases or t["conc_cases"]
    rounds = [(R.seed, n)]
    agg = {"cases": 0, "steps": 0, "ops": 0, "abs_points_witnessed": 0, "abs_reads_explained": 0, "certificates_from_witnessed_points": 0, "keys_checked": 0, "distinct_nontrivial": 0, "runs_with_lock_contention": 0,
           "runs_with_resize": 0, "runs_ending_with_tree_bin": 0, "hook_sites": 0, "certificates_validated_by_lean": 0}
    samples, searched, cert_bad = [], False, []
    base = os.path.join(C.BUILD, "run", "%s-%d" % (suite, os.getpid()))
    os.makedirs(os.path.dirname(base), exist_ok=True)
    while rounds:
        seed, cases_n = rounds.pop(0)
        # shard the case sequence of this seed over processes (each case is independent and is
        # identified by its own case-seed; ledger and quarantine allocator are per process)
        nshard = max(1, min(C.JOBS, cases_n // 40))
        per = (cases_n + nshard - 1) // nshard
        procs = []
        for j in range(nshard):
            first, cnt = j * per, max(0, min(per, cases_n - j * per))
            if cnt == 0:
                continue
            b = "%s.%d" % (base, j)
            cmd = [C.HARNESS_BIN, suite, "--seed", str(seed), "--first", str(first), "--cases", str(cnt), "--lin", b + ".lin", "--progress", b + ".progress"]
            if prop in ("C10", "C14", "C11", "C12"):
                cmd += ["--ctl", b + ".ctl"]
            if R.tier == "thorough":
                cmd += ["--big", "1"]
            cmd += extra_args or []
            procs.append((b, subprocess.Popen(cmd, stdout=subprocess.PIPE, stderr=subprocess.STDOUT, text=True)))
        crashed = False
        lin_src = []
        ctl_src = []
        for b, pr in procs:
            try:
                out, _ = pr.communicate(timeout=7200)
                rc = pr.returncode
            except subprocess.TimeoutExpired:
                pr.kill()
                out, rc = "", -9
            lines = [l for l in out.splitlines() if l.startswith("{")]
            if rc != 0 or not lines:
                where = open(b + ".progress").read() if os.path.exists(b + ".progress") else "?"
                f = "[crash] the harness process died (exit %d) while running %s: memory corruption or abort inside the implementation" % (rc, where)
                if prop in CONC_TAGS["crash"]:
                    m = re.search(r"case-seed (\d+)", where)
                    R.add_failing(f, {"suite": suite, "how": "%s %s %s --case-seed %s --verbose 1" % (C.HARNESS_BIN, suite, " ".join(extra_args or []), m.group(1) if m else "?")})
                crashed = True
                continue
            rep = json.loads(lines[-1])
            for k in agg:
                if k in rep:
                    agg[k] = max(agg[k], rep[k]) if k == "hook_sites" else agg[k] + rep[k]
            samples = samples or rep.get("samples", [])[:2]
            for f in rep["failures"]:
                if discipline(R, prop, f):
                    continue
                # C19's parallel half is "concurrent inserts from a thread pool": it inherits C01
                if prop in conc_props_of(f) or (prop == "C19" and f.startswith(("[lin]", "[quiescent]", "[crash]"))) or (prop == "C19" and f.startswith(("[iter]", "[abs-iter]", "[abs-point]")) or (prop == "C19" and f.startswith("[livelock]") and "inside `iter" in f)):
                    # C19's serde half: Serialize walks the map with iter(); an iteration that loses, repeats or
                    # invents entries while nothing changes (or never ends) is a document that does not
                    # deserialise to an equal collection
                    m = re.search(r"\[case-seed (\d+)\]", f)
                    R.add_failing(f, {"suite": suite, "how": "%s %s %s --case-seed %s --verbose 1" % (C.HARNESS_BIN, suite, " ".join(extra_args or []), m.group(1) if m else "?")})
            if os.path.exists(b + ".lin"):
                lin_src += open(b + ".lin").read().splitlines()
            if os.path.exists(b + ".ctl"):
                ctl_src += open(b + ".ctl").read().splitlines()
        for b, _ in procs:
            for ext in (".lin", ".progress", ".ctl"):
                if os.path.exists(b + ext):
                    os.remove(b + ext)
        if prop in ("C10", "C14") and os.path.exists(C.MODEL_BIN) and ctl_src:
            # the run's accesses to size_ctl / transfer_index / table / next_table, replayed by the
            # Lean monitor of the resize theorems' conclusions (Proto/ResizeMonitor.lean)
            pairs = [(ctl_src[i], ctl_src[i + 1]) for i in range(0, len(ctl_src) - 1, 2) if ctl_src[i + 1].startswith("ctl ")]
            heads = [h for h, _ in pairs]
            reqs = [r for _, r in pairs]
            open(base + ".ctl", "w").write("\n".join(reqs) + "\n")
            rc2, mout = C.sh("%s < %s.ctl" % (C.MODEL_BIN, base), timeout=1200)
            os.remove(base + ".ctl")
            ans = [l for l in mout.splitlines() if not l.startswith("WARNING")]
            if len(ans) != len(reqs):
                R.add_broken("correspondence control-words-vs-ResizeMonitor: the monitor answered %d of %d streams (%s)" % (len(ans), len(reqs), mout[-200:]))
            for h, a in zip(heads, ans):
                agg["control_word_streams_accepted_by_lean_monitor"] = agg.get("control_word_streams_accepted_by_lean_monitor", 0) + (1 if a.startswith("ok") else 0)
                mm = re.search(r"inits=(\d+) joins=(\d+) pubs=(\d+)", a)
                if mm:
                    agg["resizes_monitored"] = agg.get("resizes_monitored", 0) + int(mm.group(1))
                    agg["helper_joins_monitored"] = agg.get("helper_joins_monitored", 0) + int(mm.group(2))
                if a.startswith("bad-op"):
                    R.add_broken("correspondence control-words-vs-ResizeMonitor: request not understood (%s)" % h)
                elif a.startswith("bad"):
                    m = re.search(r"case-seed (\d+) mode (\w+)", h)
                    R.add_failing("[resize-monitor] the control-word accesses of a scheduled run contradict the resize theorems: %s (%s)" % (a, h[2:]),
                                  {"suite": suite, "how": "%s %s --mode %s --case-seed %s --verbose 1" % (C.HARNESS_BIN, suite, m.group(2) if m else "?", m.group(1) if m else "?")})
        if prop in ("C11", "C12") and os.path.exists(C.MODEL_BIN) and ctl_src:
            # every tree bin's lock (lock_state / waiter / park / unpark accesses of the run),
            # replayed as a run of the proved lock model (Proto/RwLockMonitor.lean)
            pairs = [(ctl_src[i], ctl_src[i + 1]) for i in range(0, len(ctl_src) - 1, 2) if ctl_src[i + 1].startswith("rw ")]
            heads = [h for h, _ in pairs]
            reqs = [r for _, r in pairs]
            if reqs:
                open(base + ".rw", "w").write("\n".join(reqs) + "\n")
                rc2, mout = C.sh("%s < %s.rw" % (C.MODEL_BIN, base), timeout=1200)
                os.remove(base + ".rw")
                ans = [l for l in mout.splitlines() if not l.startswith("WARNING")]
                if len(ans) != len(reqs):
                    R.add_broken("correspondence lock-words-vs-RwLock-model: the monitor answered %d of %d streams (%s)" % (len(ans), len(reqs), mout[-200:]))
                for h, a in zip(heads, ans):
                    if a.startswith("ok"):
                        agg["tree_bin_lock_streams_accepted_as_runs_of_the_lean_lock_model"] = agg.get("tree_bin_lock_streams_accepted_as_runs_of_the_lean_lock_model", 0) + 1
                        for key, val in re.findall(r"(\w+)=(\d+)", a):
                            agg["lock_monitor_" + key] = agg.get("lock_monitor_" + key, 0) + int(val)
                    elif a.startswith("bad-op"):
                        R.add_broken("correspondence lock-words-vs-RwLock-model: request not understood (%s)" % h)
                    elif a.startswith("bad"):
                        m = re.search(r"case-seed (\d+) mode (\w+)", h)
                        # not by itself a failure of C11 / C12: the tie between the proved lock model and
                        # the code is broken; the scheduler's deadlock / livelock / solo-read verdicts of
                        # the same runs are the search for a failing input
                        nbad = agg.get("lock_monitor_rejected_streams", 0)
                        agg["lock_monitor_rejected_streams"] = nbad + 1
                        if nbad < 3:
                            R.add_broken("correspondence lock-words-vs-RwLock-model: a tree bin's lock accesses in a scheduled run are not a run of Proto/RwLock, the model the lock theorems are about: %s (%s; replay: %s %s --mode %s --case-seed %s --verbose 1)"
                                         % (a, h[2:], C.HARNESS_BIN, suite, m.group(2) if m else "?", m.group(1) if m else "?"))
        if crashed:
            break
        if prop in ("C01", "C08") and os.path.exists(C.MODEL_BIN) and lin_src:
            open(base + ".lin", "w").write("\n".join(lin_src) + "\n")
            rc2, mout = C.sh("%s < %s.lin" % (C.MODEL_BIN, base), timeout=1200)
            ls = [l for l in mout.splitlines() if not l.startswith("WARNING")]
            src = lin_src
            agg["certificates_validated_by_lean"] += sum(1 for l in ls if l == "ok")
            for a, b in zip(src, ls):
                if b != "ok":
                    cert_bad.append((a, b))
        if (R.broken or cert_bad) and not R.failing and not searched:
            searched = True
            rounds += [(R.seed * 104729 + j, n) for j in range(1, 1 + t["search_mult"])]
    for a, b in cert_bad[:3]:
        if b == "not-linearizable":
            R.add_failing("[lin] the Lean checker finds no linearization of a recorded per-key history: " + a[:300], {"suite": suite, "certificate": a})
        else:
            R.add_broken("correspondence harness-certificate-vs-Lin.validate: `%s` answered `%s`" % (a[:200], b))
    for f in (base + ".lin", base + ".progress"):
        if os.path.exists(f):
            os.remove(f)
    R.cov.update({"evaluations": agg["cases"], "distinct_nontrivial": agg["distinct_nontrivial"],
                  "rule": "small concurrent programs (2-4 threads x 1-5 per-key operations, hot key, six hash classes, table shapes: unallocated / about to resize / 64 bins with a crowded bin) run on the real map under the deterministic baton scheduler (seeded random and PCT priority schedules; every hook is a preemption point: every atomic access, lock acquisition, park/unpark, spin); per key the invocation/response history plus the final contents is searched for a linearization and the witness is validated by the Lean checker; non-trivial = at least two context switches; distinct by (program, schedule)",
                  "samples": samples, "scheduled": agg})


# ------------------------------------------------------------------------------------ the checks

def check_C10(R):
    R.trusted = TRUSTED_COMMON + ["64-bit isize (ISIZE_BITS = 64) in the generated constants"]
    R.assumptions = ["the structural model of size_ctl (idle / resizing gen cnt) is justified by the stamp theorems of Props/C10Arith.lean",
                     "PARTIAL embedding: the protocol model is compared with the implementation through the control words at quiescence and the oracles of the scheduled runs (multi-helper resizes), not by a refinement proof"]
    translator_step(R)
    lean_step(R, "C10")
    if harness_step(R):
        seq_step(R, "C10")
        conc_step(R, "C10", modes=("resize", "treeresize", "first"), merge=True)
        stress_step(R, "C10")


def check_C14(R):
    R.trusted = TRUSTED_COMMON
    translator_step(R)
    lean_step(R, "C14")
    if harness_step(R):
        seq_step(R, "C14")
        # the statement quantifies over operation sequences; the clauses "power-of-two length,
        # never shrinks, threshold three quarters" are also watched on scheduled concurrent runs
        # (first-insert races, concurrent growth): structural validator at quiescence and the Lean
        # monitor of the control words
        conc_step(R, "C14", modes=("first", "mixed", "resize"), merge=True)


def lean_eval(imports, body, timeout=600):
    """run a small Lean script (diagnostics when a table theorem fails); returns its output"""
    os.makedirs(os.path.join(C.BUILD, "audit"), exist_ok=True)
    path = os.path.join(C.BUILD, "audit", "Eval_%d.lean" % os.getpid())
    with open(path, "w") as f:
        for m in imports:
            f.write("import %s\n" % m)
        f.write(body)
    with C.Lock("lean"):
        C.sh(["lake", "build"] + imports, cwd=C.LEAN, timeout=timeout)
        rc, out = C.sh(["lake", "env", "lean", path], cwd=C.LEAN, timeout=timeout)
    return out


def guard_table():
    """rows of the generated Gen/Guards.lean: (ty, fn, pub, param, nontrivial)"""
    txt = open(os.path.join(C.LEAN, "Flurry", "Gen", "Guards.lean")).read()
    rows = []
    for m in re.finditer(r'ty := "(\w+)", fn := "(\w+)", pub := (true|false), param := "([^"]+)", uses := \[(.*?)\] \}', txt):
        uses = m.group(5)
        nontrivial = bool(re.search(r"\.(check|call|raw)\b", uses))
        rows.append((m.group(1), m.group(2), m.group(3) == "true", m.group(4), nontrivial))
    return rows


def check_C09(R):
    R.trusted = TRUSTED_COMMON + ["the guard-flow abstraction of extract/src/guards.rs: a use is `check` only if `self.check_guard(g)` is a top-level statement; calls are resolved by receiver shape (self / self.map / self.set / other)"]
    R.assumptions = ["seize::Guard::collector() identifies the collector; check_guard panics iff it differs (exercised at run time)"]
    rep = translator_step(R)
    ok = lean_step(R, "C09")
    if not ok or R.broken:
        out = lean_eval(["Flurry.SigDefs", "Flurry.Gen.Guards"],
                        "open Flurry.Sig Flurry.Gen in\n#eval ((guardFns.filter (·.pub)).filter (fun r => !checkedB guardFns guardFns.length r)).map (fun r => (r.ty, r.fn, r.param))\n")
        R.add_broken("Lean: all_public_guarded is false for the rows " + " ".join(l for l in out.splitlines() if l.startswith("[")))
    if not harness_step(R):
        return
    guards_differential(R)


def guards_differential(R, release=True, cov=True):
    """every public guard-accepting method called with a guard of an unrelated collector (C09; also
    an obligation of C03: a reference obtained under a foreign guard is protected by nobody)"""
    # both build profiles: a check that only exists with debug assertions is no check
    okr = False
    if release:
        okr, bout = C.build_harness(release=True)
        if not okr:
            R.add_broken("the harness no longer builds in the release profile: " + bout[-300:])
    rows = guard_table()
    nontrivial = {(t, f, p) for t, f, b, p, nt in rows if nt}
    public_nt = {(t, f, p) for t, f, b, p, nt in rows if nt and b}
    distinct, outs_all, exercised = set(), [], set()
    for profile, binary in (("debug", C.HARNESS_BIN), ("release", C.HARNESS_BIN_RELEASE)):
        if profile == "release" and not okr:
            continue
        rc, out = C.sh([binary, "guards"], timeout=600)
        try:
            outs = json.loads([l for l in out.splitlines() if l.startswith("[")][-1])
        except Exception:
            if rc < 0:
                R.add_failing("[crash] the `guards` run (%s profile) died with signal %d: a foreign guard was accepted and memory was corrupted" % (profile, -rc),
                              {"suite": "guards", "how": binary + " guards"})
            else:
                R.add_broken("harness `guards` run (%s profile) failed: %s" % (profile, out[-300:]))
            continue
        outs_all += outs
        exercised |= {(o["ty"], o["fn"], o["param"]) for o in outs}
        for o in outs:
            key = (o["ty"], o["fn"], o["param"])
            distinct.add(key + (o["populated"], profile))
            what = "%s::%s (guard `%s`) on a%s collection, %s profile" % (o["ty"], o["fn"], o["param"], " populated" if o["populated"] else "n empty", profile)
            if o["changed"]:
                R.add_failing("a call of %s with a guard of a foreign collector changed the map" % what, {"suite": "guards", "how": binary + " guards", "outcome": o})
            elif o["populated"] and not o["panicked"] and (key in nontrivial or key[0] in ("HashMap", "HashSet")):
                R.add_failing("%s accepted a guard of a foreign collector (no panic)" % what, {"suite": "guards", "how": binary + " guards", "outcome": o})
    outs = outs_all
    if not cov:
        R.cov["foreign_guard_calls"] = len(outs)
        return
    R.cov.update({"evaluations": len(outs), "distinct_nontrivial": len(distinct),
                  "rule": "every public guard-accepting method of HashMap/HashSet and every method of the with_guard wrappers, called with a guard of an unrelated seize::Collector on empty and populated collections (list and tree bins) under catch_unwind, in the debug AND the release build profile; distinct by (type, method, guard parameter, populated, profile)",
                  "samples": outs[:3], "exhaustive": True,
                  "table_rows": len(rows), "public_rows": len([r for r in rows if r[2]]),
                  "public_rows_not_exercised_at_runtime": sorted("%s::%s(%s)" % k for k in public_nt - exercised)})




def check_C06(R):
    R.trusted = TRUSTED_COMMON + ["the tree model Flurry/RB.lean is a hand transcription of src/node.rs; it is compared with the implementation by exact tree dumps (shape and colours) after every operation"]
    R.assumptions = ["key types whose Eq/Ord/Hash are consistent and do not panic", "cost = number of Eq and Ord calls on keys during one get(); the budget checked on the implementation is ceil(4*log2(n+1))+2"]
    translator_step(R)
    lean_step(R, "C06")
    if harness_step(R):
        seq_step(R, "C06")
        # tree bins under contention: shape and colours at quiescence, the lock word back to 0,
        # lookup cost measured after the run
        conc_step(R, "C06", modes=("tree", "treeresize", "solo"), merge=True)


def check_C19(R):
    R.trusted = TRUSTED_COMMON + ["serde_json and rayon as drivers of the feature-gated impls", "the duplicate-key policy extraction of extract/src/serde_policy.rs"]
    R.assumptions = ["the rayon half relies on C01 (parallel inserts are equivalent to some sequential order); the theorem par_extend_any_order is about every such order",
                     "well-formed input = a syntactically valid document of the right shape; type errors yield Err, which is allowed"]
    translator_step(R)
    lean_step(R, "C19")
    if not harness_step(R):
        return
    t = TIERS[R.tier]
    n = 300 if R.tier == "quick" else 20000
    rounds = [(R.seed, n)]
    total = {"docs": 0, "docs_with_repeated_keys": 0, "roundtrips": 0, "par_runs": 0}
    samples, diffs, searched = [], [], False
    base = os.path.join(C.BUILD, "run", "bulk-%d" % os.getpid())
    os.makedirs(os.path.dirname(base), exist_ok=True)
    while rounds:
        seed, cases = rounds.pop(0)
        rc, out = C.sh([C.HARNESS_BIN, "bulk", "--seed", str(seed), "--cases", str(cases), "--ops", base + ".ops", "--impl", base + ".impl"], timeout=3600)
        try:
            rep = json.loads([l for l in out.splitlines() if l.startswith("{")][-1])
        except Exception:
            R.add_broken("harness `bulk` run failed: " + out[-300:])
            break
        for k in total:
            total[k] += rep[k]
        samples = samples or rep["samples"]
        for f in rep["failures"]:
            R.add_failing(f, {"suite": "bulk", "how": "%s bulk --seed %d --cases %d" % (C.HARNESS_BIN, seed, cases), "failure": f})
        if os.path.exists(C.MODEL_BIN):
            rc, mout = C.sh("%s < %s.ops" % (C.MODEL_BIN, base), timeout=600)
            lo = open(base + ".ops").read().splitlines()
            la = open(base + ".impl").read().splitlines()
            lb = [l for l in mout.splitlines() if not l.startswith("WARNING")]
            for o, a, b in zip(lo, la, lb):
                if a != b:
                    diffs.append((o, a, b))
        if (diffs or R.broken) and not R.failing and not searched:
            searched = True
            rounds += [(R.seed * 7919 + j, n) for j in range(1, 4)]
    for o, a, b in diffs[:5]:
        R.add_broken("correspondence serde-visitor-model-vs-implementation: `%s`: implementation `%s`, model `%s`" % (o[:120], a[:120], b[:120]))
    for f in (base + ".ops", base + ".impl"):
        if os.path.exists(f):
            os.remove(f)
    R.cov.update({"evaluations": total["docs"] * 2 + total["roundtrips"] * 2 + total["par_runs"] * 3,
                  "distinct_nontrivial": total["docs_with_repeated_keys"],
                  "rule": "JSON documents over 1-12 keys with repetitions (maps and sets) through serde_json::from_str under catch_unwind, compared with the Lean visitor-loop model and with std's last-wins semantics; round trips of the same contents; par_extend/from_par_iter on pools of 1-8 threads against the key-set/value-membership predicate; non-trivial = the document repeats a key",
                  "samples": samples[:3], **total})
    # the parallel paths are concurrent `insert`s of a thread pool: the scheduled insert/resize
    # suites of C01 (incl. tree bins that are split while threads insert into them) are replayed
    # here; a non-linearizable insert history is a par_extend that differs from sequential insertion
    conc_step(R, "C19", modes=("treeresize", "resize", "iter"), merge=True, cases=TIERS[R.tier]["conc_cases"] // 2)
    stress_step(R, "C19")


def check_C16(R):
    R.trusted = TRUSTED_COMMON + ["rustc as the arbiter of borrow errors", "the lifetime mini-model of Props/C16.lean (a result keeps every argument borrowed whose reference lifetime occurs in its type), validated against rustc on the generated corpus only",
                                  "the elision resolution of extract/src/api.rs"]
    R.assumptions = ["programs are compiled with --emit=metadata against the crate built from /repo with features serde,rayon and hooks off"]
    translator_step(R)
    ok = lean_step(R, "C16")
    model = {}
    out = lean_eval(["Flurry.SigDefs", "Flurry.Gen.Api"] + (["Flurry.Props.C16"] if ok else []),
                    ("open Flurry.Sig Flurry.Gen Flurry.C16 in\n#eval (apiFns.map fun f => s!\"ROW|{f.ty}::{f.fn}|{f.trait_}|{rejected f .map}|{rejected f .guard}\") |>.forM IO.println\n") if ok else "")
    for l in out.splitlines():
        if l.startswith("ROW|"):
            _, key, tr, rm, rg = l.split("|")
            if not tr or tr == "IntoIterator":
                model.setdefault(key, (rm == "true", rg == "true"))
    if not ok:
        bad = lean_eval(["Flurry.SigDefs", "Flurry.Gen.Api"],
                        "open Flurry.Sig Flurry.Gen in\n#eval (apiFns.filter fun f => f.retBorrows && (f.ty == \"HashMap\" || f.ty == \"HashSet\") && f.selfKind != \"none\" && f.selfKind != \"assoc\" && !(match f.selfLt with | some l => f.retLts.all (· == l) && f.guardLts.all (fun g => f.retLts.all (· == g)) && !f.retLts.isEmpty | none => false)).map (fun f => (f.ty, f.fn, f.selfLt, f.guardLts, f.retLts))\n")
        R.add_broken("Lean: result lifetimes not tied to self and guard for: " + " ".join(l for l in bad.splitlines() if l.startswith("[")))
    env, bout = RS.build_crate()
    if env is None:
        R.add_broken("the crate no longer builds with features serde,rayon: " + bout[-400:])
        return
    rows = RS.load_api()
    progs = RS.run_programs(RS.c16_programs(rows), env)
    by_key = {}
    for p in progs:
        by_key.setdefault(p["key"], []).append(p)
    evaluated, ungenerated, distinct, samples = 0, [], set(), []
    for key, ps in sorted(by_key.items()):
        if any(p["kind"] == "ungenerated" for p in ps):
            ungenerated.append(key)
            continue
        pos = [p for p in ps if p["kind"] == "pos"]
        if any(not p["result"]["ok"] for p in pos):
            bad = [p for p in pos if not p["result"]["ok"]][0]
            if key.startswith("non-static"):
                R.add_failing("a program with non-'static keys/values/lookup keys is rejected by rustc (%s): %s" % (key, bad["result"]["msgs"][:1]), {"suite": "rustc", "program": bad["src"], "rustc": bad["result"]})
            elif key.endswith("::Item"):
                R.add_failing("items yielded by %s cannot be used after the iterator is dropped: %s" % (key, bad["result"]["msgs"][:1]), {"suite": "rustc", "program": bad["src"], "rustc": bad["result"]})
            else:
                ungenerated.append(key + " (positive program does not compile: %s)" % bad["result"]["codes"][:2])
            continue
        for p in ps:
            if p["kind"] != "neg":
                continue
            evaluated += 1
            distinct.add((key, p["release"]))
            r = p["result"]
            if r["ok"]:
                R.add_failing("rustc ACCEPTS a program that uses the result of %s after releasing the %s" % (key, p["release"]),
                              {"suite": "rustc", "program": p["src"]})
            elif not (set(r["codes"]) & RS.BORROW_CODES):
                R.add_broken("correspondence rustc-vs-mini-model: the negative program for %s/%s fails with %s, not a borrow error" % (key, p["release"], r["codes"][:3]))
            if len(samples) < 2 and not r["ok"]:
                samples.append({"method": key, "released": p["release"], "rustc_error_codes": r["codes"][:2], "program": p["src"][-260:]})
            # model verdict
            if key in model and p["release"] in ("map", "guard", "guard-refresh", "wrapper"):
                if key.split("::")[0] in ("HashMapRef", "HashSetRef"):
                    # through the wrapper: the result borrows the wrapper, the wrapper (made by
                    # with_guard) borrows the map and the guard
                    wg = model.get(key.split("::")[0].replace("Ref", "") + "::with_guard", (False, False))
                    mv = model[key][0] and {"wrapper": True, "map": wg[0], "guard": wg[1], "guard-refresh": wg[1]}[p["release"]]
                else:
                    mv = model[key][0] if p["release"] == "map" else model[key][1]
                if mv != (not r["ok"]):
                    R.add_broken("correspondence rustc-vs-mini-model: %s released %s: model says %s, rustc %s" % (key, p["release"], "rejected" if mv else "accepted", "accepted" if r["ok"] else "rejected"))
    R.cov.update({"evaluations": len([p for p in progs if p["kind"] != "ungenerated"]), "distinct_nontrivial": len(distinct),
                  "rule": "for every public method whose result borrows (from the regenerated signature table): one positive program and one negative program per thing released (guard dropped, guard refreshed, map dropped, wrapper dropped) compiled with rustc --emit=metadata; negatives must fail with a borrow error code (E0505/E0502/E0499/E0597/E0716/E0506/E0503); non-trivial = a negative program; distinct by (method, released object)",
                  "samples": samples, "negative_programs": evaluated, "methods_without_program": ungenerated, "exhaustive": True,
                  "api_rows": len(rows)})


def check_C17(R):
    R.trusted = TRUSTED_COMMON + ["rustc as the arbiter of trait-bound errors", "classification of 'inserting entry point' from the signature (Props/C17.lean: by-value K/V/T parameter, closure returning Option<V>, or a bulk trait)"]
    translator_step(R)
    ok = lean_step(R, "C17")
    out = lean_eval(["Flurry.SigDefs", "Flurry.Gen.Api", "Flurry.Props.C17Defs"],
                    "open Flurry.Sig Flurry.Gen Flurry.C17 in\n#eval (apiFns.filter inserting).map (fun f => s!\"INS|{f.ty}::{if f.trait_ == \"\" then f.fn else f.trait_}|{sendSync f}\") |>.forM IO.println\n")
    ins = {}
    for l in out.splitlines():
        if l.startswith("INS|"):
            _, key, ss = l.split("|")
            ins[key] = ins.get(key, True) and ss == "true"
    if not ok:
        R.add_broken("Lean: inserting entry points without Send+Sync on keys and values: %s" % sorted(k for k, v in ins.items() if not v))
    env, bout = RS.build_crate()
    if env is None:
        R.add_broken("the crate no longer builds with features serde,rayon: " + bout[-400:])
        return
    rows = RS.load_api()
    progs = RS.run_programs(RS.c17_programs(rows, set(ins)), env)
    by_key = {}
    for p in progs:
        by_key.setdefault(p["key"], []).append(p)
    ungenerated, distinct, samples, neg = [], set(), [], 0
    for key, ps in sorted(by_key.items()):
        if any(p["kind"] == "ungenerated" for p in ps):
            ungenerated.append(key)
            continue
        pos = [p for p in ps if p["kind"] == "pos"]
        if any(not p["result"]["ok"] for p in pos):
            bad = [p for p in pos if not p["result"]["ok"]][0]
            if key == "lookup-unbounded":
                R.add_failing("lookups/iteration over non-thread-safe key and value types are rejected by rustc: %s" % bad["result"]["msgs"][:1], {"suite": "rustc", "program": bad["src"], "rustc": bad["result"]})
            else:
                ungenerated.append(key + " (positive program does not compile: %s %s)" % (bad["result"]["codes"][:2], bad["result"]["msgs"][:1]))
            continue
        for p in ps:
            if p["kind"] != "neg":
                continue
            neg += 1
            distinct.add((key, p["slot"], p["probe"]))
            r = p["result"]
            what = "%s with a %s %s type" % (key, {"NoSend": "!Send", "NoSync": "!Sync", "Neither": "!Send + !Sync"}[p["probe"]], {"KT": "key", "VT": "value", "ET": "element"}[p["slot"]])
            if r["ok"]:
                R.add_failing("rustc ACCEPTS " + what, {"suite": "rustc", "program": p["src"]})
            else:
                text = " ".join(r["msgs"])
                text = text + " " + r.get("rendered", "")
                if not (set(r["codes"]) & {"E0277", "E0599"}) or not re.search(r"\b(Send|Sync)\b|sent between threads|shared between threads", text):
                    R.add_broken("correspondence rustc-vs-table: the negative program for %s fails with %s (%s), not a Send/Sync bound error" % (what, r["codes"][:3], text[:120]))
            if len(samples) < 2 and not r["ok"]:
                samples.append({"entry_point": key, "probe": p["probe"], "slot": p["slot"], "rustc_error_codes": r["codes"][:2], "message": (r["msgs"] or [""])[0][:160]})
    R.cov.update({"evaluations": len([p for p in progs if p["kind"] != "ungenerated"]), "distinct_nontrivial": len(distinct),
                  "rule": "for every inserting entry point of the regenerated signature table: a positive program (thread-safe types) and negative programs with the key / value / element type replaced by a !Send, a !Sync and a !Send+!Sync probe type (rayon paths: the !Sync probe, since rayon itself demands Send); negatives must fail with E0277 naming Send/Sync; plus one positive program using every lookup/iteration method on !Send+!Sync types",
                  "samples": samples, "negative_programs": neg, "entry_points_without_program": ungenerated,
                  "inserting_entry_points": sorted(ins), "exhaustive": True})


PARTIAL_CONC = ("PARTIAL: proved for every interleaving of any number of threads: one LIST bin without resize (Proto/Bin, Proto/BinW: "
                "lock inside the first node, re-check of the bin cell, step-by-step writer walk, lock-free CAS into an empty bin, lock-free "
                "readers justified in hindsight; the re-check is shown load-bearing), tied to the code by the lock-discipline check on every "
                "recorded event stream and to the sequential model by writerStore_refines_seq. Also proved: one TREE bin without resize "
                "(Proto/BinT: list + tree set + read-write lock, per-element mode decision of readers) in the REPAIRED removal order — the original order is refuted by a kernel-checked schedule, finding F8. Also proved: one list bin WHILE ITS TABLE IS RESIZED (Proto/BinX: forwarding marker, split with re-used last run and prepended copies, fill-then-forward order, readers still on the old list justified in hindsight; `transfer` has no abstract effect). "
                "Beyond these fragments the theorems cover the specification and the sound AND complete decision procedure applied to recorded "
                "histories; that every interleaving of the whole implementation produces a linearizable history is explored by the deterministic "
                "scheduler, the regression scenarios and the stress search on the real code (testing), not proved")


def check_C01(R):
    R.trusted = TRUSTED_COMMON + ["the deterministic scheduler (/verif/harness/src/sched.rs): only the thread holding the baton runs, every hook is a preemption point, invocation/response times are positions in the global event order",
                                  "locality: linearizability is decided per key (operations of the per-key API touch one key)"]
    R.assumptions = [PARTIAL_CONC, "sequentially consistent exploration: weak-memory reorderings are not explored (see C15)"]
    translator_step(R)
    lean_step(R, "C01")
    if harness_step(R):
        conc_step(R, "C01", modes=("mixed", "tree", "resize", "treeresize", "solo"))
        stress_step(R, "C01")


def check_C08(R):
    R.trusted = TRUSTED_COMMON + ["the deterministic scheduler (/verif/harness/src/sched.rs)"]
    R.assumptions = [PARTIAL_CONC, "the closure passed by the harness counts its own invocations and records the value it was shown"]
    translator_step(R)
    lean_step(R, "C08")
    if harness_step(R):
        conc_step(R, "C08", modes=("mixed", "tree", "cip", "treeresize"))


SEQ_TRUST = ["the sequential model Flurry/Seq/Model.lean is a hand transcription of src/map.rs; it is compared with the implementation on every answer and on a full structural dump after every mutating operation"]


def check_C02(R):
    R.trusted = TRUSTED_COMMON + SEQ_TRUST
    R.assumptions = ["BuildHasher is a function of the key (deterministic); Eq/Ord/Hash of the key type are consistent", "clone / equality / set relations / Debug / Index are compared with the reference map and (where the model has them) with the model; they are derived operations in the Lean statement"]
    translator_step(R)
    lean_step(R, "C02")
    if harness_step(R):
        seq_step(R, "C02")


def check_C05(R):
    R.trusted = TRUSTED_COMMON + SEQ_TRUST
    R.assumptions = ["PARTIAL for concurrent histories: after scheduled concurrent runs the quiescent state is validated on the implementation (inspector) only; the theorem wf_reachable covers every sequential history"]
    translator_step(R)
    lean_step(R, "C05")
    if harness_step(R):
        seq_step(R, "C05")
        conc_step(R, "C05", modes=("mixed", "resize", "tree", "clear", "treeresize"), merge=True)
        stress_step(R, "C05")


def check_C13(R):
    R.trusted = TRUSTED_COMMON + SEQ_TRUST
    R.assumptions = ["PARTIAL for interleavings: the conditional removal (pointer comparison under the bin lock) is exercised against concurrent replacement by the scheduled suite; the theorems cover the sequential behaviour and the conditional-removal rule of the model (remove_if_absMap)"]
    translator_step(R)
    lean_step(R, "C13")
    if harness_step(R):
        seq_step(R, "C13")
        conc_step(R, "C13", modes=("retain",), merge=True)


def check_C18(R):
    R.trusted = TRUSTED_COMMON + SEQ_TRUST
    R.assumptions = ["only panics raised by the closures passed to compute_if_present / retain / retain_force are in scope, not panics of the key type's own Eq/Ord/Hash/Clone"]
    translator_step(R)
    lean_step(R, "C18")
    if harness_step(R):
        seq_step(R, "C18")
        # with the life-cycle ledger: a value retired (or freed) although the entry a panicking
        # closure left unchanged still holds it
        conc_step(R, "C18", extra_args=["--life", "1"], modes=("panic",), merge=True)


def check_C03(R):
    R.trusted = TRUSTED_COMMON + ["seize as the abstract rule 'freed only after every guard active at retirement has been released; an unprotected guard frees at once'",
                                  "the quarantine allocator of the harness (freed blocks are poisoned and never reused during a case) and the hook addresses"]
    R.assumptions = ["PARTIAL: the protocol theorems are about Proto/Reclaim; that the implementation's events follow the protocol is checked on recorded event streams (sequential incl. bulk construction, and scheduled concurrent runs), not proved"]
    translator_step(R)
    lean_step(R, "C03")
    if harness_step(R):
        seq_step(R, "C03", life=True)
        conc_step(R, "C03", extra_args=["--life", "1"], modes=("mixed", "tree", "resize", "iter", "treeresize", "clear"), merge=True)
        # the reclamation theorems protect a reference only if the guard it was obtained under belongs
        # to the collector the map retires into: every public entry point must refuse any other guard
        guards_differential(R, release=False, cov=False)


def check_C04(R):
    R.trusted = TRUSTED_COMMON + ["the instrumented key/value types count every construction, clone and drop per instance"]
    R.assumptions = ["PARTIAL: exactly-once destruction of keys/values of the real map is the drop ledger's verdict on explored executions; the theorems are about the reclamation protocol and the sequential model"]
    translator_step(R)
    lean_step(R, "C04")
    if harness_step(R):
        seq_step(R, "C04", life=True)
        conc_step(R, "C04", extra_args=["--life", "1"], modes=("mixed", "tree", "resize", "treeresize", "clear"), merge=True)


def frozen_chain_step(R):
    """correspondence of the traverser model on frozen chains: an iterator of the real map runs while
    every other thread is suspended (usually in the middle of a resize); the chain of tables it
    starts from is dumped through the inspector; the Lean traverser run on that chain must yield
    the same entries in the same order, and the chain must satisfy the theorem's hypothesis"""
    n = 600 if R.tier == "quick" else 20000
    nshard = max(1, min(C.JOBS, n // 40))
    per = (n + nshard - 1) // nshard
    base = os.path.join(C.BUILD, "run", "trav-%d" % os.getpid())
    os.makedirs(os.path.dirname(base), exist_ok=True)
    procs = []
    for j in range(nshard):
        b = "%s.%d" % (base, j)
        procs.append((b, subprocess.Popen([C.HARNESS_BIN, "conc", "--mode", "frozeniter", "--seed", str(R.seed), "--first", str(j * per), "--cases", str(per), "--trav", b + ".trav"],
                                          stdout=subprocess.PIPE, stderr=subprocess.STDOUT, text=True)))
    lines = []
    for b, pr in procs:
        out, _ = pr.communicate(timeout=3600)
        if pr.returncode != 0:
            R.add_failing("[crash] the harness died (exit %d) in mode frozeniter" % pr.returncode, {"suite": "conc", "how": "%s conc --mode frozeniter --seed %d" % (C.HARNESS_BIN, R.seed)})
        if os.path.exists(b + ".trav"):
            lines += open(b + ".trav").read().splitlines()
            os.remove(b + ".trav")
    heads = [l for l in lines if l.startswith("#")]
    reqs = [l for l in lines if l.startswith("trav")]
    wants = [l[5:] for l in lines if l.startswith("want")]
    if not reqs or not os.path.exists(C.MODEL_BIN):
        R.add_broken("correspondence frozen-chain: no chains were produced or the model driver is missing")
        return
    open(base + ".req", "w").write("\n".join(reqs) + "\n")
    rc, mout = C.sh("%s < %s.req" % (C.MODEL_BIN, base), timeout=1200)
    os.remove(base + ".req")
    ans = [l for l in mout.splitlines() if not l.startswith("WARNING")]
    if len(ans) != len(reqs):
        R.add_broken("correspondence frozen-chain: the model answered %d of %d requests" % (len(ans), len(reqs)))
    forwarded = sum(1 for r in reqs if ";" in r)
    bad = 0
    for h, r, w, a in zip(heads, reqs, wants, ans):
        y = a.split("yields=")[1] if "yields=" in a else None
        m = re.search(r"case-seed (\d+)", h)
        how = {"suite": "conc", "how": "%s conc --mode frozeniter --case-seed %s --verbose 1" % (C.HARNESS_BIN, m.group(1) if m else "?"), "chain": r[:2000], "implementation_yields": w[:1000], "model": a[:1000]}
        if "wf=true" not in a:
            bad += 1
            R.add_failing("[frozen-chain] the chain of tables dumped from the implementation is not well formed (next table not twice as long, or a forwarding marker in the last table): " + r[:300], how)
        elif y != w:
            bad += 1
            # the model is a transcription: a disagreement is a broken correspondence; it is a violation
            # of C07 when the implementation's yield is not a permutation of the chain's contents
            ys, cs = sorted(w.split(",")) if w else [], sorted(y.split(",")) if y else []
            if ys != cs:
                R.add_failing("[frozen-chain] an iterator running alone on a frozen structure yields %s, but the structure holds %s" % (w[:300], y[:300]), how)
            else:
                R.add_broken("correspondence frozen-chain: same entries, different order: implementation %s, Lean traverser %s (%s)" % (w[:200], y[:200], h))
    R.cov["frozen_chains"] = {"chains": len(reqs), "with_forwarded_bins": forwarded, "disagreements": bad}
    R.cov["rule"] = R.cov.get("rule", "") + " || frozen chains: %d iterations of the real map with all other threads suspended (%d in the middle of a resize), yield ORDER compared with Seq.Iter.traverse on the dumped chain" % (len(reqs), forwarded)


def check_C07(R):
    R.trusted = TRUSTED_COMMON + ["the traverser model Flurry/Seq/Iter.lean is a hand transcription of src/iter/traverser.rs"]
    R.assumptions = ["PARTIAL for concurrent mutation: weak consistency during concurrent inserts/removals/resizes is judged on recorded histories (iter oracle), the theorem covers frozen forwarding structures of any depth"]
    translator_step(R)
    lean_step(R, "C07")
    if harness_step(R):
        # "frozeniter": the iterator starts only when every other thread is suspended - at a random
        # point, right after an overwriting store to a bin cell or link, or right after a tree bin
        # has been forwarded / replaced - and is judged by the same weak-consistency oracle
        conc_step(R, "C07", modes=("iter", "frozeniter"))
        frozen_chain_step(R)


def check_C11(R):
    R.trusted = TRUSTED_COMMON + ["parking_lot mutexes as atomic lock/unlock; std::thread::park/unpark as a one-token semaphore"]
    R.assumptions = ["PARTIAL: proved for the tree-bin lock protocol and the resize protocol models; whole-map termination is explored: the scheduler reports deadlock (no enabled unfinished thread) and livelock (no termination under a fair policy within the step budget)"]
    translator_step(R)
    lean_step(R, "C11")
    if harness_step(R):
        conc_step(R, "C11", modes=("mixed", "tree", "resize", "iter", "treeresize", "clear"))
        stress_step(R, "C11")


def check_C12(R):
    R.trusted = TRUSTED_COMMON + ["call resolution by method name and arity in extract/src/atomics.rs (an over-approximation of the call graph)"]
    R.assumptions = ["PARTIAL: a read's steps are always enabled, change nothing but its own locals / the reader count, and a read run alone finishes within 2*|heap|+5 (tree bin) / |heap|+4 (list bin under resize) own steps from EVERY reachable state of the one-bin models Proto/BinT and Proto/BinX (Props/C12Bins.lean); for the whole map (iteration, len, nested forwarding chains, many bins) boundedness is measured on the implementation (reads run alone with writers suspended at every yield point)"]
    translator_step(R)
    lean_step(R, "C12")
    if harness_step(R):
        n = TIERS[R.tier]["conc_cases"]
        conc_step(R, "C12", modes=("mixed", "tree"), cases=n // 2)
        # the deciding mode: a read suspended at a random point of its own execution while the
        # writers run (possibly through several resizes), then run alone and its own steps counted
        conc_step(R, "C12", modes=("solo",), cases=2 * n, merge=True)


def check_C15(R):
    R.trusted = TRUSTED_COMMON + ["the C++11/Rust memory-model fragment of Props/C15.lean (hb = (po ∪ sw)+; release store/RMW -> acquire load/RMW; mutex unlock -> lock) is a definition, not derived",
                                  "the classification of functions that only touch unpublished objects or run under the tree write lock (privateFn in Props/C15.lean)",
                                  "seize's protect is a SeqCst load for protected guards"]
    R.assumptions = ["no weak-memory execution is explored: the scheduler is sequentially consistent; missing edges are detected from the orderings used (vector clocks), not by observing stale data"]
    translator_step(R)
    lean_step(R, "C15")
    if harness_step(R):
        conc_step(R, "C15", extra_args=["--life", "1"], modes=("mixed", "tree", "resize", "iter", "treeresize"))
        R.cov["rule"] += " || C15: vector clocks over the recorded event stream with the orderings actually passed at run time; every cross-thread dereference of an allocation must be ordered after it"


CHECKS = {
    "C15": check_C15,
    "C02": check_C02, "C05": check_C05, "C13": check_C13, "C18": check_C18, "C03": check_C03, "C04": check_C04,
    "C07": check_C07, "C11": check_C11, "C12": check_C12,
    "C01": check_C01,
    "C08": check_C08,
    "C16": check_C16,
    "C17": check_C17,
    "C06": check_C06,
    "C19": check_C19,
    "C09": check_C09,
    "C10": check_C10,
    "C14": check_C14,
}


def replay(prop, path):
    d = json.load(open(path))
    print(json.dumps(d, indent=1)[:4000])
    for f in d.get("failing_inputs", []):
        how = f.get("replay", {}).get("how")
        if how:
            rc, out = C.sh(how, timeout=600)
            print(out[-3000:])
    return 0
