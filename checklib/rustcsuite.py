"""rustc as the implementation in the correspondence for C16 / C17: small programs generated from
the regenerated signature table (lean/Flurry/Gen/api.json) are compiled (metadata only) against
the freshly built crate; accept/reject verdicts and error codes are compared with what the Lean
mini-model says."""
import glob, json, os, re, subprocess
from concurrent.futures import ThreadPoolExecutor
from . import common as C

TARGET = os.path.join(C.BUILD, "rustc-target")
BORROW_CODES = {"E0505", "E0502", "E0499", "E0597", "E0716", "E0506", "E0503"}


def build_crate():
    """build /repo (hooks off, features serde+rayon) and return (rlib, deps dir, externs)"""
    with C.Lock("rustc-target"):
        rc, out = C.sh(["cargo", "build", "--offline", "--quiet", "--features", "serde,rayon",
                        "--manifest-path", os.path.join(C.REPO, "Cargo.toml"), "--target-dir", TARGET], timeout=1800)
    if rc != 0:
        return None, out
    deps = os.path.join(TARGET, "debug", "deps")
    rlib = os.path.join(TARGET, "debug", "libflurry.rlib")
    ext = {"flurry": rlib}
    for name in ("seize", "rayon", "serde"):
        c = sorted(glob.glob(os.path.join(deps, "lib%s-*.rlib" % name)), key=os.path.getmtime)
        if c:
            ext[name] = c[-1]
    return (rlib, deps, ext), out


def compile_prog(src, env, idx):
    rlib, deps, ext = env
    d = os.path.join(C.BUILD, "rustc-progs")
    os.makedirs(d, exist_ok=True)
    path = os.path.join(d, "p%d_%d.rs" % (os.getpid(), idx))
    open(path, "w").write(src)
    cmd = ["rustc", "--edition", "2021", "--emit=metadata", "--crate-type", "bin", "-A", "warnings",
           "--error-format=json", "-L", "dependency=" + deps, "-o", os.path.join(d, "p%d_%d.rmeta" % (os.getpid(), idx))]
    for k, v in ext.items():
        cmd += ["--extern", "%s=%s" % (k, v)]
    cmd.append(path)
    p = subprocess.run(cmd, stdout=subprocess.PIPE, stderr=subprocess.PIPE, env=C.ENV)
    codes, msgs, rendered = [], [], []
    for l in p.stderr.decode("utf-8", "replace").splitlines():
        if l.startswith("{"):
            try:
                j = json.loads(l)
            except Exception:
                continue
            if j.get("level") == "error":
                if j.get("code"):
                    codes.append(j["code"]["code"])
                msgs.append(j.get("message", "")[:300])
                rendered.append((j.get("rendered") or "")[:3000])
    for f in (path, os.path.join(d, "p%d_%d.rmeta" % (os.getpid(), idx))):
        try:
            os.remove(f)
        except OSError:
            pass
    return {"ok": p.returncode == 0, "codes": codes, "msgs": msgs, "rendered": "\n".join(rendered)[:6000]}


PRELUDE = """#![allow(unused)]
use flurry::*;
fn use_it<T>(_: &T) {}
"""


def arg_for(pname, pty, fn):
    t = pty.replace(" ", "")
    if "Guard<" in t:
        return "&guard"
    if t in ("&Q",):
        return "&key"
    if t in ("K", "T"):
        return 'String::from("k")'
    if t == "V":
        return 'String::from("v")'
    if t == "usize":
        return "1"
    if t == "F":
        if fn == "compute_if_present":
            return "|_k, v| Some(v.clone())"
        if fn in ("retain", "retain_force"):
            return "|_k, _v| true" if True else ""
    if t.startswith("&HashSet<"):
        return "&other"
    if t.startswith("&HashSetRef<"):
        return "&other_ref"
    return None


def c16_programs(rows):
    """yields dicts {key, kind, release, src} ; kind in {neg, pos}"""
    progs = []
    for r in rows:
        if not r["ret_borrows"] or r["self_kind"] not in ("ref", "mut", "value"):
            continue
        ty, fn = r["ty"], r["fn"]
        if r["trait"] and r["trait"] not in ("IntoIterator",):
            continue
        is_set = ty.startswith("HashSet")
        coll = "HashSet<String>" if is_set else "HashMap<String, String>"
        args = []
        ok = True
        for pn, pt in r["params"]:
            a = arg_for(pn, pt, fn)
            if a is None:
                ok = False
                break
            if fn in ("retain", "retain_force") and pt.replace(" ", "") == "F" and is_set:
                a = "|_k| true"
            args.append(a)
        if not ok:
            progs.append({"key": "%s::%s" % (ty, fn), "kind": "ungenerated", "why": "no argument template for %s" % (r["params"],)})
            continue
        setup = ("    let map: flurry::%s = Default::default();\n    let other: flurry::%s = Default::default();\n"
                 "    let key = String::from(\"k\");\n    let coll = seize::Collector::new();\n    let mut guard = coll.enter();\n"
                 "    let og = coll.enter();\n    let other_ref = other.with_guard(&og);\n") % (coll, coll)
        if ty in ("HashMap", "HashSet"):
            recv, releases = "map", []
            call = "map.%s(%s)" % (fn, ", ".join(args))
            if r["guard_lts"]:
                releases = [("guard", "drop(guard);"), ("guard-refresh", "guard.refresh();"), ("map", "drop(map);")]
            else:
                releases = [("map", "drop(map);")]
            pre = ""
        elif ty in ("HashMapRef", "HashSetRef"):
            pre = "    let mref = map.with_guard(&guard);\n"
            if r["self_kind"] == "value":      # IntoIterator for &Ref
                call = "(&mref).into_iter()"
            else:
                call = "mref.%s(%s)" % (fn, ", ".join(args))
            releases = [("wrapper", "drop(mref);"), ("guard", "drop(guard);"), ("map", "drop(map);")]
        else:
            continue
        key = "%s::%s" % (ty, fn)
        body = setup + pre + "    let r = %s;\n" % call
        progs.append({"key": key, "kind": "pos", "release": "-", "src": PRELUDE + "fn main() {\n" + body + "    use_it(&r);\n}\n"})
        for name, stmt in releases:
            progs.append({"key": key, "kind": "neg", "release": name,
                          "src": PRELUDE + "fn main() {\n" + body + "    " + stmt + "\n    use_it(&r);\n}\n"})
    # items yielded by the iterator types
    for it, coll in (("iter", "HashMap<String, String>"), ("keys", "HashMap<String, String>"), ("values", "HashMap<String, String>"), ("iter", "HashSet<String>")):
        setup = ("    let map: flurry::%s = Default::default();\n    let coll = seize::Collector::new();\n    let mut guard = coll.enter();\n"
                 "    let mut it = map.%s(&guard);\n    let x = it.next();\n") % (coll, it)
        key = "%s::%s::Item" % (coll.split("<")[0], it)
        progs.append({"key": key, "kind": "pos", "release": "iterator", "src": PRELUDE + "fn main() {\n" + setup + "    drop(it);\n    use_it(&x);\n}\n"})
        for name, stmt in (("guard", "drop(it); drop(guard);"), ("map", "drop(it); drop(map);")):
            progs.append({"key": key, "kind": "neg", "release": name, "src": PRELUDE + "fn main() {\n" + setup + "    " + stmt + "\n    use_it(&x);\n}\n"})
    # keys, values and lookup keys need not be 'static
    progs.append({"key": "non-static::collect", "kind": "pos", "release": "-", "src": PRELUDE + """fn main() {
    let x = String::from("foo");
    let map: flurry::HashMap<&str, &str> = std::iter::once((&*x, &*x)).collect();
    let g = map.guard();
    use_it(&map.get(&&*x, &g));
}
"""})
    progs.append({"key": "non-static::insert-get", "kind": "pos", "release": "-", "src": PRELUDE + """fn main() {
    let x = String::from("foo");
    let y = String::from("foo");
    let map: flurry::HashMap<&String, &String> = flurry::HashMap::new();
    let g = map.guard();
    map.insert(&x, &x, &g);
    use_it(&map.get(&&y, &g));
    let set: flurry::HashSet<&str> = flurry::HashSet::new();
    set.pin().insert(&*x);
    use_it(&set.pin().contains(&*y));
}
"""})
    return progs


PROBES = """
#[derive(Clone, Copy, PartialEq, Eq, PartialOrd, Ord, Hash, Debug)]
struct NoSend(u32, std::marker::PhantomData<std::sync::MutexGuard<'static, u8>>);
#[derive(Clone, Copy, PartialEq, Eq, PartialOrd, Ord, Hash, Debug)]
struct NoSync(u32, std::marker::PhantomData<std::cell::Cell<u8>>);
#[derive(Clone, Copy, PartialEq, Eq, PartialOrd, Ord, Hash, Debug)]
struct Neither(u32, std::marker::PhantomData<*const u8>);
#[derive(Clone, Copy, PartialEq, Eq, PartialOrd, Ord, Hash, Debug)]
struct Fine(u32);
macro_rules! de { ($t:ident) => { impl<'de> serde::Deserialize<'de> for $t { fn deserialize<D: serde::Deserializer<'de>>(_d: D) -> Result<Self, D::Error> { unimplemented!() } } } }
de!(NoSend); de!(NoSync); de!(Neither); de!(Fine);
"""

# templates: (type, fn-or-trait key) -> body using KT / VT / ET (element) type names; `k`, `v`, `e` are values
C17_TEMPLATES = {
    ("HashMap", "insert"): "let m: HashMap<KT, VT> = HashMap::new(); let g = m.guard(); m.insert(k, v, &g);",
    ("HashMap", "try_insert"): "let m: HashMap<KT, VT> = HashMap::new(); let g = m.guard(); let _ = m.try_insert(k, v, &g);",
    ("HashMap", "compute_if_present"): "let m: HashMap<KT, VT> = HashMap::new(); let g = m.guard(); m.compute_if_present(&k, |_, _| None, &g);",
    ("HashMapRef", "insert"): "let m: HashMap<KT, VT> = HashMap::new(); m.pin().insert(k, v);",
    ("HashMapRef", "try_insert"): "let m: HashMap<KT, VT> = HashMap::new(); let _ = m.pin().try_insert(k, v);",
    ("HashMapRef", "compute_if_present"): "let m: HashMap<KT, VT> = HashMap::new(); m.pin().compute_if_present(&k, |_, _| None);",
    ("HashMap", "Extend<(K,V)>"): "let m: HashMap<KT, VT> = HashMap::new(); let mut r = &m; <&HashMap<KT, VT> as std::iter::Extend<(KT, VT)>>::extend(&mut r, vec![(k, v)]);",
    ("HashMap", "Extend<(&'aK,&'aV)>"): "let m: HashMap<KT, VT> = HashMap::new(); let mut r = &m; <&HashMap<KT, VT> as std::iter::Extend<(&KT, &VT)>>::extend(&mut r, vec![(&k, &v)]);",
    ("HashMap", "FromIterator<(K,V)>"): "let m: HashMap<KT, VT> = vec![(k, v)].into_iter().collect();",
    ("HashMap", "FromIterator<(&'aK,&'aV)>"): "let m: HashMap<KT, VT> = vec![(&k, &v)].into_iter().collect();",
    ("HashMap", "FromIterator<&'a(K,V)>"): "let p = (k, v); let m: HashMap<KT, VT> = vec![&p].into_iter().collect();",
    ("HashMap", "Clone"): "let m: HashMap<KT, VT> = HashMap::new(); let c = m.clone();",
    ("HashMap", "Deserialize<'de>"): "fn f<'de, D: serde::Deserializer<'de>>(d: D) { let _ = <HashMap<KT, VT> as serde::Deserialize>::deserialize(d); }",
    ("HashSet", "insert"): "let s: HashSet<ET> = HashSet::new(); let g = s.guard(); s.insert(e, &g);",
    ("HashSetRef", "insert"): "let s: HashSet<ET> = HashSet::new(); s.pin().insert(e);",
    ("HashSet", "Extend<T>"): "let s: HashSet<ET> = HashSet::new(); let mut r = &s; <&HashSet<ET> as std::iter::Extend<ET>>::extend(&mut r, vec![e]);",
    ("HashSet", "Extend<&'aT>"): "let s: HashSet<ET> = HashSet::new(); let mut r = &s; <&HashSet<ET> as std::iter::Extend<&ET>>::extend(&mut r, vec![&e]);",
    ("HashSet", "FromIterator<T>"): "let s: HashSet<ET> = vec![e].into_iter().collect();",
    ("HashSet", "FromIterator<&'aT>"): "let s: HashSet<ET> = vec![&e].into_iter().collect();",
    ("HashSet", "Clone"): "let s: HashSet<ET> = HashSet::new(); let c = s.clone();",
    ("HashSet", "Deserialize<'de>"): "fn f<'de, D: serde::Deserializer<'de>>(d: D) { let _ = <HashSet<ET> as serde::Deserialize>::deserialize(d); }",
    # rayon's own traits already demand `Item: Send`; flurry's `Sync` bound is the observable one
    ("HashMap", "FromParallelIterator<(K,V)>"): "use rayon::prelude::*; let m: HashMap<KT, VT> = vec![(k, v)].into_par_iter().collect();",
    ("HashMap", "ParallelExtend<(K,V)>"): "use rayon::prelude::*; let m: HashMap<KT, VT> = HashMap::new(); (&m).par_extend(vec![(k, v)]);",
    ("HashSet", "FromParallelIterator<K>"): "use rayon::prelude::*; let s: HashSet<ET> = vec![e].into_par_iter().collect();",
    ("HashSet", "ParallelExtend<K>"): "use rayon::prelude::*; let s: HashSet<ET> = HashSet::new(); (&s).par_extend(vec![e]);",
}


def c17_programs(rows, inserting_keys):
    progs = []
    seen = set()
    for r in rows:
        key = (r["ty"], r["trait"] or r["fn"])
        label = "%s::%s" % key
        if label not in inserting_keys:
            continue
        if key in seen:
            continue
        seen.add(key)
        tpl = C17_TEMPLATES.get(key)
        if tpl is None:
            progs.append({"key": label, "kind": "ungenerated", "why": "no program template"})
            continue
        is_set = "ET" in tpl
        slots = ["ET"] if is_set else ["KT", "VT"]

        def mk(assign):
            body = tpl
            decl = ""
            for s in ("KT", "VT", "ET"):
                t = assign.get(s, "Fine")
                body = re.sub(r"\b%s\b" % s, t, body)
            vals = ""
            if is_set:
                vals = "let e = %s;" % val(assign.get("ET", "Fine"))
            else:
                vals = "let k = %s; let v = %s;" % (val(assign.get("KT", "Fine")), val(assign.get("VT", "Fine")))
            if body.startswith("fn f<"):
                return PRELUDE + PROBES + body + "\nfn main() {}\n"
            return PRELUDE + PROBES + "fn main() {\n    " + vals + "\n    " + body + "\n}\n"

        progs.append({"key": label, "kind": "pos", "probe": "Fine", "slot": "-", "src": mk({})})
        for slot in slots:
            for probe in ("NoSend", "NoSync", "Neither"):
                if "rayon" in tpl and probe != "NoSync":
                    continue
                progs.append({"key": label, "kind": "neg", "probe": probe, "slot": slot, "src": mk({slot: probe})})
    # lookups and iteration stay available for non-thread-safe types
    look = """let m: HashMap<Neither, Neither> = HashMap::new(); let g = m.guard(); let k = Neither(1, std::marker::PhantomData);
    use_it(&m.get(&k, &g)); use_it(&m.get_key_value(&k, &g)); use_it(&m.contains_key(&k, &g)); use_it(&m.len()); use_it(&m.is_empty());
    for _ in m.iter(&g) {} for _ in m.keys(&g) {} for _ in m.values(&g) {}
    let p = m.pin(); use_it(&p.get(&k)); use_it(&p.contains_key(&k)); use_it(&p.len()); for _ in p.iter() {}
    let s: HashSet<Neither> = HashSet::new(); let gs = s.guard(); use_it(&s.contains(&k, &gs)); use_it(&s.get(&k, &gs)); use_it(&s.len()); for _ in s.iter(&gs) {}"""
    progs.append({"key": "lookup-unbounded", "kind": "pos", "probe": "Neither", "slot": "-", "src": PRELUDE + PROBES + "fn main() {\n    " + look + "\n}\n"})
    return progs


def val(t):
    return {"Fine": "Fine(1)"}.get(t, "%s(1, std::marker::PhantomData)" % t)


def run_programs(progs, env):
    todo = [p for p in progs if p["kind"] != "ungenerated"]
    with ThreadPoolExecutor(max_workers=16) as ex:
        res = list(ex.map(lambda ip: compile_prog(ip[1]["src"], env, ip[0]), enumerate(todo)))
    for p, r in zip(todo, res):
        p["result"] = r
    return progs


def load_api():
    return json.load(open(os.path.join(C.LEAN, "Flurry", "Gen", "api.json")))
