#!/bin/bash
# Confirm a seeded change in its scratch worktree and copy it into /verif/seeded/<id>/.
#   [DEMO_ARGS="--release"] [DEMO_CARGO="cargo +nightly miri"] tools/seedconfirm.sh <seed-id> <worktree> <demo-test-name> [full]
# 1. the worktree's diff of src/ equals mutation/patch.diff (applied state)
# 2. demo fails with the patch        (cargo test --offline --test <demo>)
# 3. demo passes with the patch reversed
# 4. [full] the crate's own suite passes with the patch (cargo test --offline, demo excluded)
# Leaves the worktree with the patch applied. Writes seeded/<id>/{patch.diff,<demo>.rs,README.agent.md,confirm.txt}.
set -u
ID=$1; W=$2; DEMO=$3; FULL=${4:-}
V=$(cd "$(dirname "$0")/.." && pwd)
D=$V/seeded/$ID
mkdir -p "$D"
export CARGO_NET_OFFLINE=true
cd "$W" || exit 2
git diff -- src > /tmp/seed_cur.$ID.diff
if ! diff -q /tmp/seed_cur.$ID.diff mutation/patch.diff >/dev/null; then
  echo "NOTE: worktree diff differs from mutation/patch.diff; using worktree diff"
  cp /tmp/seed_cur.$ID.diff mutation/patch.diff
fi
cp mutation/patch.diff "$D/patch.diff"
cp mutation/README.md "$D/README.agent.md" 2>/dev/null
[ -f tests/$DEMO.rs ] && cp tests/$DEMO.rs "$D/$DEMO.rs"
{
echo "== confirm $ID in $W at $(date -u +%FT%TZ)"
echo "-- demo WITH patch"
timeout 1800 ${DEMO_CARGO:-cargo} test --offline ${DEMO_ARGS:-} --test $DEMO 2>&1 | tail -15
R1=${PIPESTATUS[0]}
echo "exit=$R1"
git apply -R mutation/patch.diff
echo "-- demo WITHOUT patch"
timeout 1800 ${DEMO_CARGO:-cargo} test --offline ${DEMO_ARGS:-} --test $DEMO 2>&1 | tail -8
R2=${PIPESTATUS[0]}
echo "exit=$R2"
git apply mutation/patch.diff
R3=skipped
if [ -n "$FULL" ]; then
  echo "-- crate suite WITH patch (demo moved aside)"
  mv tests/$DEMO.rs /tmp/$DEMO.$ID.rs
  timeout 3000 cargo test --offline 2>&1 | grep -E "^test result|FAILED|failed|error" | sort | uniq -c
  R3=${PIPESTATUS[0]}
  mv /tmp/$DEMO.$ID.rs tests/$DEMO.rs
  echo "exit=$R3"
fi
echo "SUMMARY demo_with_patch_exit=$R1 demo_without_patch_exit=$R2 suite_with_patch_exit=$R3"
} 2>&1 | tee "$D/confirm.txt"
