#!/usr/bin/env python3
"""regenerates /verif/MANIFEST.json from the table below (claimed properties) + properties.jsonl"""
import json, os, sys
sys.path.insert(0, "/verif")
from checklib import props as P

NOTE = ("Trusted: Lean kernel (axioms per theorem in the evidence; only propext/Classical.choice/Quot.sound), "
        "the syn-based translator, the hand-written Lean models (tied to the code by differential runs only), "
        "the cfg(flurry_verif) hooks/inspector and the harness oracles. See DESIGN.md section 9.")
CLAIMED = {
 "C01": ("PARTIAL. Machine-checked: the per-key sequential specification, the definition of linearizability, the linearization-point lemma, and soundness AND completeness of the decision procedure (Lin.search / Lin.validate) that is applied to every invocation/response history recorded from the real map: 'ok' from the Lean checker is a proof that the recorded history is linearizable, 'not-linearizable' a proof that it is not. Not proved: that every interleaving of the implementation yields such a history; interleavings are explored on the real code by a deterministic scheduler (every atomic access, lock acquisition, park/unpark and spin is a preemption point; random and PCT schedules; list bins, tree bins, resizes with helpers).", "7 (C01), 10",
         "Lean 4 theorems (spec, complete decision procedure for histories) + scheduled exploration of the real code"),
 "C08": ("PARTIAL. Machine-checked: compute_if_present as one step of the per-key specification; in every linearizable history concurrent increments are never lost; the decision procedure for recorded histories is sound and complete (C01). The harness closure counts its invocations and records the value it was shown; histories with cipinc/ciprm calls from 2-4 threads are decided by the Lean checker. Not proved: the lock/re-validate protocol on a small-step model.", "7 (C08), 10",
         "Lean 4 theorems (spec, no-lost-update) + scheduled exploration of the real code"),
 "C06": ("Machine-checked theorems about the tree-bin model (a case-for-case Lean rendition of TreeBin::new, find_or_put_tree_val, remove_tree_node, balance_insertion/deletion, find_tree_node): the red-black invariant is preserved by every insertion and by every restructuring removal, tree and list hold the same entries, a lookup costs <= 4*log2(n+1) key comparisons. The model is tied to src/node.rs by exact comparison of dumped trees (shape and colours) after every operation of generated sequences; independent validators and comparison counters run on the implementation.", "7 (C06)",
         "Lean 4 invariant proofs on a transcribed tree model + exact tree-dump correspondence"),
 "C09": ("Table theorem: the guard-flow table of every public guard-taking function is regenerated from the source on every run and `decide` shows each one checks the guard (itself or in every callee) before any other use; a general lemma lifts this to 'no use of a foreign guard'. Runtime differential: every such method is called with a guard of an unrelated collector on empty/populated maps.", "7 (C09)",
         "Lean 4 decide over a translated call table + soundness lemma + runtime differential"),
 "C10": ("Theorems about the resize-stamp/size_ctl arithmetic and the post-resize threshold, stated on definitions regenerated from src/map.rs on every run (all 31 legal table lengths on BitVec 64; all n otherwise); plus the sequential correspondence (table length and threshold after every operation equal the Lean model's). The multi-thread protocol half (claims, single publisher) is not yet registered.", "7 (C10)",
         "Lean 4 theorems on translated definitions + model/implementation correspondence"),
 "C14": ("Theorems about capacity rounding, thresholds and the count expression of add_count, stated on definitions regenerated from src/map.rs on every run and proved for every requested capacity / count; the Lean sequential model (which calls those generated definitions) must predict the table length after every operation of generated sequences; an independent oracle applies the stated growth rules to the implementation.", "7 (C14)",
         "Lean 4 theorems on translated definitions + model/implementation correspondence"),
 "C16": ("Table theorems by `decide` over the public signature table regenerated from the source on every run (every method, trait method, associated type and lifetime-carrying field of HashMap/HashSet/HashMapRef/HashSetRef/Iter/Keys/Values, elision resolved): every borrowed result carries exactly the lifetime of &self and of the guard parameter; wrapper and iterator fields carry the struct's lifetime; no 'static bound. A lemma lifts this to 'release before last use is rejected' in a lifetime mini-model, which is validated against rustc: for every such method, generated negative programs (drop guard / refresh guard / drop map / drop wrapper before use) must fail with a borrow error and positive ones must compile.", "7 (C16)",
         "Lean 4 decide over a translated signature table + rustc corpus generated from it"),
 "C17": ("Table theorems by `decide` over the regenerated signature table: every inserting entry point (classified from its signature: by-value key/value parameter, closure producing a value, or a bulk trait) has Send+Sync bounds on key and value types; lookups/iteration have none; the unsafe Send/Sync impls of BinEntry are conditional. rustc corpus: each entry point instantiated with !Send, !Sync and !Send+!Sync probe types for key and value must be rejected with a Send/Sync bound error; lookup programs over such types must compile.", "7 (C17)",
         "Lean 4 decide over a translated signature table + rustc corpus generated from it"),
 "C19": ("Theorems on the abstract map: with the duplicate-key policy extracted from serde_impls.rs on every run, deserialising any entry list never panics and a serialise/deserialise round trip preserves all lookups; any order of the same inserts (what parallel extend/collect amounts to, given C01) yields the union key set with supplied values. The visitor-loop model is executed against serde_json on generated documents; rayon paths run on pools of 1-8 threads.", "7 (C19)",
         "Lean 4 theorems on a translated policy + spec-level order-independence + differential runs"),
}
props = {json.loads(l)["id"]: json.loads(l) for l in open("/verif/properties.jsonl")}
m = json.load(open("/verif/MANIFEST.json"))
checks = []
for pid in sorted(CLAIMED):
    assert pid in P.CHECKS, pid
    text, ref, tech = CLAIMED[pid]
    checks.append({"property_id": pid, "quick_cmd": "./check %s --tier quick" % pid, "thorough_cmd": "./check %s --tier thorough" % pid,
                   "evidence_file": "/verif/evidence/%s.json" % pid, "replay_cmd_template": "./check %s --replay {path}" % pid,
                   "engine": "lean4-proof+correspondence",
                   "level_claimed": {"category": "proof", "text": text, "design_ref": ref},
                   "level_note": NOTE, "technique": tech})
m["checks"] = checks
m["engines"][0]["serves_properties"] = sorted(CLAIMED)
m["not_applicable"] = [{"property_id": p, "reason": "not yet registered in this round: its theorems/correspondence suite are under construction (DESIGN.md section 11); not a statement that the technique cannot apply"} for p in sorted(props) if p not in CLAIMED]
rc = os.popen("git -C /repo log --format=%h --grep='^verif:'").read().split()
m["hooks"]["source_commits"] = list(reversed(rc))
json.dump(m, open("/verif/MANIFEST.json", "w"), indent=1)
print("claimed:", sorted(CLAIMED))
