#!/usr/bin/env python3
"""Run registered checks against a seeded change.

  tools/seedrun.py <seed-id> [--props C07,C05] [--tier quick]

Applies /verif/seeded/<seed-id>/patch.diff to /repo (git apply), runs ./check for each listed
property (default: the property named in meta.json), records exit codes and VIOLATION lines in
meta.json under "checks", and ALWAYS restores /repo (git checkout -- .) afterwards.
The evidence files written by these runs are restored from git as well (evidence must come from
the unchanged tree)."""
import json, os, subprocess, sys, time

V = os.path.dirname(os.path.dirname(os.path.abspath(__file__)))
REPO = "/repo"


def sh(cmd, **kw):
    p = subprocess.run(cmd, stdout=subprocess.PIPE, stderr=subprocess.STDOUT, text=True, **kw)
    return p.returncode, p.stdout


def main():
    sid = sys.argv[1]
    d = os.path.join(V, "seeded", sid)
    meta_p = os.path.join(d, "meta.json")
    meta = json.load(open(meta_p)) if os.path.exists(meta_p) else {}
    props = [meta.get("property", sid.split("-")[0])]
    tier = "quick"
    a = sys.argv[2:]
    while a:
        if a[0] == "--props":
            props = a[1].split(",")
            a = a[2:]
        elif a[0] == "--tier":
            tier = a[1]
            a = a[2:]
        else:
            a = a[1:]
    rc, out = sh(["git", "-C", REPO, "status", "--porcelain", "--untracked-files=no"])
    if out.strip():
        print("refusing: /repo has local changes:\n" + out)
        sys.exit(2)
    rc, out = sh(["git", "-C", REPO, "apply", os.path.join(d, "patch.diff")])
    if rc != 0:
        print("patch does not apply:\n" + out)
        sys.exit(2)
    results = meta.get("checks", {})
    try:
        for p in props:
            t0 = time.time()
            rc, out = sh([os.path.join(V, "check"), p, "--tier", tier], cwd=V)
            viol = [l for l in out.split("\n") if l.startswith("VIOLATION")]
            results["%s/%s" % (p, tier)] = {"exit": rc, "violation_lines": viol, "seconds": round(time.time() - t0, 1),
                                            "caught": rc == 1 and bool(viol)}
            print("== %s %s: exit %d %s (%.0fs)" % (p, tier, rc, viol, time.time() - t0))
            if viol:
                # keep the replay file next to the seed for the record
                for l in viol:
                    rp = l.split("replay=")[1].split()[0]
                    if os.path.exists(rp):
                        txt = open(rp).read()
                        open(os.path.join(d, "replay_%s.txt" % p), "w").write(txt[:20000])
            else:
                print(out[-1500:])
    finally:
        sh(["git", "-C", REPO, "checkout", "--", "."])
        sh(["git", "-C", V, "checkout", "--", "evidence", "lean/Flurry/Gen"])
    meta["checks"] = results
    json.dump(meta, open(meta_p, "w"), indent=1, sort_keys=True)
    open(meta_p, "a").write("\n")


if __name__ == "__main__":
    main()
