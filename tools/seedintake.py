#!/usr/bin/env python3
"""tools/seedintake.py <seed-id> <worktree> <demo-test> <property> <round> "<change>" "<needs_to_manifest>" "<effect>"
Confirm a seeded change in its scratch worktree (tools/seedconfirm.sh ... full) and write seeded/<id>/meta.json."""
import json, os, subprocess, sys
V = os.path.dirname(os.path.dirname(os.path.abspath(__file__)))
sid, wt, demo, prop, rnd, change, needs, effect = sys.argv[1:9]
rc = subprocess.call([os.path.join(V, "tools", "seedconfirm.sh"), sid, wt, demo, "full"], stdout=subprocess.DEVNULL, stderr=subprocess.DEVNULL)
d = os.path.join(V, "seeded", sid)
summ = [l for l in open(os.path.join(d, "confirm.txt")).read().splitlines() if l.startswith("SUMMARY")]
meta = {"id": sid, "property": prop, "round": int(rnd), "change": change, "needs_to_manifest": needs, "effect": effect,
        "origin": "round %s: a fresh sub-agent that saw only the property text, a scratch worktree of /repo and one-line descriptions of earlier changes to avoid (tools/seedprompt.py; nothing else from /verif)" % rnd,
        "confirmed": {"how": "tools/seedconfirm.sh in the scratch worktree: demonstration fails with the patch, passes with the patch reversed, the crate's own `cargo test --offline` passes with the patch", "log": "confirm.txt", "summary": summ[-1] if summ else "?"}}
json.dump(meta, open(os.path.join(d, "meta.json"), "w"), indent=1, sort_keys=True)
print(sid, summ[-1] if summ else "no summary")
