#!/usr/bin/env python3
"""Prompt for a blind "hunt" agent: find a violation of a property in the UNMODIFIED code.
   tools/huntprompt.py <prop-id> <worktree> > prompt.txt   (property text + worktree only)"""
import json, os, sys
V = os.path.dirname(os.path.dirname(os.path.abspath(__file__)))
T = '''You are working alone in a scratch git worktree of the Rust crate `flurry` (a port of Java's ConcurrentHashMap: lock-free reads, per-bin locks, cooperative multi-thread resizing, red-black tree bins, seize-based memory reclamation) at {wt}. There is NO network: always pass `--offline` to cargo. Work ONLY inside {wt} (scratch files under /tmp/hunt-{pid} are fine); do not read or touch /repo, /verif or other directories. Lines guarded by `#[cfg(flurry_verif)]` are inert instrumentation hooks: ignore them. Do NOT modify anything under src/.

Here is one semantic property the crate is supposed to have:

  {pid} - {title}
  {stmt}

YOUR TASK: find out whether the code AS IT IS violates this property, and if so prove it with a failing test. Read the statement literally, clause by clause, and do not demand more than it says (e.g. it may be stated only for quiescent states, only for interleavings and not for panicking key types, only for well-formed input). Read the relevant code carefully (src/map.rs, src/node.rs, src/raw/mod.rs, src/iter/, src/set.rs, src/map_ref.rs, src/set_ref.rs, src/serde_impls.rs, src/rayon_impls.rs, src/reclaim.rs), think about unusual inputs (hash distributions: constant, high-bits-only, identity; capacities 0/1/huge; duplicate keys; empty collections; self-comparison; zero-sized values), rare multi-step sequences, API combinations (guard API vs pin(), HashSet facade, Ref wrappers, Extend/FromIterator/Clone/PartialEq/Index/Debug, serde and rayon features: `--features serde,rayon` works offline) and specific interleavings (you can hold a thread at a chosen point with key/value types whose Hash/Eq/Ord/Clone/Drop blocks on a channel). Write small experiments as integration tests in tests/ and run them.

DELIVERABLES in {wt}/hunt/: README.md with your verdict - either (a) VIOLATION: the exact clause violated, the input / schedule, the observed vs required behaviour, the root cause in the source (file:line), and a suggested minimal fix; plus the failing test as tests/hunt_<name>.rs (it must fail reliably on the unmodified code and its failure must be the property violation itself); or (b) NO VIOLATION FOUND: what you examined and tried (list the experiments with their results), and anything suspicious that is outside the property's quantifier (say why it is outside). Be honest: a false claim is worse than none. Time budget: about 60 minutes. In your final answer give the verdict in two or three sentences.'''
pid, wt = sys.argv[1], sys.argv[2]
props = {json.loads(l)["id"]: json.loads(l) for l in open(os.path.join(V, "properties.jsonl"))}
p = props[pid]
print(T.format(wt=wt, pid=pid, title=p.get("title", ""), stmt=p.get("statement")))
