#!/usr/bin/env python3
"""Write the prompt for a blind "seeded change" sub-agent: tools/seedprompt.py <prop-id> <worktree> > prompt.txt

The prompt contains ONLY the text of the property, the path of the scratch worktree, and one-line
descriptions of the changes earlier rounds used for that property (so that the new one is
different); nothing else from /verif."""
import glob, json, os, sys

V = os.path.dirname(os.path.dirname(os.path.abspath(__file__)))

T = '''You are working alone in a scratch git worktree of the Rust crate `flurry` (a port of Java's ConcurrentHashMap: lock-free reads, per-bin locks, cooperative multi-thread resizing, red-black tree bins, seize-based memory reclamation) at {wt}. There is NO network: always pass `--offline` to cargo (e.g. `cargo test --offline`). Work ONLY inside {wt}; do not read or touch /repo, /verif or any other directory outside it (you may use /tmp/{pid}-scratch for scratch files). Lines guarded by `#[cfg(flurry_verif)]` in the source are inert instrumentation hooks: leave them alone and do not rely on them.

This is a robustness study of a verification tool: I need a realistic *regression* to test it against. Here is one semantic property the crate is supposed to have:

  {pid} - {title}
  {stmt}

YOUR TASK: write a small change to the crate's source (under src/) that BREAKS this property, such that
  (a) the crate still compiles without new warnings,
  (b) the crate's entire existing test suite still passes with the change (`cargo test --offline` - unit tests, integration tests in tests/, doctests; run it at least twice since some tests are concurrent),
  (c) the breakage needs something SPECIFIC to manifest: a particular thread interleaving, a fault or panic at a particular point, a multi-step sequence of operations, an unusual input (hash distribution, capacity, key ordering), or two cooperating code sites that each look fine alone. NOT something that ordinary single-threaded use or the obvious smoke test would expose at once.
  (d) it looks like a plausible slip or well-meant "optimisation/cleanup" by a maintainer: small (typically 1-15 lines), no dead giveaways, no new test-only code paths, no special-casing of magic values.
Think about which parts of the code carry this property and which conditions/orderings/re-checks are load-bearing only in rare situations. Choose a code path or mechanism DIFFERENT from the following changes, which earlier rounds of this study already used for this property (do not repeat them or trivial variants of them):
{used}

ALSO write a DEMONSTRATION: a new integration test file tests/<name>.rs (name it demo_<something>) that FAILS with your change applied and PASSES on the unchanged code. It must show a violation of the property itself as stated (wrong result / lost update / leak / double drop / hang detected by a timeout / panic / etc.), not merely that the code differs. If the failure depends on timing, make the demonstration reliable: use deterministic tricks where you can (key/value types whose Hash/Eq/Ord/Clone/Drop implementation blocks on a channel or barrier to hold a thread at a chosen point, a custom BuildHasher to force collisions, many iterations with a time limit) so that it fails in at least 9 of 10 runs with the change, within about 2 minutes, and passes reliably without it. Verify both directions yourself (`git stash` / `git apply -R` to test the unchanged code).

DELIVERABLES inside {wt} (leave the worktree with your change APPLIED):
  mutation/patch.diff   - output of `git diff -- src` (only the src change, not the test)
  tests/demo_*.rs       - the demonstration
  mutation/README.md    - what you changed and why it is plausible; why it breaks the property; exactly what is needed for it to manifest; how you ran the demonstration and the existing suite, with the observed results (with and without the change).
Time budget: about 60-75 minutes of work. If your first idea turns out to be caught by the existing tests or you cannot demonstrate it, pick another one. In your final answer give: a one-line description of the change, the demo test name, and the with/without results.'''


def main():
    pid, wt = sys.argv[1], sys.argv[2]
    props = {json.loads(l)["id"]: json.loads(l) for l in open(os.path.join(V, "properties.jsonl"))}
    used = []
    for d in sorted(glob.glob(os.path.join(V, "seeded", "*", "meta.json"))):
        sid = os.path.basename(os.path.dirname(d))
        if sid.startswith("F"):
            continue
        m = json.load(open(d))
        if (m.get("property") or sid.split("-")[0]) == pid:
            used.append(m.get("change", ""))
    p = props[pid]
    u = "\n".join("   - " + x for x in used) or "   (none)"
    print(T.format(wt=wt, pid=pid, title=p.get("title", ""), stmt=p.get("statement"), used=u))


if __name__ == "__main__":
    main()
