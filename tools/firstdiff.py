#!/usr/bin/env python3
"""show mismatching lines between implementation and model outputs with their op and case"""
import sys
ops=open(sys.argv[1]).read().split("\n"); a=open(sys.argv[2]).read().split("\n"); b=open(sys.argv[3]).read().split("\n")
limit=int(sys.argv[4]) if len(sys.argv)>4 else 5
case=None; start=0; shown=0; seen=set()
for i,(o,x,y) in enumerate(zip(ops,a,b)):
    if o.startswith("# case"): case=o; start=i
    if x!=y and case not in seen:
        seen.add(case); shown+=1
        print(case, "line", i+1, "op#", i-start-1)
        for j in range(max(start+1,i-3), i+1):
            print("   ", ops[j][:200])
        print("   impl :", x[:400]); print("   model:", y[:400])
        if shown>=limit: break
print("cases with mismatches:", len(seen) if shown<limit else ">= %d"%shown)
